//! Wire protocol between the driver (`svcheck`) and the fork-server worker (`svworker`).
//! Messages are length-prefixed (u32 LE) JSON documents on the worker's stdin/stdout.

use serde::{Deserialize, Serialize};
use std::collections::BTreeMap;
use std::io::{Read, Write};

#[derive(Serialize, Deserialize, Clone, Debug, PartialEq)]
pub enum Step {
    /// `Engine::compile_and_run_raw_program(src)`
    Eval { src: String },
    /// `Engine::compile_and_run_raw_program_with_path(src, path)`: how the `steel` binary runs a
    /// file.  This entry point compiles calls of non-shadowed builtins to specialised opcodes,
    /// the path-less one (REPL, `Engine::run`) does not.
    EvalPath { src: String, path: String },
    /// `Engine::register_steel_module(name, src)`
    Module { name: String, src: String },
    /// set the gc-stress period (0 = off): full collection at every n-th allocation
    GcStress { n: u64 },
    /// evaluate `src`; a helper arms `ThreadStateController::interrupt()` when the global
    /// step counter passes `after_steps` (counted from the start of this step).  After the
    /// evaluation returns, `resume()` is called.
    EvalInterrupt { src: String, after_steps: u64 },
    /// generic extension point: the worker dispatches on `name`
    Special { name: String, args: Vec<String> },
}

#[derive(Serialize, Deserialize, Clone, Debug, PartialEq, Eq)]
pub enum Outcome {
    Ok,
    Err,
    Panic,
}

#[derive(Serialize, Deserialize, Clone, Debug)]
pub struct StepResult {
    pub outcome: Outcome,
    /// canonical renderings of the values returned by the step (top-level expressions)
    pub values: Vec<String>,
    /// bytes written to fd 1 during the step (lossy UTF-8)
    pub stdout: String,
    pub err_kind: String,
    pub err_msg: String,
    /// hook readings taken after the step
    pub hooks: BTreeMap<String, i64>,
    pub elapsed_us: u64,
}

#[derive(Serialize, Deserialize, Clone, Debug, PartialEq, Eq)]
pub enum End {
    /// all steps ran (a step may still have reported Err / Panic)
    Done,
    /// the child died from a signal (abort, SIGSEGV, stack overflow...)
    Signal(i32),
    /// the child exited with a non-zero status by itself (e.g. a script called exit)
    Exit(i32),
    /// killed by the per-case watchdog — never a violation by itself
    Watchdog,
    /// died after an allocation failure under the address-space limit — never a violation
    Oom,
}

#[derive(Serialize, Deserialize, Clone, Debug)]
pub struct CaseResult {
    pub steps: Vec<StepResult>,
    pub end: End,
    pub wall_us: u64,
    pub stderr_tail: String,
    /// OS threads of the fork server itself when the case was forked (must be 1)
    pub server_threads: u32,
}

#[derive(Serialize, Deserialize, Clone, Debug)]
pub struct Case {
    pub steps: Vec<Step>,
    pub timeout_ms: u64,
    /// RLIMIT_AS for the child in MiB (0 = unlimited)
    pub mem_mb: u64,
    /// stop executing steps after the first Panic (default true)
    #[serde(default)]
    pub continue_after_panic: bool,
}

impl Case {
    pub fn new(steps: Vec<Step>) -> Self {
        Case { steps, timeout_ms: 20_000, mem_mb: 6144, continue_after_panic: false }
    }
    pub fn eval(src: impl Into<String>) -> Self {
        Case::new(vec![Step::Eval { src: src.into() }])
    }
}

pub fn write_msg<W: Write, T: Serialize>(w: &mut W, msg: &T) -> std::io::Result<()> {
    let bytes = serde_json::to_vec(msg).map_err(|e| std::io::Error::new(std::io::ErrorKind::Other, e))?;
    w.write_all(&(bytes.len() as u32).to_le_bytes())?;
    w.write_all(&bytes)?;
    w.flush()
}

pub fn read_msg<R: Read, T: for<'de> Deserialize<'de>>(r: &mut R) -> std::io::Result<Option<T>> {
    let mut len = [0u8; 4];
    match r.read_exact(&mut len) {
        Ok(()) => {}
        Err(e) if e.kind() == std::io::ErrorKind::UnexpectedEof => return Ok(None),
        Err(e) => return Err(e),
    }
    let n = u32::from_le_bytes(len) as usize;
    let mut buf = vec![0u8; n];
    r.read_exact(&mut buf)?;
    serde_json::from_slice(&buf)
        .map(Some)
        .map_err(|e| std::io::Error::new(std::io::ErrorKind::InvalidData, e))
}
