//! Fork-server worker: boots one Steel engine under the configuration given by the process
//! environment, then serves cases.  Every case runs in a forked child on the pristine booted
//! engine, so cases cannot influence each other and a crash kills only the child.

use std::collections::BTreeMap;
use std::io::Write;
use std::os::unix::io::FromRawFd;
use std::sync::atomic::Ordering;
use std::sync::Mutex;

use steel::steel_vm::engine::Engine;
use steel::verif;
use svproto::*;

mod host;

static LAST_PANIC: Mutex<Option<String>> = Mutex::new(None);

fn ntasks() -> u32 {
    std::fs::read_dir("/proc/self/task").map(|d| d.count() as u32).unwrap_or(0)
}

fn memfd(name: &str) -> i32 {
    let c = std::ffi::CString::new(name).unwrap();
    let fd = unsafe { libc::memfd_create(c.as_ptr(), 0) };
    assert!(fd >= 0, "memfd_create failed");
    fd
}

fn read_fd_from(fd: i32, offset: i64) -> Vec<u8> {
    let mut out = Vec::new();
    let mut off = offset;
    let mut buf = vec![0u8; 1 << 16];
    loop {
        let n = unsafe { libc::pread(fd, buf.as_mut_ptr() as *mut _, buf.len(), off) };
        if n <= 0 {
            break;
        }
        out.extend_from_slice(&buf[..n as usize]);
        off += n as i64;
    }
    out
}

fn write_all_fd(fd: i32, mut data: &[u8]) {
    while !data.is_empty() {
        let n = unsafe { libc::write(fd, data.as_ptr() as *const _, data.len()) };
        if n <= 0 {
            break;
        }
        data = &data[n as usize..];
    }
}

fn hooks_now() -> BTreeMap<String, i64> {
    verif::counters().into_iter().map(|(k, v)| (k.to_string(), v)).collect()
}

fn truncate(mut s: String, max: usize) -> String {
    if s.len() > max {
        let mut cut = max;
        while !s.is_char_boundary(cut) {
            cut -= 1;
        }
        s.truncate(cut);
        s.push_str("…[truncated]");
    }
    s
}

fn run_eval(engine: &mut Engine, src: &str) -> Result<Vec<String>, (String, String)> {
    match engine.compile_and_run_raw_program(src.to_string()) {
        Ok(vals) => Ok(vals.iter().map(|v| truncate(verif::canon(v), 1 << 20)).collect()),
        Err(e) => Err((format!("{:?}", e.kind()), truncate(format!("{}", e), 4096))),
    }
}

fn exec_step(engine: &mut Engine, step: &Step) -> Result<Vec<String>, (String, String)> {
    match step {
        Step::Eval { src } => run_eval(engine, src),
        Step::EvalPath { src, path } => match engine.compile_and_run_raw_program_with_path(src.to_string(), std::path::PathBuf::from(path)) {
            Ok(vals) => Ok(vals.iter().map(|v| truncate(verif::canon(v), 1 << 20)).collect()),
            Err(e) => Err((format!("{:?}", e.kind()), truncate(format!("{}", e), 4096))),
        },
        Step::Module { name, src } => {
            engine.register_steel_module(name.clone(), src.clone());
            Ok(vec![])
        }
        Step::GcStress { n } => {
            verif::GC_STRESS_EVERY.store(*n as usize, Ordering::SeqCst);
            Ok(vec![])
        }
        Step::EvalInterrupt { src, after_steps } => {
            let ctl = engine.get_thread_state_controller();
            let ctl2 = ctl.clone();
            let base = verif::STEPS.load(Ordering::SeqCst);
            // bit 62 of the step count selects the hook's late mode: the request is raised after the
            // interrupt check of that step, so the step's instruction runs with the request pending
            let late = *after_steps & (1 << 62) != 0;
            // bit 61: the request is made by another thread after a delay (low bits, in microseconds) instead of
            // at a script step - the only way to meet the windows between the requesting thread's own stores
            let asynchronous = *after_steps & (1 << 61) != 0;
            let after = *after_steps & !(3u64 << 61);
            verif::INTERRUPT_AFTER_CHECK.store(late, Ordering::SeqCst);
            let requester = if asynchronous {
                let ctl3 = ctl.clone();
                verif::arm_interrupt(u64::MAX / 2, Box::new(move || ctl2.interrupt()));
                Some(std::thread::spawn(move || {
                    std::thread::sleep(std::time::Duration::from_micros(after));
                    // (the request is complete when interrupt() returns: the delay point inside it may take ms)
                    ctl3.interrupt();
                    verif::INTERRUPT_FIRED_AT.store(verif::STEPS.load(Ordering::SeqCst).max(1), Ordering::SeqCst);
                }))
            } else {
                verif::arm_interrupt(base + after, Box::new(move || ctl2.interrupt()));
                None
            };
            // Fallback for code that runs without passing the counted dispatch point: a timer
            // delivers the interrupt if the armed step count was not reached in time.
            let done = std::sync::Arc::new(std::sync::atomic::AtomicBool::new(false));
            let done2 = done.clone();
            let timer = std::thread::spawn(move || {
                let t0 = std::time::Instant::now();
                while t0.elapsed() < std::time::Duration::from_millis(1500) {
                    if done2.load(Ordering::SeqCst) {
                        return;
                    }
                    std::thread::sleep(std::time::Duration::from_millis(2));
                }
                verif::fire_interrupt(verif::STEPS.load(Ordering::SeqCst));
            });
            let r = run_eval(engine, src);
            done.store(true, Ordering::SeqCst);
            let _ = timer.join();
            if let Some(t) = requester {
                let _ = t.join();
            }
            verif::disarm_interrupt();
            ctl.resume();
            r
        }
        Step::Special { name, args } => host::special(engine, name, args),
    }
}

fn child_main(engine: &mut Engine, case: &Case, res_fd: i32, out_fd: i32, err_fd: i32) -> ! {
    unsafe {
        // fd 0 of the server is the protocol pipe: a script reading stdin must not touch it
        let devnull = libc::open(b"/dev/null\0".as_ptr() as *const _, libc::O_RDONLY);
        libc::dup2(devnull, 0);
        libc::close(devnull);
        libc::dup2(out_fd, 1);
        libc::dup2(err_fd, 2);
        if case.mem_mb > 0 {
            let lim = libc::rlimit {
                rlim_cur: case.mem_mb * 1024 * 1024,
                rlim_max: case.mem_mb * 1024 * 1024,
            };
            libc::setrlimit(libc::RLIMIT_AS, &lim);
        }
        // no core dumps from crashing cases
        let z = libc::rlimit { rlim_cur: 0, rlim_max: 0 };
        libc::setrlimit(libc::RLIMIT_CORE, &z);
    }
    // the handshake counters count from the start of the case (the boot of the engine stops the world
    // for every builtin definition)
    verif::WORLD_STOPS.store(0, std::sync::atomic::Ordering::SeqCst);
    verif::FOREIGN_ACCESSES.store(0, std::sync::atomic::Ordering::SeqCst);
    verif::SCAN_OVERLAPS.store(0, std::sync::atomic::Ordering::SeqCst);
    let mut out_off: i64 = 0;
    for step in &case.steps {
        let t0 = std::time::Instant::now();
        *LAST_PANIC.lock().unwrap() = None;
        let r = std::panic::catch_unwind(std::panic::AssertUnwindSafe(|| exec_step(engine, step)));
        let _ = std::io::stdout().flush();
        let out = read_fd_from(1, out_off);
        out_off += out.len() as i64;
        let stdout = truncate(String::from_utf8_lossy(&out).to_string(), 1 << 20);
        let (outcome, values, err_kind, err_msg) = match r {
            Ok(Ok(v)) => (Outcome::Ok, v, String::new(), String::new()),
            Ok(Err((k, m))) => (Outcome::Err, vec![], k, m),
            Err(p) => {
                let msg = LAST_PANIC.lock().unwrap().take().unwrap_or_else(|| {
                    p.downcast_ref::<String>()
                        .cloned()
                        .or_else(|| p.downcast_ref::<&str>().map(|s| s.to_string()))
                        .unwrap_or_default()
                });
                (Outcome::Panic, vec![], "Panic".to_string(), truncate(msg, 4096))
            }
        };
        let is_panic = outcome == Outcome::Panic;
        let sr = StepResult {
            outcome,
            values,
            stdout,
            err_kind,
            err_msg,
            hooks: hooks_now(),
            elapsed_us: t0.elapsed().as_micros() as u64,
        };
        let mut line = serde_json::to_vec(&sr).unwrap();
        line.push(b'\n');
        write_all_fd(res_fd, &line);
        if is_panic && !case.continue_after_panic {
            break;
        }
    }
    unsafe { libc::_exit(0) }
}

fn run_forked(engine: &mut Engine, case: &Case) -> CaseResult {
    let t0 = std::time::Instant::now();
    let res_fd = memfd("res");
    let out_fd = memfd("out");
    let err_fd = memfd("err");
    let mut live = [0i32; 2];
    unsafe {
        libc::pipe(live.as_mut_ptr());
    }
    let server_threads = ntasks();
    let pid = unsafe { libc::fork() };
    if pid == 0 {
        unsafe {
            libc::close(live[0]);
            // The collector's marker pool is created lazily with available_parallelism()+1 threads;
            // with 16 drivers in parallel that is 270 threads fighting for 16 cores.  Restrict the
            // case child to SVWORKER_CPUS (default 2) cpus chosen by pid: the pool then has 3
            // markers (still parallel marking) and a full collection costs ~0.3 ms instead of ~4.
            let ncpu = libc::sysconf(libc::_SC_NPROCESSORS_ONLN).max(1) as usize;
            let want: usize = std::env::var("SVWORKER_CPUS").ok().and_then(|v| v.parse().ok()).unwrap_or(2);
            if want > 0 && want < ncpu {
                let mut set: libc::cpu_set_t = std::mem::zeroed();
                let base = (libc::getpid() as usize * want) % ncpu;
                for k in 0..want {
                    libc::CPU_SET((base + k) % ncpu, &mut set);
                }
                libc::sched_setaffinity(0, std::mem::size_of::<libc::cpu_set_t>(), &set);
            }
        }
        child_main(engine, case, res_fd, out_fd, err_fd);
    }
    unsafe {
        libc::close(live[1]);
    }
    let mut watchdog = false;
    let mut pfd = libc::pollfd { fd: live[0], events: libc::POLLIN, revents: 0 };
    let deadline = std::time::Instant::now() + std::time::Duration::from_millis(case.timeout_ms);
    loop {
        let now = std::time::Instant::now();
        if now >= deadline {
            watchdog = true;
            break;
        }
        let ms = (deadline - now).as_millis().min(i32::MAX as u128) as i32;
        let r = unsafe { libc::poll(&mut pfd, 1, ms.max(1)) };
        if r > 0 {
            break; // hang-up: every holder of the write end is gone
        }
        if r < 0 {
            let e = std::io::Error::last_os_error();
            if e.kind() == std::io::ErrorKind::Interrupted {
                continue;
            }
            break;
        }
    }
    if watchdog {
        unsafe {
            libc::kill(pid, libc::SIGKILL);
        }
    }
    let mut st = 0i32;
    unsafe {
        libc::waitpid(pid, &mut st, 0);
        libc::close(live[0]);
    }
    let res = read_fd_from(res_fd, 0);
    let err = read_fd_from(err_fd, 0);
    unsafe {
        libc::close(res_fd);
        libc::close(out_fd);
        libc::close(err_fd);
    }
    let mut steps = Vec::new();
    for line in res.split(|b| *b == b'\n') {
        if line.is_empty() {
            continue;
        }
        if let Ok(sr) = serde_json::from_slice::<StepResult>(line) {
            steps.push(sr);
        }
    }
    let err_s = String::from_utf8_lossy(&err).to_string();
    let tail_start = {
        let mut i = err_s.len().saturating_sub(2000);
        while !err_s.is_char_boundary(i) {
            i += 1;
        }
        i
    };
    let stderr_tail = err_s[tail_start..].to_string();
    let end = if watchdog {
        End::Watchdog
    } else if libc::WIFSIGNALED(st) {
        if err_s.contains("memory allocation of") {
            End::Oom
        } else {
            End::Signal(libc::WTERMSIG(st))
        }
    } else if libc::WIFEXITED(st) && libc::WEXITSTATUS(st) != 0 {
        End::Exit(libc::WEXITSTATUS(st))
    } else {
        End::Done
    };
    CaseResult { steps, end, wall_us: t0.elapsed().as_micros() as u64, stderr_tail, server_threads }
}

fn main() {
    std::panic::set_hook(Box::new(|info| {
        let msg = info
            .payload()
            .downcast_ref::<String>()
            .cloned()
            .or_else(|| info.payload().downcast_ref::<&str>().map(|s| s.to_string()))
            .unwrap_or_default();
        let loc = info.location().map(|l| format!("{}:{}", l.file(), l.line())).unwrap_or_default();
        let tname = std::thread::current().name().unwrap_or("?").to_string();
        if tname == "main" {
            *LAST_PANIC.lock().unwrap() = Some(format!("{} @ {}", msg, loc));
        }
        eprintln!("[panic thread={}] {} @ {}", tname, msg, loc);
        // development aid: SVWORKER_BACKTRACE=1 prints the steel frames of the panicking thread
        if std::env::var("SVWORKER_BACKTRACE").is_ok() {
            let bt = std::backtrace::Backtrace::force_capture().to_string();
            for l in bt.lines().filter(|l| l.contains("steel") || l.contains("/repo/")).take(60) {
                eprintln!("  bt: {}", l.trim());
            }
        }
    }));
    let t0 = std::time::Instant::now();
    let mut engine = Engine::new();
    host::setup(&mut engine);
    let boot_ms = t0.elapsed().as_millis() as u64;

    // raw fds so that no std lock is held across fork
    let mut input = std::mem::ManuallyDrop::new(unsafe { std::fs::File::from_raw_fd(0) });
    let mut output = std::mem::ManuallyDrop::new(unsafe { std::fs::File::from_raw_fd(1) });

    let mut hello = BTreeMap::new();
    hello.insert("boot_ms".to_string(), boot_ms as i64);
    hello.insert("threads".to_string(), ntasks() as i64);
    write_msg(&mut *output, &hello).unwrap();

    loop {
        let case: Option<Case> = read_msg(&mut *input).unwrap_or(None);
        let Some(case) = case else { break };
        let res = run_forked(&mut engine, &case);
        if write_msg(&mut *output, &res).is_err() {
            break;
        }
    }
}
