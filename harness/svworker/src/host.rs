//! Host-side extensions of the worker: registered host functions (C20) and the
//! `Step::Special` operations.

use steel::gc::unsafe_erased_pointers::CustomReference;
use steel::rvals::Custom;
use steel::steel_vm::engine::Engine;
use steel::steel_vm::register_fn::RegisterFn;
use steel::custom_reference;
use std::collections::{HashMap, HashSet};

/// a registered host struct passed by value
#[derive(Clone, Debug, PartialEq)]
pub struct HostPoint {
    x: i32,
    y: i32,
}
impl Custom for HostPoint {}
impl HostPoint {
    fn new(x: i32, y: i32) -> Self {
        HostPoint { x, y }
    }
    fn x(&self) -> i32 {
        self.x
    }
    fn y(&self) -> i32 {
        self.y
    }
    fn with_x(mut self, x: i32) -> Self {
        self.x = x;
        self
    }
}

/// a host object lent to scripts by reference for the duration of one call
pub struct Lent {
    value: usize,
}
impl Lent {
    fn get(&mut self) -> usize {
        self.value
    }
    fn get_imm(&self) -> usize {
        self.value
    }
    fn set(&mut self, v: usize) {
        self.value = v;
    }
}
impl CustomReference for Lent {}
custom_reference!(Lent);

fn host_result(x: isize) -> Result<isize, String> {
    if x < 0 {
        Err(format!("negative: {}", x))
    } else {
        Ok(x)
    }
}

thread_local! {
    /// values the host keeps alive through the collector's root table (`SteelVal::as_rooted`), by handle
    static HOST_ROOTS: std::cell::RefCell<Vec<Option<steel::RootedSteelVal>>> = std::cell::RefCell::new(Vec::new());
}

pub fn setup(engine: &mut Engine) {
    // host roots: (host-root! v) -> handle; (host-rooted-ref h) -> v; (host-unroot! h) releases the root
    engine.register_fn("host-root!", |v: steel::SteelVal| -> usize {
        HOST_ROOTS.with(|r| {
            let mut r = r.borrow_mut();
            r.push(Some(v.as_rooted()));
            r.len() - 1
        })
    });
    engine.register_fn("host-rooted-ref", |h: usize| -> steel::SteelVal {
        HOST_ROOTS.with(|r| r.borrow().get(h).and_then(|x| x.as_ref().map(|x| x.value().clone())).unwrap_or(steel::SteelVal::Void))
    });
    engine.register_fn("host-unroot!", |h: usize| -> bool {
        HOST_ROOTS.with(|r| r.borrow_mut().get_mut(h).map(|x| x.take().is_some()).unwrap_or(false))
    });
    // identity functions at every supported parameter type: the script sees what the host received
    engine.register_fn("host-i16", |x: i16| -> isize { x as isize });
    engine.register_fn("host-i32", |x: i32| -> isize { x as isize });
    engine.register_fn("host-u8", |x: u8| -> isize { x as isize });
    engine.register_fn("host-u16", |x: u16| -> isize { x as isize });
    engine.register_fn("host-u32", |x: u32| -> isize { x as isize });
    engine.register_fn("host-u64", |x: u64| -> String { x.to_string() });
    engine.register_fn("host-usize", |x: usize| -> String { x.to_string() });
    engine.register_fn("host-isize", |x: isize| -> isize { x });
    engine.register_fn("host-f64", |x: f64| -> f64 { x });
    engine.register_fn("host-bool", |x: bool| -> bool { x });
    engine.register_fn("host-char", |x: char| -> char { x });
    engine.register_fn("host-string", |x: String| -> String { x });
    engine.register_fn("host-opt-int", |x: Option<isize>| -> Option<isize> { x });
    engine.register_fn("host-result", host_result);
    engine.register_fn("host-vec-int", |x: Vec<isize>| -> Vec<isize> { x });
    engine.register_fn("host-vec-string", |x: Vec<String>| -> Vec<String> { x });
    engine.register_fn("host-hashmap", |x: HashMap<String, isize>| -> HashMap<String, isize> { x });
    engine.register_fn("host-hashset", |x: HashSet<isize>| -> HashSet<isize> { x });
    engine.register_fn("host-add3", |a: isize, b: isize, c: isize| -> isize { a.wrapping_add(b).wrapping_add(c) });
    engine.register_fn("host-concat", |a: String, n: usize, c: char| -> String { format!("{}{}{}", a, n, c) });
    engine.register_fn("host-zero", || -> isize { 7 });
    // a host function that panics (the embedder recovers with catch_unwind, as the worker does)
    engine.register_fn("host-panic", || -> isize { panic!("host function panicked on purpose") });
    // values produced by the host
    engine.register_fn("host-make-u64-max", || -> u64 { u64::MAX });
    engine.register_fn("host-make-usize-max", || -> usize { usize::MAX });
    engine.register_fn("host-make-i64-min", || -> i64 { i64::MIN });
    engine.register_fn("host-make-f32", || -> f32 { 0.1f32 });
    engine.register_fn("host-make-none", || -> Option<isize> { None });
    engine.register_fn("host-make-some", || -> Option<isize> { Some(5) });
    engine.register_fn("host-make-tuple", || -> (isize, String) { (5, "five".to_string()) });
    // a registered struct
    engine.register_type::<HostPoint>("HostPoint?");
    engine.register_fn("HostPoint", HostPoint::new);
    engine.register_fn("HostPoint-x", HostPoint::x);
    engine.register_fn("HostPoint-y", HostPoint::y);
    engine.register_fn("HostPoint-with-x", HostPoint::with_x);
    // the lent reference
    engine.register_value("*lent*", steel::SteelVal::Void);
    engine.register_fn("lent-get", Lent::get);
    engine.register_fn("lent-get-imm", Lent::get_imm);
    engine.register_fn("lent-set!", Lent::set);
}

pub fn special(
    engine: &mut Engine,
    name: &str,
    _args: &[String],
) -> Result<Vec<String>, (String, String)> {
    match name {
        // every (module, exported name) pair of the builtin modules
        "builtin-names" => {
            let mods = engine.builtin_modules().inner();
            let mut out = Vec::new();
            for (k, m) in mods.iter() {
                for n in m.names() {
                    out.push(format!("{}\t{}", k, n));
                }
            }
            out.sort();
            Ok(out)
        }
        // set an environment variable in this (forked) case process only
        "setenv" => {
            if _args.len() == 2 {
                std::env::set_var(&_args[0], &_args[1]);
            }
            Ok(vec![])
        }
        // parse-only: "ok <n>" followed by the printed forms, or "err <start> <end> <message>"
        // (byte offsets of the reported span)
        "parse" | "parse-raw" => {
            let src = _args.first().cloned().unwrap_or_default();
            // parse-raw: data as the run time reader sees them (special forms are not lowered)
            let parsed = if name == "parse" { steel::parser::parser::Parser::parse(&src) } else { steel::parser::parser::Parser::parse_without_lowering(&src) };
            match parsed {
                Ok(forms) => {
                    let mut out = vec![format!("ok {}", forms.len())];
                    for f in &forms {
                        out.push(f.to_string());
                    }
                    Ok(out)
                }
                Err(e) => {
                    let sp = e.span();
                    Ok(vec![format!("err {} {} {}", sp.start, sp.end, e)])
                }
            }
        }
        // evaluate a script while a host object is lent by reference as the global *lent*;
        // args: [script, initial value]; result: [canonical value of the script, value of the object afterwards]
        "eval-with-ref" => {
            let script = _args.first().cloned().unwrap_or_default();
            let init: usize = _args.get(1).and_then(|v| v.parse().ok()).unwrap_or(10);
            let mut obj = Lent { value: init };
            // what Engine::run_with_reference does, but keeping the value of the last form
            let r = engine.with_mut_reference::<Lent, Lent>(&mut obj).consume(move |engine, args| {
                let mut args = args.into_iter();
                engine.update_value("*lent*", args.next().unwrap());
                let res = engine.compile_and_run_raw_program(std::borrow::Cow::Owned(script.clone()));
                engine.update_value("*lent*", steel::SteelVal::Void);
                res
            });
            match r {
                Ok(vs) => {
                    let last = vs.iter().rev().find(|v| !matches!(v, steel::SteelVal::Void)).cloned().unwrap_or(steel::SteelVal::Void);
                    Ok(vec![steel::verif::canon(&last), obj.value.to_string()])
                }
                Err(e) => Err((format!("{:?}", e.kind()), format!("{}", e))),
            }
        }
        _ => Err(("Harness".into(), format!("unknown special {}", name))),
    }
}
