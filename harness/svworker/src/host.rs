//! Host-side extensions of the worker: registered host functions (C20) and the
//! `Step::Special` operations.

use steel::steel_vm::engine::Engine;

pub fn setup(_engine: &mut Engine) {}

pub fn special(
    engine: &mut Engine,
    name: &str,
    _args: &[String],
) -> Result<Vec<String>, (String, String)> {
    match name {
        // every (module, exported name) pair of the builtin modules
        "builtin-names" => {
            let mods = engine.builtin_modules().inner();
            let mut out = Vec::new();
            for (k, m) in mods.iter() {
                for n in m.names() {
                    out.push(format!("{}\t{}", k, n));
                }
            }
            out.sort();
            Ok(out)
        }
        // set an environment variable in this (forked) case process only
        "setenv" => {
            if _args.len() == 2 {
                std::env::set_var(&_args[0], &_args[1]);
            }
            Ok(vec![])
        }
        _ => Err(("Harness".into(), format!("unknown special {}", name))),
    }
}
