//! Host-side extensions of the worker: registered host functions (C20) and the
//! `Step::Special` operations.

use steel::steel_vm::engine::Engine;

pub fn setup(_engine: &mut Engine) {}

pub fn special(
    engine: &mut Engine,
    name: &str,
    _args: &[String],
) -> Result<Vec<String>, (String, String)> {
    match name {
        // every (module, exported name) pair of the builtin modules
        "builtin-names" => {
            let mods = engine.builtin_modules().inner();
            let mut out = Vec::new();
            for (k, m) in mods.iter() {
                for n in m.names() {
                    out.push(format!("{}\t{}", k, n));
                }
            }
            out.sort();
            Ok(out)
        }
        _ => Err(("Harness".into(), format!("unknown special {}", name))),
    }
}
