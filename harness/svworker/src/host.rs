//! Host-side extensions of the worker: registered host functions (C20) and the
//! `Step::Special` operations.

use steel::steel_vm::engine::Engine;

pub fn setup(_engine: &mut Engine) {}

pub fn special(
    engine: &mut Engine,
    name: &str,
    _args: &[String],
) -> Result<Vec<String>, (String, String)> {
    match name {
        // every (module, exported name) pair of the builtin modules
        "builtin-names" => {
            let mods = engine.builtin_modules().inner();
            let mut out = Vec::new();
            for (k, m) in mods.iter() {
                for n in m.names() {
                    out.push(format!("{}\t{}", k, n));
                }
            }
            out.sort();
            Ok(out)
        }
        // set an environment variable in this (forked) case process only
        "setenv" => {
            if _args.len() == 2 {
                std::env::set_var(&_args[0], &_args[1]);
            }
            Ok(vec![])
        }
        // parse-only: "ok <n>" followed by the printed forms, or "err <start> <end> <message>"
        // (byte offsets of the reported span)
        "parse" | "parse-raw" => {
            let src = _args.first().cloned().unwrap_or_default();
            // parse-raw: data as the run time reader sees them (special forms are not lowered)
            let parsed = if name == "parse" { steel::parser::parser::Parser::parse(&src) } else { steel::parser::parser::Parser::parse_without_lowering(&src) };
            match parsed {
                Ok(forms) => {
                    let mut out = vec![format!("ok {}", forms.len())];
                    for f in &forms {
                        out.push(f.to_string());
                    }
                    Ok(out)
                }
                Err(e) => {
                    let sp = e.span();
                    Ok(vec![format!("err {} {} {}", sp.start, sp.end, e)])
                }
            }
        }
        _ => Err(("Harness".into(), format!("unknown special {}", name))),
    }
}
