//! C05 harness: histories of operations on `steel_rc::BiasedRc` executed by real threads under a
//! deterministic token-passing scheduler.  The `verif` feature of steel-rc turns every access
//! of the count word into a yield point and quarantines destroyed boxes instead of freeing
//! them, so an execution is a pure function of (history, schedule) and an access to a
//! destroyed box is reported instead of being undefined behaviour.
//!
//! Usage (driven by svcheck, one process per batch to isolate crashes):
//!   svrc run        < cases.jsonl   > results.jsonl      (one JSON case per line)
//!   svrc exhaustive < cases.jsonl   > results.jsonl      (enumerate all schedules per case)

use std::io::{BufRead, Write};
use std::sync::atomic::{AtomicU32, AtomicUsize, Ordering};
use std::sync::{Arc, Condvar, Mutex};

use steel_rc::{verif, BiasedRc, QueueHandle};

const MAX_OBJ: usize = 3;
static DROPS: [AtomicUsize; MAX_OBJ * 64] = [const { AtomicUsize::new(0) }; MAX_OBJ * 64];

const ALIVE: u32 = 0xA11CE;
const DEAD: u32 = 0xDEAD;

/// payload: knows which logical object it is; destruction is counted and poisons the magic
#[derive(Debug)]
struct P {
    obj: usize,
    magic: AtomicU32,
    value: AtomicU32,
}

impl Clone for P {
    fn clone(&self) -> Self {
        // make_mut on a shared value clones the payload into a NEW logical object
        let id = NEXT_OBJ.fetch_add(1, Ordering::SeqCst);
        P { obj: id, magic: AtomicU32::new(ALIVE), value: AtomicU32::new(self.value.load(Ordering::SeqCst)) }
    }
}

impl Drop for P {
    fn drop(&mut self) {
        self.magic.store(DEAD, Ordering::SeqCst);
        DROPS[self.obj].fetch_add(1, Ordering::SeqCst);
    }
}

static NEXT_OBJ: AtomicUsize = AtomicUsize::new(0);

#[derive(Clone, Debug, serde::Deserialize, serde::Serialize, PartialEq)]
enum Op {
    /// clone handle `h` (index into the thread's handle list, modulo its length)
    Clone(u8),
    Drop(u8),
    /// move handle `h` to thread `t`
    Move(u8, u8),
    GetMut(u8),
    MakeMut(u8),
    TryUnwrap(u8),
    StrongCount(u8),
    /// read the payload through handle h
    Read(u8),
    /// QueueHandle::run_explicit_merge() on this thread
    Merge,
}

#[derive(Clone, Debug, serde::Deserialize, serde::Serialize)]
struct Case {
    /// ops per thread; thread 0 creates the objects first
    threads: Vec<Vec<Op>>,
    objects: u8,
    schedule: Vec<u8>,
    /// operations are scheduler-atomic (threads switch only between operations): the handle
    /// model is then exact, so a value that is never destroyed can be told from a legitimate
    /// orphan.  With false (default) every count-word access is a switch point.
    #[serde(default)]
    atomic_ops: bool,
    /// threads that never register a merge queue (plain std::thread users of BiasedRc)
    #[serde(default)]
    unregistered: Vec<bool>,
}

#[derive(Debug, serde::Serialize, Default)]
struct Outcome {
    violations: Vec<String>,
    steps: usize,
    decisions: Vec<u8>,
    /// number of runnable choices at each decision (for exhaustive enumeration)
    widths: Vec<u8>,
    shared_moment: bool,
    slow_ops: usize,
    merges: usize,
    schedules_run: usize,
}

struct Sched {
    m: Mutex<SchedState>,
    cv: Condvar,
}

struct SchedState {
    /// which thread holds the token (usize::MAX = nobody yet)
    current: usize,
    /// threads currently waiting at a yield point or not yet started
    waiting: Vec<bool>,
    finished: Vec<bool>,
    schedule: Vec<u8>,
    pos: usize,
    decisions: Vec<u8>,
    widths: Vec<u8>,
    steps: usize,
}

thread_local! {
    static MY_INDEX: std::cell::Cell<usize> = const { std::cell::Cell::new(usize::MAX) };
    /// set while the thread runs a queue merge: the merge holds a lock of the global queue map,
    /// so yielding inside it could park the lock holder while the scheduled thread blocks on
    /// that lock.  A merge is therefore one scheduler step (stated limit, DESIGN.md C05).
    static IN_MERGE: std::cell::Cell<bool> = const { std::cell::Cell::new(false) };
}

impl Sched {
    fn pick_next(st: &mut SchedState) {
        let runnable: Vec<usize> = (0..st.waiting.len()).filter(|i| st.waiting[*i] && !st.finished[*i]).collect();
        if runnable.is_empty() {
            st.current = usize::MAX;
            return;
        }
        let choice = if runnable.len() == 1 {
            0
        } else {
            let c = st.schedule.get(st.pos).copied().unwrap_or(0) as usize;
            st.pos += 1;
            // monotone map of the schedule byte onto the runnable set
            let idx = (c * runnable.len()) >> 8;
            st.decisions.push(idx as u8);
            st.widths.push(runnable.len() as u8);
            idx
        };
        st.current = runnable[choice];
    }

    /// called by a worker at every yield point (and at start)
    fn yield_now(&self, me: usize) {
        let mut st = self.m.lock().unwrap();
        st.waiting[me] = true;
        st.steps += 1;
        // the very first decision is taken when every thread has arrived
        let all_arrived = (0..st.waiting.len()).all(|i| st.waiting[i] || st.finished[i]);
        if st.current == me || (st.current == usize::MAX && all_arrived) {
            Self::pick_next(&mut st);
            self.cv.notify_all();
        }
        while st.current != me {
            st = self.cv.wait(st).unwrap();
        }
        st.waiting[me] = false;
    }

    fn finish(&self, me: usize) {
        let mut st = self.m.lock().unwrap();
        st.finished[me] = true;
        st.waiting[me] = false;
        if st.current == me {
            Self::pick_next(&mut st);
            self.cv.notify_all();
        }
    }
}

struct World {
    inboxes: Vec<Mutex<Vec<BiasedRc<P>>>>,
    /// threads that started their exit procedure: no handle may be moved to them any more
    exiting: Vec<std::sync::atomic::AtomicBool>,
    /// model of the biased side: (owner thread or usize::MAX, owner-side count) per object.
    /// An object whose owner exits while the owner-side count is positive (its handles migrated
    /// to other threads) can never be merged: it legitimately leaks (`orphaned`).
    biased: Mutex<Vec<(usize, i64)>>,
    /// (shared-side count, queued on the owner's queue)
    shared_model: Mutex<Vec<(i64, bool)>>,
    orphaned: Mutex<Vec<bool>>,
    /// model: number of live handles per logical object
    live: Mutex<Vec<i64>>,
    /// at some point two different threads held handles to one object
    holders: Mutex<Vec<Vec<usize>>>,
    violations: Mutex<Vec<String>>,
    shared_moment: std::sync::atomic::AtomicBool,
    slow_ops: AtomicUsize,
    merges: AtomicUsize,
}

impl World {
    /// Model of the two counters (exact for two-thread histories, where the shared side is
    /// only touched by the single non-owner thread and by the owner's merges).
    fn owner_side(&self, obj: usize, me: usize, delta: i64) {
        let mut b = self.biased.lock().unwrap();
        let mut sh = self.shared_model.lock().unwrap();
        if obj >= b.len() {
            b.resize(obj + 1, (usize::MAX, 0));
        }
        if obj >= sh.len() {
            sh.resize(obj + 1, (0, false));
        }
        if b[obj].0 == me {
            b[obj].1 += delta;
            if b[obj].1 <= 0 {
                b[obj].0 = usize::MAX; // the owner's count reached zero: it disowns the object
            }
        } else {
            // non-owner (or owner-less object): the shared count
            sh[obj].0 += delta;
            if sh[obj].0 < 0 && b[obj].0 != usize::MAX {
                sh[obj].1 = true; // queued on the owner's queue
            }
        }
    }

    /// the owner `me` merges its queue: every queued object it owns is folded and disowned
    fn model_merge(&self, me: usize) {
        let mut b = self.biased.lock().unwrap();
        let mut sh = self.shared_model.lock().unwrap();
        for obj in 0..b.len().min(sh.len()) {
            if b[obj].0 == me && sh[obj].1 {
                sh[obj].0 += b[obj].1;
                sh[obj].1 = false;
                b[obj] = (usize::MAX, 0);
            }
        }
    }

    fn violation(&self, s: String) {
        self.violations.lock().unwrap().push(s);
    }

    /// invariant after every operation (evaluated while holding the token)
    fn check_invariants(&self, what: &str) {
        let live = self.live.lock().unwrap();
        for (obj, n) in live.iter().enumerate() {
            let d = DROPS[obj].load(Ordering::SeqCst);
            if *n > 0 && d > 0 {
                self.violation(format!("payload of object {} destroyed while {} handle(s) are alive (after {})", obj, n, what));
            }
            if d > 1 {
                self.violation(format!("payload of object {} destroyed {} times (after {})", obj, d, what));
            }
        }
        for v in verif::take_violations() {
            self.violation(format!("{} (after {})", v, what));
        }
    }

    fn read(&self, h: &BiasedRc<P>, what: &str) -> usize {
        let m = h.magic.load(Ordering::SeqCst);
        if m != ALIVE {
            self.violation(format!("handle sees a destroyed payload (magic {:x}) in {}", m, what));
        }
        h.obj
    }
}

fn run_thread(me: usize, ops: Vec<Op>, world: Arc<World>, sched: Arc<Sched>, init: Vec<BiasedRc<P>>, atomic_ops: bool, registered: bool) {
    MY_INDEX.with(|c| c.set(me));
    if registered {
        QueueHandle::register_thread();
    }
    let mut handles: Vec<BiasedRc<P>> = init;
    sched.yield_now(me);
    for op in ops {
        // take delivery of handles moved to this thread
        {
            let mut inbox = world.inboxes[me].lock().unwrap();
            handles.append(&mut inbox);
        }
        let pick = |h: u8, n: usize| -> Option<usize> {
            if n == 0 {
                None
            } else {
                Some(h as usize % n)
            }
        };
        let what = format!("thread {} {:?}", me, op);
        if atomic_ops {
            IN_MERGE.with(|c| c.set(true));
        }
        match op {
            Op::Clone(h) => {
                if let Some(i) = pick(h, handles.len()) {
                    let obj = world.read(&handles[i], &what);
                    let c = handles[i].clone();
                    world.live.lock().unwrap()[obj] += 1;
                    world.owner_side(obj, me, 1);
                    handles.push(c);
                }
            }
            Op::Drop(h) => {
                if let Some(i) = pick(h, handles.len()) {
                    let obj = world.read(&handles[i], &what);
                    let x = handles.swap_remove(i);
                    world.live.lock().unwrap()[obj] -= 1;
                    world.owner_side(obj, me, -1);
                    drop(x);
                }
            }
            Op::Move(h, t) => {
                if let Some(i) = pick(h, handles.len()) {
                    let t = t as usize % world.inboxes.len();
                    if t != me && !world.exiting[t].load(Ordering::SeqCst) {
                        let x = handles.swap_remove(i);
                        let obj = x.obj;
                        {
                            let mut holders = world.holders.lock().unwrap();
                            if !holders[obj].contains(&t) {
                                holders[obj].push(t);
                            }
                            if holders[obj].len() >= 2 {
                                world.shared_moment.store(true, Ordering::SeqCst);
                            }
                        }
                        world.inboxes[t].lock().unwrap().push(x);
                    }
                }
            }
            Op::GetMut(h) => {
                if let Some(i) = pick(h, handles.len()) {
                    let obj = world.read(&handles[i], &what);
                    let got = BiasedRc::get_mut(&mut handles[i]).is_some();
                    if got {
                        // judged on the count after the call: another thread may have dropped
                        // its handle while this call was in progress (that makes the grant
                        // legitimate); nobody can have gained one without holding one
                        let n = world.live.lock().unwrap()[obj];
                        if n != 1 {
                            world.violation(format!("get_mut granted exclusive access to object {} while {} handles exist ({})", obj, n, what));
                        }
                        if let Some(p) = BiasedRc::get_mut(&mut handles[i]) {
                            p.value.fetch_add(1, Ordering::SeqCst);
                        }
                    }
                }
            }
            Op::MakeMut(h) => {
                if let Some(i) = pick(h, handles.len()) {
                    let obj = world.read(&handles[i], &what);
                    let before = BiasedRc::as_ptr(&handles[i]) as usize;
                    // make_mut may drop this handle internally (when it clones): account for
                    // that drop *before* it can happen, so that the invariant checks of other
                    // threads never see a handle that is already gone
                    world.live.lock().unwrap()[obj] -= 1;
                    let was_owner = world.biased.lock().unwrap().get(obj).map(|b| b.0 == me).unwrap_or(false);
                    {
                        let p = BiasedRc::make_mut(&mut handles[i]);
                        p.value.fetch_add(1, Ordering::SeqCst);
                    }
                    let after = BiasedRc::as_ptr(&handles[i]) as usize;
                    if before == after {
                        // mutated in place: the handle is still there, and must be the only one
                        let n_after = {
                            let mut live = world.live.lock().unwrap();
                            live[obj] += 1;
                            live[obj]
                        };
                        if n_after != 1 {
                            world.violation(format!("make_mut mutated object {} in place while {} handles exist ({})", obj, n_after, what));
                        }
                    } else {
                        // cloned into a new logical object; the old handle was dropped
                        let newobj = handles[i].obj;
                        let mut live = world.live.lock().unwrap();
                        if newobj >= live.len() {
                            live.resize(newobj + 1, 0);
                        }
                        live[newobj] += 1;
                        drop(live);
                        if was_owner {
                            world.owner_side(obj, me, -1);
                        }
                        {
                            let mut b = world.biased.lock().unwrap();
                            if newobj >= b.len() {
                                b.resize(newobj + 1, (usize::MAX, 0));
                            }
                            b[newobj] = (me, 1);
                            let mut o = world.orphaned.lock().unwrap();
                            if newobj >= o.len() {
                                o.resize(newobj + 1, false);
                            }
                        }
                        let mut live = world.live.lock().unwrap();
                        let _ = &mut live;
                        let mut holders = world.holders.lock().unwrap();
                        if newobj >= holders.len() {
                            holders.resize(newobj + 1, vec![]);
                        }
                        holders[newobj].push(me);
                    }
                }
            }
            Op::TryUnwrap(h) => {
                if let Some(i) = pick(h, handles.len()) {
                    let obj = world.read(&handles[i], &what);
                    let x = handles.swap_remove(i);
                    match BiasedRc::try_unwrap(x) {
                        Ok(p) => {
                            let n = world.live.lock().unwrap()[obj];
                            if n != 1 {
                                world.violation(format!("try_unwrap moved the payload of object {} out while {} handles exist ({})", obj, n, what));
                            }
                            if p.magic.load(Ordering::SeqCst) != ALIVE {
                                world.violation(format!("try_unwrap returned a destroyed payload ({})", what));
                            }
                            world.live.lock().unwrap()[obj] -= 1;
                            world.owner_side(obj, me, -1);
                            drop(p);
                        }
                        Err(x) => handles.push(x),
                    }
                }
            }
            Op::StrongCount(h) => {
                if let Some(i) = pick(h, handles.len()) {
                    world.read(&handles[i], &what);
                    let _ = BiasedRc::strong_count(&handles[i]);
                }
            }
            Op::Read(h) => {
                if let Some(i) = pick(h, handles.len()) {
                    world.read(&handles[i], &what);
                }
            }
            Op::Merge => {
                world.model_merge(me);
                IN_MERGE.with(|c| c.set(true));
                let n = QueueHandle::run_explicit_merge();
                IN_MERGE.with(|c| c.set(false));
                if n > 0 {
                    world.merges.fetch_add(1, Ordering::SeqCst);
                }
            }
        }
        if atomic_ops {
            IN_MERGE.with(|c| c.set(false));
        }
        if std::env::var("SVRC_TRACE").is_ok() {
            let counts: Vec<String> = handles.iter().map(|h| format!("obj{}", h.obj)).collect();
            eprintln!("[t{}] {} -> handles {:?} live {:?} drops {:?}", me, what, counts, world.live.lock().unwrap(), (0..3).map(|i| DROPS[i].load(Ordering::SeqCst)).collect::<Vec<_>>());
        }
        world.check_invariants(&what);
        sched.yield_now(me);
    }
    // thread exit: remaining handles are dropped, then the thread's queue is merged
    world.exiting[me].store(true, Ordering::SeqCst);
    {
        let mut inbox = world.inboxes[me].lock().unwrap();
        handles.append(&mut inbox);
    }
    while let Some(x) = handles.pop() {
        let obj = world.read(&x, "thread exit");
        world.live.lock().unwrap()[obj] -= 1;
        world.owner_side(obj, me, -1);
        if atomic_ops {
            IN_MERGE.with(|c| c.set(true));
        }
        drop(x);
        if atomic_ops {
            IN_MERGE.with(|c| c.set(false));
        }
        world.check_invariants(&format!("thread {} exit drop", me));
        sched.yield_now(me);
    }
    world.model_merge(me);
    {
        // objects still owned by this thread although it holds no handle any more
        let b = world.biased.lock().unwrap();
        let mut o = world.orphaned.lock().unwrap();
        for (obj, (owner, n)) in b.iter().enumerate() {
            if *owner == me && *n > 0 {
                if obj >= o.len() {
                    o.resize(obj + 1, false);
                }
                o[obj] = true;
            }
        }
    }
    if registered {
        IN_MERGE.with(|c| c.set(true));
        QueueHandle::finish_thread_merge();
        IN_MERGE.with(|c| c.set(false));
    }
    world.check_invariants(&format!("thread {} exit merge", me));
    sched.finish(me);
}

fn run_once(case: &Case, schedule: &[u8]) -> Outcome {
    // fresh logical objects for this execution
    for d in DROPS.iter() {
        d.store(0, Ordering::SeqCst);
    }
    NEXT_OBJ.store(0, Ordering::SeqCst);
    verif::reset();
    let nthreads = case.threads.len();
    let nobj = (case.objects as usize).clamp(1, MAX_OBJ);
    let world = Arc::new(World {
        inboxes: (0..nthreads).map(|_| Mutex::new(vec![])).collect(),
        exiting: (0..nthreads).map(|_| std::sync::atomic::AtomicBool::new(false)).collect(),
        biased: Mutex::new(vec![(0, 1); nobj]),
        shared_model: Mutex::new(vec![(0, false); nobj]),
        orphaned: Mutex::new(vec![false; nobj]),
        live: Mutex::new(vec![0; nobj]),
        holders: Mutex::new(vec![vec![]; nobj]),
        violations: Mutex::new(vec![]),
        shared_moment: std::sync::atomic::AtomicBool::new(false),
        slow_ops: AtomicUsize::new(0),
        merges: AtomicUsize::new(0),
    });
    let sched = Arc::new(Sched {
        m: Mutex::new(SchedState {
            current: usize::MAX,
            waiting: vec![false; nthreads],
            finished: vec![false; nthreads],
            schedule: schedule.to_vec(),
            pos: 0,
            decisions: vec![],
            widths: vec![],
            steps: 0,
        }),
        cv: Condvar::new(),
    });
    // The scheduler hook: every access of a count word by a harness thread is a yield point.
    {
        let sched2 = sched.clone();
        let world2 = world.clone();
        verif::set_yield_hook(Some(Box::new(move |_addr, site| {
            let me = MY_INDEX.with(|c| c.get());
            if me != usize::MAX && !IN_MERGE.with(|c| c.get()) {
                if site.starts_with("slow") || site.starts_with("merge") || site.starts_with("enqueue") {
                    world2.slow_ops.fetch_add(1, Ordering::Relaxed);
                }
                sched2.yield_now(me);
            }
        })));
    }
    // Objects are created by thread 0 (inside its thread, so that it is their owner)
    let mut joins = vec![];
    let (tx, rx) = std::sync::mpsc::channel::<()>();
    for t in 0..nthreads {
        let ops = case.threads[t].clone();
        let world = world.clone();
        let sched = sched.clone();
        let tx = tx.clone();
        let atomic = case.atomic_ops;
        let registered = !case.unregistered.get(t).copied().unwrap_or(false);
        joins.push(std::thread::spawn(move || {
            MY_INDEX.with(|c| c.set(usize::MAX)); // not scheduled while creating
            let init: Vec<BiasedRc<P>> = if t == 0 {
                if registered {
                    QueueHandle::register_thread();
                }
                (0..nobj)
                    .map(|_| {
                        let id = NEXT_OBJ.fetch_add(1, Ordering::SeqCst);
                        world.live.lock().unwrap()[id] += 1;
                        world.holders.lock().unwrap()[id].push(0);
                        BiasedRc::new(P { obj: id, magic: AtomicU32::new(ALIVE), value: AtomicU32::new(0) })
                    })
                    .collect()
            } else {
                vec![]
            };
            tx.send(()).unwrap();
            run_thread(t, ops, world, sched, init, atomic, registered);
        }));
    }
    for _ in 0..nthreads {
        rx.recv().unwrap();
    }
    for j in joins {
        let _ = j.join();
    }
    verif::set_yield_hook(None);
    // final accounting: everything was dropped and every thread merged on exit
    {
        let live = world.live.lock().unwrap();
        for (obj, n) in live.iter().enumerate() {
            let d = DROPS[obj].load(Ordering::SeqCst);
            if *n != 0 {
                world.violation(format!("harness error: {} handles of object {} unaccounted", n, obj));
            }
            if d > 1 {
                world.violation(format!("payload of object {} destroyed {} times", obj, d));
            }
            if d == 0 {
                let orphan = world.orphaned.lock().unwrap().get(obj).copied().unwrap_or(false);
                if orphan || !case.atomic_ops {
                    world.violation(format!("leak: payload of object {} never destroyed (its owner thread exited while its handles lived on other threads)", obj));
                } else {
                    world.violation(format!("lost: payload of object {} never destroyed although every handle was dropped, every thread merged, and its owner never exited while owning it", obj));
                }
            }
        }
        for v in verif::take_violations() {
            world.violation(v);
        }
    }
    let st = sched.m.lock().unwrap();
    let mut violations = world.violations.lock().unwrap().clone();
    violations.dedup();
    Outcome {
        violations,
        steps: st.steps,
        decisions: st.decisions.clone(),
        widths: st.widths.clone(),
        shared_moment: world.shared_moment.load(Ordering::SeqCst),
        slow_ops: world.slow_ops.load(Ordering::SeqCst),
        merges: world.merges.load(Ordering::SeqCst),
        schedules_run: 1,
    }
}

/// enumerate every schedule of the case (depth-first over the decision points)
fn run_exhaustive(case: &Case, limit: usize) -> Outcome {
    let mut prefix: Vec<u8> = vec![]; // choice index at each decision
    let mut total = Outcome::default();
    loop {
        // encode choice indices as schedule bytes: idx -> smallest byte mapping to idx needs widths;
        // run once with zeros beyond the prefix to learn the widths
        let probe = run_with_choices(case, &prefix);
        total.schedules_run += 1;
        total.steps += probe.steps;
        total.shared_moment |= probe.shared_moment;
        total.slow_ops += probe.slow_ops;
        total.merges += probe.merges;
        if !probe.violations.is_empty() {
            total.violations = probe.violations;
            total.decisions = probe.decisions;
            total.widths = probe.widths;
            return total;
        }
        if total.schedules_run >= limit {
            total.widths = vec![255]; // marker: not exhaustive
            return total;
        }
        // next prefix in odometer order
        let mut choices = probe.decisions.clone();
        let widths = probe.widths.clone();
        let mut i = choices.len();
        loop {
            if i == 0 {
                return total; // all schedules done
            }
            i -= 1;
            if (choices[i] as usize) + 1 < widths[i] as usize {
                choices[i] += 1;
                choices.truncate(i + 1);
                break;
            }
        }
        prefix = choices;
    }
}

fn run_with_choices(case: &Case, choices: &[u8]) -> Outcome {
    // A choice index c among w runnable threads is encoded by the byte ceil(c*256/w)
    // (the scheduler maps byte b to (b*w)>>8).  Widths are discovered as we go, so the
    // encoding is done inside a schedule hook: we pass indices and a flag.
    let sched: Vec<u8> = choices.to_vec();
    let mut c2 = case.clone();
    c2.schedule = vec![];
    run_once_indexed(&c2, &sched)
}

/// like run_once but the schedule holds choice *indices* (clamped to the width)
fn run_once_indexed(case: &Case, indices: &[u8]) -> Outcome {
    // encode: for every position use byte = 255 if index is large; scheduler maps
    // (b * w) >> 8; to select index i among w we need b in [ceil(256 i / w), ...).
    // Since w is unknown here we run a small fixed-point: first run with zeros to get widths.
    let mut bytes: Vec<u8> = vec![0; indices.len()];
    loop {
        let out = run_once(case, &bytes);
        let mut changed = false;
        for (p, want) in indices.iter().enumerate() {
            if p >= out.widths.len() {
                break;
            }
            let w = out.widths[p] as usize;
            let i = (*want as usize).min(w - 1);
            let b = ((i * 256 + w - 1) / w).min(255) as u8;
            if bytes[p] != b {
                bytes[p] = b;
                changed = true;
                break; // widths after p may change
            }
        }
        if !changed {
            return out;
        }
    }
}

fn main() {
    let mode = std::env::args().nth(1).unwrap_or_else(|| "run".into());
    let limit: usize = std::env::args().nth(2).and_then(|s| s.parse().ok()).unwrap_or(20_000);
    let stdin = std::io::stdin();
    let stdout = std::io::stdout();
    let mut out = stdout.lock();
    for line in stdin.lock().lines() {
        let line = line.unwrap();
        if line.trim().is_empty() {
            continue;
        }
        let case: Case = match serde_json::from_str(&line) {
            Ok(c) => c,
            Err(e) => {
                writeln!(out, "{{\"error\":\"{}\"}}", e).unwrap();
                continue;
            }
        };
        // Every case runs in a forked child: the global queue of steel-rc, thread ids and the
        // quarantine start pristine, and a crash kills only the child.
        let mut fds = [0i32; 2];
        unsafe { libc::pipe(fds.as_mut_ptr()) };
        let pid = unsafe { libc::fork() };
        if pid == 0 {
            unsafe { libc::close(fds[0]) };
            let o = if mode == "exhaustive" { run_exhaustive(&case, limit) } else { run_once(&case, &case.schedule) };
            let text = serde_json::to_string(&o).unwrap();
            let bytes = text.as_bytes();
            let mut off = 0;
            while off < bytes.len() {
                let n = unsafe { libc::write(fds[1], bytes[off..].as_ptr() as *const _, bytes.len() - off) };
                if n <= 0 {
                    break;
                }
                off += n as usize;
            }
            unsafe { libc::_exit(0) };
        }
        unsafe { libc::close(fds[1]) };
        let mut buf = Vec::new();
        let mut chunk = [0u8; 4096];
        loop {
            let n = unsafe { libc::read(fds[0], chunk.as_mut_ptr() as *mut _, chunk.len()) };
            if n <= 0 {
                break;
            }
            buf.extend_from_slice(&chunk[..n as usize]);
        }
        let mut st = 0i32;
        unsafe {
            libc::close(fds[0]);
            libc::waitpid(pid, &mut st, 0);
        }
        if libc::WIFSIGNALED(st) || buf.is_empty() {
            let sig = if libc::WIFSIGNALED(st) { libc::WTERMSIG(st) } else { 0 };
            writeln!(out, "{{\"violations\":[\"the execution crashed (signal {}): memory unsafety\"]}}", sig).unwrap();
        } else {
            out.write_all(&buf).unwrap();
            writeln!(out).unwrap();
        }
        out.flush().unwrap();
    }
}
