fn main(){}
