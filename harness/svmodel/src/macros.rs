//! C13: syntax-rules.  Two generators:
//!  * hygiene scenarios: a macro definition and a use site whose identifiers clash with the
//!    identifiers the template introduces or refers to, together with the alpha-renamed variant in
//!    which nothing clashes (the oracle is differential: both must evaluate to the same values);
//!  * pattern matching: a generated pattern (literals, nested ellipses, dotted tails), inputs made by
//!    instantiating and perturbing it, and a template that reports what every pattern variable was
//!    bound to; the oracle is a small reference matcher.

use crate::gen::Chooser;
use serde::{Deserialize, Serialize};

// ---------------------------------------------------------------------------------------------
// hygiene scenarios

#[derive(Clone, Debug, Serialize, Deserialize)]
pub struct Scenario {
    pub kind: String,
    /// module text (empty = none) evaluated as module "vmac"
    pub module: String,
    /// program with clashing names
    pub clash: String,
    /// the same program with every use-site name made distinct from the macro's names
    pub renamed: String,
}

const TMPS: &[&str] = &["tmp", "t", "x", "result", "loop", "it"];
const FREES: &[&str] = &["list", "cons", "vector", "+", "helper", "if", "let", "car"];

pub fn scenario(c: &mut Chooser, avoid_free_capture: bool) -> Scenario {
    let t = TMPS[c.below(TMPS.len())];
    let fresh = format!("{}_user", t);
    let mut k = c.below(11);
    // KF-C13-use-site-capture: scenario 3 (special forms and `list`) is replaced while the finding is listed
    if avoid_free_capture && k == 3 {
        k = 4 + c.below(7);
    }
    // returns (kind, definitions, use-site as a function of the user-chosen name)
    let mk = |kind: &str, module: &str, defs: String, use_site: &dyn Fn(&str) -> String, clash_name: &str, fresh_name: &str| Scenario {
        kind: kind.to_string(),
        module: module.to_string(),
        clash: format!("{}\n{}", defs, use_site(clash_name)),
        renamed: format!("{}\n{}", defs, use_site(fresh_name)),
    };
    // the form through which a template binds its temporary, and the number of unrelated scopes between the
    // user's binding and the macro use
    let binder = ["let", "let*", "letrec", "let*2"][c.below(4)];
    let bind = |rhs: &str, body: &str| match binder {
        "let*2" => format!("(let* ((q0 {rhs}) ({t} q0)) {body})", rhs = rhs, t = t, body = body),
        b => format!("({b} (({t} {rhs})) {body})", b = b, t = t, rhs = rhs, body = body),
    };
    let layers = c.below(3);
    let wrap = move |x: String| match layers {
        0 => x,
        1 => format!("(let ((zz1 0)) {})", x),
        _ => format!("((lambda (zz2) (let ((zz1 0)) {})) 1)", x),
    };
    let kind_suffix = format!("{}:{}-scopes-between", binder, layers);
    match k {
        0 => mk(
            &format!("template-binder-vs-user-variable:swap:{}", kind_suffix),
            "",
            format!("(define-syntax swap! (syntax-rules () ((_ a b) {})))", bind("a", &format!("(set! a b) (set! b {})", t))),
            &|u| format!("(let (({u} 1) (other 2)) {} (list {u} other))", wrap(format!("(swap! {u} other)", u = u)), u = u),
            t,
            &fresh,
        ),
        1 => mk(
            &format!("template-binder-vs-user-variable:or:{}", kind_suffix),
            "",
            format!("(define-syntax my-or (syntax-rules () ((_ a b) {})))", bind("a", &format!("(if {t} {t} b)", t = t))),
            &|u| format!("(let (({u} 5)) {})", wrap(format!("(list (my-or #f {u}) (my-or 7 {u}))", u = u)), u = u),
            t,
            &fresh,
        ),
        2 => {
            // a binding at the use site must not capture the template's free identifier: a global
            // function of the program or a builtin, referred to directly or inside a form the
            // template hands to another macro; bound at the use site by let, a lambda parameter or
            // an internal define
            let f = ["cons", "vector", "+", "helper", "helper", "helper"][c.below(6)];
            let call = format!("({} a 1)", f);
            let body = match c.below(5) {
                0 => call,
                1 => format!("(when #t {})", call),
                2 => format!("(or #f {})", call),
                3 => format!("(let* ((q a) (r ({} q 1))) r)", f),
                _ => format!("(pass-through {})", call),
            };
            let defs = format!(
                "(define (helper a b) (list 'global-helper a b))\n(define-syntax pass-through (syntax-rules () ((_ body) (begin body))))\n(define-syntax use-free (syntax-rules () ((_ a) {})))",
                body
            );
            let site = c.below(3);
            mk(
                &(if f == "helper" { "use-site-binding-vs-template-program-global".to_string() } else { format!("use-site-binding-vs-template-builtin:{}", f) }),
                "",
                defs,
                &|u| match site {
                    0 => format!("(let (({u} (lambda args 'captured))) (use-free 2))", u = u),
                    1 => format!("((lambda ({u}) (use-free 2)) (lambda args 'captured))", u = u),
                    _ => format!("(define (with-internal)\n  (define {u} (lambda args 'captured))\n  (use-free 2))\n(with-internal)", u = u),
                },
                f,
                &format!("user_{}", if f == "+" { "plus" } else { f }),
            )
        }
        3 => {
            // special forms (and `list`) as free identifiers of the template, shadowed at the use site
            let f = ["if", "let", "begin", "list"][c.below(4)];
            let body = match f {
                "if" => "(if a 'yes 'no)",
                "let" => "(let ((q a)) (cons q q))",
                "list" => "(list a 1)",
                _ => "(begin a 'done)",
            };
            let defs = format!("(define-syntax use-form (syntax-rules () ((_ a) {})))", body);
            mk("use-site-binding-vs-template-special-form", "", defs, &|u| format!("(let (({u} (lambda args 'captured))) (use-form 1))", u = u), f, &format!("{}_user", f))
        }
        4 => mk(
            "macro-using-macro-with-same-spelling",
            "",
            format!(
                "(define-syntax my-or (syntax-rules () ((_ a b) (let (({t} a)) (if {t} {t} b)))))\n(define-syntax outer (syntax-rules () ((_ v) (let (({t} 10)) (list (my-or #f {t}) (my-or v {t}))))))",
                t = t
            ),
            &|u| format!("(let (({u} 3)) (outer {u}))", u = u),
            t,
            &fresh,
        ),
        5 => mk(
            "macro-defining-macro",
            "",
            format!("(define-syntax def-const (syntax-rules () ((_ name val) (define-syntax name (syntax-rules () ((_ extra) (let (({t} val)) (list {t} extra))))))))\n(def-const get-it 41)", t = t),
            &|u| format!("(let (({u} 4)) (list (get-it {u}) {u}))", u = u),
            t,
            &fresh,
        ),
        6 => mk(
            "recursive-macro",
            "",
            format!("(define-syntax my-and (syntax-rules () ((_) #t) ((_ e) e) ((_ e r ...) (let (({t} e)) (if {t} (my-and r ...) #f)))))", t = t),
            &|u| format!("(let (({u} 3)) (list (my-and) (my-and {u}) (my-and 1 {u} 2) (my-and 1 #f {u})))", u = u),
            t,
            &fresh,
        ),
        7 => mk(
            "let-star-style-recursive-binder",
            "",
            "(define-syntax my-let* (syntax-rules () ((_ () body) body) ((_ ((n v) rest ...) body) (let ((n v)) (my-let* (rest ...) body)))))".to_string(),
            &|u| format!("(my-let* (({u} 1) (y (+ {u} 1)) ({u} (* y 10))) (list {u} y))", u = u),
            t,
            &fresh,
        ),
        8 => {
            // a macro imported from a module keeps referring to the module's private helper
            let module = "(provide use-helper make-pair)\n(define (helper x) (list 'module-helper x))\n(define secret 42)\n(define-syntax use-helper (syntax-rules () ((_ a) (helper a))))\n(define-syntax make-pair (syntax-rules () ((_ a) (cons secret a))))";
            let name = ["helper", "secret"][c.below(2)];
            mk(
                "macro-imported-from-module",
                module,
                "(require \"vmac\")".to_string(),
                &|u| format!("(define ({u} . args) 'main-definition)\n(list (use-helper 1) (make-pair 2))", u = u),
                name,
                &format!("{}_user", name),
            )
        }
        9 => mk(
            "binder-inside-lambda-template",
            "",
            format!("(define-syntax make-adder (syntax-rules () ((_ n) (lambda ({t}) (+ {t} n)))))", t = t),
            &|u| format!("(let (({u} 100)) ((make-adder {u}) 1))", u = u),
            t,
            &fresh,
        ),
        _ => mk(
            "named-let-binder-in-template",
            "",
            format!("(define-syntax repeat (syntax-rules () ((_ n e) (let {t} ((i 0) (acc '())) (if (= i n) (reverse acc) ({t} (+ i 1) (cons e acc)))))))", t = t),
            &|u| format!("(let (({u} 7) (i 5)) (repeat 3 (list {u} i)))", u = u),
            t,
            &fresh,
        ),
    }
}

// ---------------------------------------------------------------------------------------------
// pattern matching

#[derive(Clone, Debug, PartialEq, Serialize, Deserialize)]
pub enum Sx {
    Int(i64),
    Sym(String),
    List(Vec<Sx>),
    /// (a b . c)
    Dotted(Vec<Sx>, Box<Sx>),
}

impl Sx {
    pub fn write(&self) -> String {
        match self {
            Sx::Int(i) => i.to_string(),
            Sx::Sym(s) => s.clone(),
            Sx::List(xs) => format!("({})", xs.iter().map(|x| x.write()).collect::<Vec<_>>().join(" ")),
            Sx::Dotted(xs, t) => format!("({} . {})", xs.iter().map(|x| x.write()).collect::<Vec<_>>().join(" "), t.write()),
        }
    }
    pub fn canon(&self) -> String {
        match self {
            Sx::Int(i) => format!("i:{}", i),
            Sx::Sym(s) => format!("y:\"{}\"", s),
            Sx::List(xs) => format!("({})", xs.iter().map(|x| x.canon()).collect::<Vec<_>>().join(" ")),
            Sx::Dotted(xs, t) => format!("({} . {})", xs.iter().map(|x| x.canon()).collect::<Vec<_>>().join(" "), t.canon()),
        }
    }
}

#[derive(Clone, Debug, PartialEq)]
pub enum Pat {
    Var(String),
    Lit(String),
    Datum(i64),
    /// items; index of the item followed by an ellipsis (if any); dotted tail variable (if any)
    List(Vec<Pat>, Option<usize>, Option<String>),
}

#[derive(Clone, Debug, PartialEq)]
pub enum Bind {
    One(Sx),
    Many(Vec<Bind>),
}

impl Pat {
    pub fn write(&self) -> String {
        match self {
            Pat::Var(v) => v.clone(),
            Pat::Lit(l) => l.clone(),
            Pat::Datum(i) => i.to_string(),
            Pat::List(items, ell, tail) => {
                let mut parts = vec![];
                for (i, p) in items.iter().enumerate() {
                    parts.push(p.write());
                    if *ell == Some(i) {
                        parts.push("...".to_string());
                    }
                }
                match tail {
                    Some(t) => format!("({} . {})", parts.join(" "), t),
                    None => format!("({})", parts.join(" ")),
                }
            }
        }
    }

    /// (variable, ellipsis depth) in order of appearance
    pub fn vars(&self, depth: usize, out: &mut Vec<(String, usize)>) {
        match self {
            Pat::Var(v) => out.push((v.clone(), depth)),
            Pat::List(items, ell, tail) => {
                for (i, p) in items.iter().enumerate() {
                    p.vars(if *ell == Some(i) { depth + 1 } else { depth }, out);
                }
                if let Some(t) = tail {
                    out.push((t.clone(), depth));
                }
            }
            _ => {}
        }
    }

    pub fn matches(&self, x: &Sx, env: &mut Vec<(String, Bind)>) -> bool {
        match (self, x) {
            (Pat::Var(v), _) => {
                env.push((v.clone(), Bind::One(x.clone())));
                true
            }
            (Pat::Lit(l), Sx::Sym(s)) => l == s,
            (Pat::Lit(_), _) => false,
            (Pat::Datum(i), Sx::Int(j)) => i == j,
            (Pat::Datum(_), _) => false,
            (Pat::List(items, ell, tail), _) => {
                let (xs, xtail): (Vec<Sx>, Option<Sx>) = match x {
                    Sx::List(xs) => (xs.clone(), None),
                    Sx::Dotted(xs, t) => (xs.clone(), Some((**t).clone())),
                    _ => return false,
                };
                let min = items.len() - if ell.is_some() { 1 } else { 0 };
                if xs.len() < min {
                    return false;
                }
                match (tail, &xtail) {
                    (None, Some(_)) => return false,
                    (None, None) => {
                        if ell.is_none() && xs.len() != items.len() {
                            return false;
                        }
                    }
                    _ => {}
                }
                // without an ellipsis and with a tail variable, surplus elements go to the tail
                let after = match ell {
                    Some(e) => items.len() - e - 1,
                    None => 0,
                };
                let mut xi = 0;
                for (i, p) in items.iter().enumerate() {
                    if *ell == Some(i) {
                        // the ellipsis takes everything but the items after it (and, with a tail
                        // variable, nothing more: the tail variable gets what is left over)
                        let take = if tail.is_some() && xtail.is_none() { xs.len() - xi - after } else { xs.len() - xi - after };
                        let mut reps = vec![];
                        for _ in 0..take {
                            let mut sub = vec![];
                            if !p.matches(&xs[xi], &mut sub) {
                                return false;
                            }
                            reps.push(sub);
                            xi += 1;
                        }
                        let mut names = vec![];
                        p.vars(0, &mut names);
                        for (n, _) in names {
                            let vals: Vec<Bind> = reps.iter().map(|sub| sub.iter().find(|(k, _)| *k == n).unwrap().1.clone()).collect();
                            env.push((n, Bind::Many(vals)));
                        }
                    } else {
                        if xi >= xs.len() || !p.matches(&xs[xi], env) {
                            return false;
                        }
                        xi += 1;
                    }
                }
                match tail {
                    Some(t) => {
                        let rest: Vec<Sx> = xs[xi..].to_vec();
                        let v = match xtail {
                            Some(tt) => {
                                if rest.is_empty() {
                                    tt
                                } else {
                                    Sx::Dotted(rest, Box::new(tt))
                                }
                            }
                            None => Sx::List(rest),
                        };
                        env.push((t.clone(), Bind::One(v)));
                        true
                    }
                    None => xi == xs.len(),
                }
            }
        }
    }
}

fn bind_to_sx(b: &Bind) -> Sx {
    match b {
        Bind::One(x) => x.clone(),
        Bind::Many(v) => Sx::List(v.iter().map(bind_to_sx).collect()),
    }
}

fn template_for(v: &str, depth: usize) -> String {
    let mut s = v.to_string();
    for _ in 0..depth {
        s = format!("({} ...)", s);
    }
    s
}

fn gen_pat(c: &mut Chooser, depth: usize, next: &mut usize, top: bool) -> Pat {
    if !top && (depth == 0 || c.chance(1, 3)) {
        return match c.below(6) {
            0 => Pat::Lit(["=>", "else", "in"][c.below(3)].to_string()),
            1 => Pat::Datum(c.range(0, 2)),
            _ => {
                *next += 1;
                Pat::Var(format!("p{}", next))
            }
        };
    }
    let n = if top { 1 + c.below(3) } else { c.below(4) };
    let mut items: Vec<Pat> = (0..n).map(|_| gen_pat(c, depth.saturating_sub(1), next, false)).collect();
    let ell = if !items.is_empty() && c.chance(1, 2) {
        let i = c.below(items.len());
        // an ellipsis after a literal or datum is legal but dull: make it a variable or a list
        if matches!(items[i], Pat::Lit(_) | Pat::Datum(_)) {
            *next += 1;
            items[i] = Pat::Var(format!("p{}", next));
        }
        Some(i)
    } else {
        None
    };
    let tail = if ell.is_none() && (top || !items.is_empty()) && c.chance(1, 5) {
        *next += 1;
        Some(format!("p{}", next))
    } else {
        None
    };
    Pat::List(items, ell, tail)
}

fn atom(c: &mut Chooser) -> Sx {
    match c.below(5) {
        0 => Sx::Sym(["a", "b", "else", "=>", "in", "zed"][c.below(6)].to_string()),
        1 => Sx::List((0..c.below(3)).map(|_| Sx::Int(c.range(0, 9))).collect()),
        _ => Sx::Int(c.range(0, 9)),
    }
}

/// an input that matches the pattern
fn instantiate(p: &Pat, c: &mut Chooser) -> Sx {
    match p {
        Pat::Var(_) => atom(c),
        Pat::Lit(l) => Sx::Sym(l.clone()),
        Pat::Datum(i) => Sx::Int(*i),
        Pat::List(items, ell, tail) => {
            let mut xs = vec![];
            for (i, q) in items.iter().enumerate() {
                if *ell == Some(i) {
                    for _ in 0..c.below(4) {
                        xs.push(instantiate(q, c));
                    }
                } else {
                    xs.push(instantiate(q, c));
                }
            }
            match tail {
                Some(_) => match c.below(3) {
                    0 => Sx::List(xs),
                    1 => {
                        xs.push(Sx::Int(8));
                        xs.push(Sx::Int(9));
                        Sx::List(xs)
                    }
                    _ => {
                        if xs.is_empty() {
                            Sx::Int(7)
                        } else {
                            Sx::Dotted(xs, Box::new(Sx::Int(7)))
                        }
                    }
                },
                None => Sx::List(xs),
            }
        }
    }
}

fn perturb(x: &Sx, c: &mut Chooser) -> Sx {
    match x {
        Sx::List(xs) if !xs.is_empty() => {
            let mut ys = xs.clone();
            let i = c.below(ys.len());
            match c.below(4) {
                0 => {
                    ys.remove(i);
                }
                1 => ys.insert(i, Sx::Sym("extra".into())),
                2 => ys[i] = perturb(&xs[i], c),
                _ => ys[i] = Sx::Sym("else".into()),
            }
            Sx::List(ys)
        }
        Sx::Int(i) => Sx::Int(i + 1),
        Sx::Sym(_) => Sx::Sym("other".into()),
        other => other.clone(),
    }
}

#[derive(Clone, Debug, Serialize, Deserialize)]
pub struct MatchCase {
    /// the define-syntax form
    pub definition: String,
    /// (use expression, expected canonical value or None = "no clause matches": an error)
    pub uses: Vec<(String, Option<String>)>,
    pub features: Vec<String>,
}

/// (plain variable, depth-1 ellipsis variable) of a clause, for the combined sub-template
/// `((plain each) ...)`
fn combined(vars: &[(String, usize)]) -> Option<(String, String)> {
    let s = vars.iter().find(|(_, d)| *d == 0)?;
    let e = vars.iter().find(|(_, d)| *d == 1)?;
    Some((s.0.clone(), e.0.clone()))
}

fn gen_macro(c: &mut Chooser, name: &str, features: &mut Vec<String>) -> (String, Vec<Pat>) {
    let nclauses = 1 + c.below(3);
    let mut clauses: Vec<Pat> = vec![];
    // variable names restart at p1 for every macro: two macros of one case share spellings
    let mut next = 0usize;
    for _ in 0..nclauses {
        let p = gen_pat(c, 3, &mut next, true);
        clauses.push(p);
    }
    let mut def = format!("(define-syntax {} (syntax-rules (=> else in)", name);
    for (ci, p) in clauses.iter().enumerate() {
        let Pat::List(items, ell, tail) = p else { unreachable!() };
        // the macro keyword position
        let mut parts = vec!["_".to_string()];
        for (i, q) in items.iter().enumerate() {
            parts.push(q.write());
            if *ell == Some(i) {
                parts.push("...".to_string());
            }
        }
        let pat_text = match tail {
            Some(t) => format!("({} . {})", parts.join(" "), t),
            None => format!("({})", parts.join(" ")),
        };
        let mut vars = vec![];
        p.vars(0, &mut vars);
        let mut tpl: Vec<String> = vars.iter().map(|(v, d)| template_for(v, *d)).collect();
        if let Some((s, e)) = combined(&vars) {
            // a plain variable used inside the sub-template of an ellipsis variable
            tpl.push(format!("(({} {}) ...)", s, e));
            features.push("plain-variable-inside-ellipsis-template".to_string());
        }
        def.push_str(&format!("\n  ({} (quote (clause{} {})))", pat_text, ci, tpl.join(" ")));
        if ell.is_some() {
            features.push("ellipsis".to_string());
        }
        if vars.iter().any(|(_, d)| *d >= 2) {
            features.push("nested-ellipsis".to_string());
        }
        if tail.is_some() {
            features.push("dotted-tail".to_string());
        }
        if let Some(e) = ell {
            if e + 1 < items.len() {
                features.push("items-after-ellipsis".to_string());
            }
        }
        if p.write().contains("else") || p.write().contains("=>") || p.write().contains(" in") {
            features.push("literal".to_string());
        }
    }
    def.push_str("))");
    (def, clauses)
}

fn gen_uses(c: &mut Chooser, name: &str, clauses: &[Pat], features: &mut Vec<String>, uses: &mut Vec<(String, Option<String>)>) {
    for _ in 0..(2 + c.below(3)) {
        let ci = c.below(clauses.len());
        let mut input = instantiate(&clauses[ci], c);
        if c.chance(1, 3) {
            input = perturb(&input, c);
        }
        // a dotted macro use is not an expression every reader accepts: keep proper uses only
        let Sx::List(xs) = &input else { continue };
        let text = format!("({}{})", name, xs.iter().map(|x| format!(" {}", x.write())).collect::<String>());
        let mut expected = None;
        for (k, p) in clauses.iter().enumerate() {
            let mut env = vec![];
            if p.matches(&input, &mut env) {
                let mut vars = vec![];
                p.vars(0, &mut vars);
                let mut out = vec![Sx::Sym(format!("clause{}", k))];
                for (v, _) in &vars {
                    let b = env.iter().find(|(n, _)| n == v).map(|(_, b)| b.clone()).unwrap();
                    out.push(bind_to_sx(&b));
                }
                if let Some((sv, ev)) = combined(&vars) {
                    let sb = bind_to_sx(&env.iter().find(|(n, _)| *n == sv).unwrap().1);
                    let eb = env.iter().find(|(n, _)| *n == ev).unwrap().1.clone();
                    let items = match eb {
                        Bind::Many(v) => v,
                        one => vec![one],
                    };
                    out.push(Sx::List(items.iter().map(|b| Sx::List(vec![sb.clone(), bind_to_sx(b)])).collect()));
                }
                expected = Some(Sx::List(out).canon());
                break;
            }
        }
        if expected.is_none() {
            features.push("no-clause-matches".to_string());
        }
        uses.push((text, expected));
    }
}

pub fn match_case(c: &mut Chooser) -> MatchCase {
    let mut features = vec![];
    let (def1, clauses1) = gen_macro(c, "m", &mut features);
    // a second macro whose pattern variables are spelled like the first one's, in other roles
    let (def2, clauses2) = gen_macro(c, "m2", &mut features);
    let mut uses = vec![];
    gen_uses(c, "m", &clauses1, &mut features, &mut uses);
    gen_uses(c, "m2", &clauses2, &mut features, &mut uses);
    gen_uses(c, "m", &clauses1, &mut features, &mut uses);
    features.sort();
    features.dedup();
    MatchCase { definition: format!("{}\n{}", def1, def2), uses, features }
}
