//! Values of the reference interpreter, their canonical rendering (same format as
//! `steel::verif::canon`), the display/write printer model and structural equality.

use crate::ast::{Datum, LambdaDef};
use crate::num::{self, Num};
use num_bigint::BigInt;
use num_rational::BigRational;
use std::cell::RefCell;
use std::collections::BTreeMap;
use std::rc::Rc;

pub type Loc<'a> = Rc<RefCell<Option<Val<'a>>>>;

pub struct Frame<'a> {
    pub vars: RefCell<Vec<(&'a str, Loc<'a>)>>,
    pub globals: Option<Rc<BTreeMap<String, Loc<'a>>>>,
    pub parent: Option<Env<'a>>,
}
pub type Env<'a> = Rc<Frame<'a>>;

pub struct Closure<'a> {
    pub def: &'a LambdaDef,
    pub env: Env<'a>,
}

/// the procedure a named `let` binds its name to
pub struct NamedLoop<'a> {
    pub binds: &'a [(String, crate::ast::Expr)],
    pub body: &'a crate::ast::Body,
    pub env: Env<'a>,
}

#[derive(Clone)]
pub enum Val<'a> {
    Num(Num),
    Bool(bool),
    Char(char),
    Str(Rc<str>),
    Sym(Rc<str>),
    Nil,
    Pair(Rc<(Val<'a>, Val<'a>)>),
    MVec(Rc<RefCell<Vec<Val<'a>>>>),
    IVec(Rc<Vec<Val<'a>>>),
    Hash(Rc<BTreeMap<String, (Val<'a>, Val<'a>)>>),
    Box(Rc<RefCell<Val<'a>>>),
    Closure(Rc<Closure<'a>>),
    CaseClosure(Rc<Vec<Closure<'a>>>),
    NamedLoop(Rc<NamedLoop<'a>>),
    Prim(&'static str),
    Cont(crate::interp::Kont<'a>),
    Void,
    ErrObj(Rc<str>),
}

impl<'a> Val<'a> {
    pub fn int(i: i64) -> Val<'a> {
        Val::Num(num::int(i))
    }
    pub fn sym(s: &str) -> Val<'a> {
        Val::Sym(Rc::from(s))
    }
    pub fn str(s: &str) -> Val<'a> {
        Val::Str(Rc::from(s))
    }
    pub fn truthy(&self) -> bool {
        !matches!(self, Val::Bool(false))
    }
    pub fn cons(a: Val<'a>, b: Val<'a>) -> Val<'a> {
        Val::Pair(Rc::new((a, b)))
    }
    pub fn list(items: Vec<Val<'a>>) -> Val<'a> {
        Val::list_with_tail(items, Val::Nil)
    }
    pub fn list_with_tail(items: Vec<Val<'a>>, tail: Val<'a>) -> Val<'a> {
        let mut acc = tail;
        for v in items.into_iter().rev() {
            acc = Val::cons(v, acc);
        }
        acc
    }
    /// proper list -> vector of elements
    pub fn list_to_vec(&self) -> Option<Vec<Val<'a>>> {
        let mut out = vec![];
        let mut cur = self.clone();
        loop {
            match cur {
                Val::Nil => return Some(out),
                Val::Pair(p) => {
                    out.push(p.0.clone());
                    cur = p.1.clone();
                }
                _ => return None,
            }
        }
    }
    pub fn is_procedure(&self) -> bool {
        matches!(self, Val::Closure(_) | Val::CaseClosure(_) | Val::NamedLoop(_) | Val::Prim(_) | Val::Cont(_))
    }
    pub fn from_datum(d: &Datum) -> Val<'a> {
        match d {
            Datum::Int(i) => Val::int(*i),
            Datum::Big(s) => Val::Num(num::big(s.parse::<BigInt>().unwrap())),
            Datum::Rat(n, d) => Val::Num(Num::Ex(BigRational::new(n.parse().unwrap(), d.parse().unwrap()))),
            Datum::Flo(b) => Val::Num(Num::Fl(f64::from_bits(*b))),
            Datum::Bool(b) => Val::Bool(*b),
            Datum::Char(c) => Val::Char(*c),
            Datum::Str(s) => Val::str(s),
            Datum::Sym(s) => Val::sym(s),
            Datum::List(v) => Val::list(v.iter().map(Val::from_datum).collect()),
            Datum::Dotted(v, t) => Val::list_with_tail(v.iter().map(Val::from_datum).collect(), Val::from_datum(t)),
            Datum::Vector(v) => Val::IVec(Rc::new(v.iter().map(Val::from_datum).collect())),
        }
    }
}

fn esc(s: &str, out: &mut String) {
    out.push('"');
    for c in s.chars() {
        match c {
            '"' => out.push_str("\\\""),
            '\\' => out.push_str("\\\\"),
            c if (c as u32) < 0x20 || c as u32 == 0x7f => out.push_str(&format!("\\x{:x};", c as u32)),
            c => out.push(c),
        }
    }
    out.push('"');
}

/// canonical rendering; identical in format to steel::verif::canon
pub fn canon(v: &Val) -> String {
    let mut s = String::new();
    canon_into(v, 0, &mut s);
    s
}

fn canon_into(v: &Val, depth: usize, out: &mut String) {
    if depth > 400 {
        out.push_str("#<deep>");
        return;
    }
    match v {
        Val::Num(n) => out.push_str(&num::canon(n)),
        Val::Bool(true) => out.push_str("#t"),
        Val::Bool(false) => out.push_str("#f"),
        Val::Char(c) => out.push_str(&format!("c:{:x}", *c as u32)),
        Val::Str(s) => {
            out.push_str("s:");
            esc(s, out)
        }
        Val::Sym(s) => {
            out.push_str("y:");
            esc(s, out)
        }
        Val::Nil => out.push_str("()"),
        Val::Pair(_) => {
            out.push('(');
            let mut cur = v.clone();
            let mut first = true;
            loop {
                match cur {
                    Val::Pair(p) => {
                        if !first {
                            out.push(' ');
                        }
                        first = false;
                        canon_into(&p.0, depth + 1, out);
                        cur = p.1.clone();
                    }
                    Val::Nil => break,
                    other => {
                        out.push_str(" . ");
                        canon_into(&other, depth + 1, out);
                        break;
                    }
                }
            }
            out.push(')');
        }
        Val::MVec(m) => {
            out.push_str("#m(");
            for (i, x) in m.borrow().iter().enumerate() {
                if i > 0 {
                    out.push(' ');
                }
                canon_into(x, depth + 1, out);
            }
            out.push(')');
        }
        Val::IVec(m) => {
            out.push_str("#(");
            for (i, x) in m.iter().enumerate() {
                if i > 0 {
                    out.push(' ');
                }
                canon_into(x, depth + 1, out);
            }
            out.push(')');
        }
        Val::Hash(h) => {
            let mut items: Vec<(String, String)> = h
                .values()
                .map(|(k, v)| {
                    let mut ks = String::new();
                    canon_into(k, depth + 1, &mut ks);
                    let mut vs = String::new();
                    canon_into(v, depth + 1, &mut vs);
                    (ks, vs)
                })
                .collect();
            items.sort();
            out.push_str("#h{");
            for (i, (k, v)) in items.iter().enumerate() {
                if i > 0 {
                    out.push(' ');
                }
                out.push_str(k);
                out.push_str("=>");
                out.push_str(v);
            }
            out.push('}');
        }
        Val::Box(b) => {
            out.push_str("#b(");
            canon_into(&b.borrow(), depth + 1, out);
            out.push(')');
        }
        Val::Closure(_) | Val::CaseClosure(_) | Val::NamedLoop(_) => out.push_str("#<closure>"),
        Val::Prim(_) => out.push_str("#<function>"),
        Val::Cont(_) => out.push_str("#<continuation>"),
        Val::Void => out.push_str("#void"),
        Val::ErrObj(_) => out.push_str("#<custom>"),
    }
}

pub fn num_to_string(n: &Num) -> String {
    match n {
        Num::Ex(r) => {
            if r.is_integer() {
                r.numer().to_string()
            } else {
                format!("{}/{}", r.numer(), r.denom())
            }
        }
        Num::Fl(f) => crate::ast::render_float(*f),
    }
}

/// Model of Steel's `display` (write = false) and `write` (write = true) for the value kinds
/// generated programs print.  Returns None for kinds whose printed form is not modelled
/// (closures, hash maps, boxes...): generators never print those.
pub fn print(v: &Val, write: bool) -> Option<String> {
    let mut s = String::new();
    if print_into(v, write, &mut s, 0) {
        Some(s)
    } else {
        None
    }
}

fn print_into(v: &Val, write: bool, out: &mut String, depth: usize) -> bool {
    if depth > 60 {
        return false;
    }
    match v {
        Val::Num(n) => out.push_str(&num_to_string(n)),
        Val::Bool(true) => out.push_str("#true"),
        Val::Bool(false) => out.push_str("#false"),
        Val::Char(c) => {
            if write {
                out.push_str(&crate::ast::render_char(*c))
            } else {
                out.push(*c)
            }
        }
        Val::Str(s) => {
            if write {
                out.push('"');
                for c in s.chars() {
                    match c {
                        '"' => out.push_str("\\\""),
                        '\\' => out.push_str("\\\\"),
                        c => out.push(c),
                    }
                }
                out.push('"');
            } else {
                out.push_str(s)
            }
        }
        Val::Sym(s) => out.push_str(s),
        Val::Nil => out.push_str("()"),
        Val::Pair(_) => {
            // proper lists and display of improper lists: (a b . c)
            let mut cur = v.clone();
            out.push('(');
            let mut first = true;
            loop {
                match cur {
                    Val::Pair(p) => {
                        if !first {
                            out.push(' ');
                        }
                        first = false;
                        if !print_into(&p.0, write, out, depth + 1) {
                            return false;
                        }
                        cur = p.1.clone();
                    }
                    Val::Nil => break,
                    other => {
                        if write {
                            return false; // `write` nests improper tails: not modelled
                        }
                        out.push_str(" . ");
                        if !print_into(&other, write, out, depth + 1) {
                            return false;
                        }
                        break;
                    }
                }
            }
            out.push(')');
        }
        Val::MVec(m) => {
            out.push_str("#(");
            for (i, x) in m.borrow().iter().enumerate() {
                if i > 0 {
                    out.push(' ');
                }
                if !print_into(x, write, out, depth + 1) {
                    return false;
                }
            }
            out.push(')');
        }
        Val::IVec(m) => {
            out.push_str("#(");
            for (i, x) in m.iter().enumerate() {
                if i > 0 {
                    out.push(' ');
                }
                if !print_into(x, write, out, depth + 1) {
                    return false;
                }
            }
            out.push(')');
        }
        Val::Void => out.push_str("#<void>"),
        _ => return false,
    }
    true
}

/// structural equality (`equal?`) as documented/observed for Steel (see DESIGN.md C11)
pub fn equal<'a>(a: &Val<'a>, b: &Val<'a>) -> bool {
    match (a, b) {
        (Val::Num(x), Val::Num(y)) => match (x, y) {
            (Num::Ex(p), Num::Ex(q)) => p == q,
            (Num::Fl(p), Num::Fl(q)) => p == q,
            _ => false,
        },
        (Val::Bool(x), Val::Bool(y)) => x == y,
        (Val::Char(x), Val::Char(y)) => x == y,
        (Val::Str(x), Val::Str(y)) => x == y,
        (Val::Sym(x), Val::Sym(y)) => x == y,
        (Val::Nil, Val::Nil) => true,
        (Val::Void, Val::Void) => true,
        (Val::Pair(x), Val::Pair(y)) => {
            // iterative along the spine
            let mut p = x.clone();
            let mut q = y.clone();
            loop {
                if !equal(&p.0, &q.0) {
                    return false;
                }
                match (&p.1, &q.1) {
                    (Val::Pair(pn), Val::Pair(qn)) => {
                        let (pn, qn) = (pn.clone(), qn.clone());
                        p = pn;
                        q = qn;
                    }
                    (a, b) => return equal(a, b),
                }
            }
        }
        (Val::MVec(_) | Val::IVec(_), Val::MVec(_) | Val::IVec(_)) => {
            let xs: Vec<Val> = match a {
                Val::MVec(m) => m.borrow().clone(),
                Val::IVec(m) => (**m).clone(),
                _ => unreachable!(),
            };
            let ys: Vec<Val> = match b {
                Val::MVec(m) => m.borrow().clone(),
                Val::IVec(m) => (**m).clone(),
                _ => unreachable!(),
            };
            xs.len() == ys.len() && xs.iter().zip(ys.iter()).all(|(p, q)| equal(p, q))
        }
        (Val::Hash(x), Val::Hash(y)) => {
            x.len() == y.len() && x.iter().all(|(k, (_, v))| y.get(k).map(|(_, w)| equal(v, w)).unwrap_or(false))
        }
        (Val::Box(x), Val::Box(y)) => Rc::ptr_eq(x, y) || equal(&x.borrow(), &y.borrow()),
        (Val::Closure(x), Val::Closure(y)) => Rc::ptr_eq(x, y),
        (Val::Prim(x), Val::Prim(y)) => x == y,
        _ => false,
    }
}
