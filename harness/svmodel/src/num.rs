//! Reference numeric tower: exact rationals of any magnitude + IEEE doubles.
//! Written from R7RS section 6.2 and the statement of property C10; shares no code with Steel.

use num_bigint::{BigInt, BigUint, Sign};
use num_integer::Integer;
use num_rational::BigRational;
use num_traits::{One, Signed, ToPrimitive, Zero};
use serde::{Deserialize, Serialize};

#[derive(Clone, Debug)]
pub enum Num {
    Ex(BigRational),
    Fl(f64),
}

impl PartialEq for Num {
    fn eq(&self, o: &Num) -> bool {
        match (self, o) {
            (Num::Ex(a), Num::Ex(b)) => a == b,
            (Num::Fl(a), Num::Fl(b)) => a.to_bits() == b.to_bits() || (a.is_nan() && b.is_nan()),
            _ => false,
        }
    }
}

/// Serializable operand description (what the generator produces).
#[derive(Clone, Debug, Serialize, Deserialize, PartialEq)]
pub enum Operand {
    /// exact integer, decimal text
    Int(String),
    /// exact rational n/d (not necessarily reduced in the text; d > 0)
    Rat(String, String),
    /// double, by bit pattern
    Flo(u64),
}

impl Operand {
    pub fn int(i: i128) -> Operand {
        Operand::Int(i.to_string())
    }
    pub fn to_num(&self) -> Num {
        match self {
            Operand::Int(s) => Num::Ex(BigRational::from_integer(s.parse::<BigInt>().unwrap())),
            Operand::Rat(n, d) => Num::Ex(BigRational::new(n.parse().unwrap(), d.parse().unwrap())),
            Operand::Flo(b) => Num::Fl(f64::from_bits(*b)),
        }
    }
    /// Scheme source text that evaluates to exactly this operand.
    pub fn literal(&self) -> String {
        match self {
            Operand::Int(s) => s.clone(),
            Operand::Rat(n, d) => format!("{}/{}", n, d),
            Operand::Flo(b) => float_literal(f64::from_bits(*b)),
        }
    }
    pub fn is_exact(&self) -> bool {
        !matches!(self, Operand::Flo(_))
    }
}

/// Source text for a double.  `-0.0` is written as an expression because the literal is a
/// separate (reader) concern, see C12.
pub fn float_literal(f: f64) -> String {
    if f.is_nan() {
        "+nan.0".into()
    } else if f == f64::INFINITY {
        "+inf.0".into()
    } else if f == f64::NEG_INFINITY {
        "-inf.0".into()
    } else if f == 0.0 && f.is_sign_negative() {
        "(- 0.0)".into()
    } else {
        let s = format!("{:?}", f);
        s
    }
}

pub fn int(i: i64) -> Num {
    Num::Ex(BigRational::from_integer(BigInt::from(i)))
}

pub fn big(b: BigInt) -> Num {
    Num::Ex(BigRational::from_integer(b))
}

/// Correctly rounded (nearest, ties to even) conversion of n/d to f64.
pub fn ratio_to_f64(r: &BigRational) -> f64 {
    let n = r.numer();
    let d = r.denom();
    if n.is_zero() {
        return 0.0;
    }
    let neg = n.is_negative();
    let nu: BigUint = n.magnitude().clone();
    let du: BigUint = d.magnitude().clone();
    // choose k so that q = floor(nu * 2^k / du) has at least 66 bits
    let nb = nu.bits() as i64;
    let db = du.bits() as i64;
    let k: i64 = 67 - (nb - db);
    let (q, rem) = if k >= 0 {
        (&nu << (k as usize)).div_rem(&du)
    } else {
        nu.div_rem(&(&du << ((-k) as usize)))
    };
    let mut q = q;
    if !rem.is_zero() {
        q |= BigUint::one(); // sticky: round to odd
    }
    // q.to_f64 is correctly rounded (num-bigint keeps a sticky bit); then scale by 2^-k.
    // To avoid double rounding we do the final rounding ourselves on 64 significant bits.
    let qbits = q.bits() as i64;
    let extra = qbits - 64;
    let (m, sticky) = if extra > 0 {
        let low_mask = (BigUint::one() << (extra as usize)) - BigUint::one();
        let low = &q & &low_mask;
        ((&q >> (extra as usize)).to_u64().unwrap(), !low.is_zero())
    } else {
        (q.to_u64().unwrap() << ((-extra) as u32), false)
    };
    // value = (m + sticky_fraction) * 2^(extra - k), m has exactly 64 bits (top bit set)
    let e2 = extra - k; // exponent of the lowest bit of m
    let v = round_u64_scaled(m, sticky, e2);
    if neg {
        -v
    } else {
        v
    }
}

/// Round m * 2^e2 (m has its top bit set, `sticky` = non-zero bits below) to the nearest double.
fn round_u64_scaled(m: u64, sticky: bool, e2: i64) -> f64 {
    debug_assert!(m >> 63 == 1);
    // unbiased exponent of the value's leading bit
    let lead = e2 + 63;
    if lead > 1023 {
        return f64::INFINITY;
    }
    // number of mantissa bits available: 53 for normals, fewer for subnormals
    let keep: i64 = if lead >= -1022 { 53 } else { 53 - (-1022 - lead) };
    if keep <= 0 {
        // below half of the smallest subnormal, or exactly at the boundary
        if keep == 0 {
            // value in [2^-1075, 2^-1074): rounds to min subnormal unless exactly 2^-1075
            let exactly_half = m == (1u64 << 63) && !sticky;
            return if exactly_half { 0.0 } else { f64::from_bits(1) };
        }
        return 0.0;
    }
    let drop = 64 - keep; // bits to drop from m (>= 11)
    let kept = m >> drop;
    let rem = m & ((1u64 << drop) - 1);
    let half = 1u64 << (drop - 1);
    let mut kept = kept;
    if rem > half || (rem == half && (sticky || kept & 1 == 1)) {
        kept += 1;
    }
    // value = kept * 2^(e2 + drop)
    let exp = e2 + drop;
    // kept < 2^54; multiply exactly by power of two in steps
    let mut v = kept as f64;
    let mut e = exp;
    while e > 0 {
        let s = e.min(1000);
        v *= 2f64.powi(s as i32);
        e -= s;
    }
    while e < 0 {
        let s = (-e).min(1000);
        v *= 2f64.powi(-(s as i32));
        e += s;
    }
    v
}

/// Exact value of a finite double.
pub fn f64_to_ratio(f: f64) -> Option<BigRational> {
    BigRational::from_float(f)
}

/// The conversions of an exact number to a double that the check accepts: the correctly
/// rounded one, and numerator/denominator converted separately then divided.
pub fn to_f64_candidates(r: &BigRational) -> Vec<f64> {
    let mut v = vec![ratio_to_f64(r)];
    if !r.is_integer() {
        let n = ratio_to_f64(&BigRational::from_integer(r.numer().clone()));
        let d = ratio_to_f64(&BigRational::from_integer(r.denom().clone()));
        let alt = n / d;
        if !v.iter().any(|x| x.to_bits() == alt.to_bits()) {
            v.push(alt);
        }
    }
    v
}

/// canonical rendering, same format as steel::verif::canon for numbers
pub fn canon(n: &Num) -> String {
    match n {
        Num::Fl(f) => {
            if f.is_nan() {
                "f:nan".into()
            } else {
                format!("f:{:?}", f)
            }
        }
        Num::Ex(r) => {
            if r.is_integer() {
                let i = r.numer();
                if i.to_i64().is_some() {
                    format!("i:{}", i)
                } else {
                    format!("B:{}", i)
                }
            } else if r.numer().to_i32().is_some() && r.denom().to_i32().is_some() {
                format!("r:{}/{}", r.numer(), r.denom())
            } else {
                format!("R:{}/{}", r.numer(), r.denom())
            }
        }
    }
}

/// What the model expects of one evaluation.
#[derive(Clone, Debug, PartialEq)]
pub enum Expect {
    /// any of these canonical strings
    Any(Vec<String>),
    Err,
    /// the standard leaves it open: error or one of these
    ErrOrAny(Vec<String>),
}

impl Expect {
    pub fn one(s: String) -> Expect {
        Expect::Any(vec![s])
    }
    pub fn nums(v: &[Num]) -> Expect {
        let mut out: Vec<String> = vec![];
        for n in v {
            let c = canon(n);
            if !out.contains(&c) {
                out.push(c);
            }
        }
        Expect::Any(out)
    }
    pub fn bool(b: bool) -> Expect {
        Expect::one(if b { "#t".into() } else { "#f".into() })
    }
}

#[derive(Clone, Copy, Debug, PartialEq, Eq, Serialize, Deserialize, Hash, PartialOrd, Ord)]
pub enum Op {
    Add,
    Sub,
    Mul,
    Div,
    Quotient,
    Remainder,
    Modulo,
    NumEq,
    Lt,
    Gt,
    Le,
    Ge,
    Abs,
    Gcd,
    Lcm,
    Expt,
    ExactIntegerSqrt,
    NumberToString,
    StringToNumberRoundTrip,
    Min,
    Max,
    Floor,
    Ceiling,
    Truncate,
    Round,
    ExactToInexact,
    Numerator,
    Denominator,
    Square,
}

impl Op {
    pub fn name(self) -> &'static str {
        match self {
            Op::Add => "+",
            Op::Sub => "-",
            Op::Mul => "*",
            Op::Div => "/",
            Op::Quotient => "quotient",
            Op::Remainder => "remainder",
            Op::Modulo => "modulo",
            Op::NumEq => "=",
            Op::Lt => "<",
            Op::Gt => ">",
            Op::Le => "<=",
            Op::Ge => ">=",
            Op::Abs => "abs",
            Op::Gcd => "gcd",
            Op::Lcm => "lcm",
            Op::Expt => "expt",
            Op::ExactIntegerSqrt => "exact-integer-sqrt",
            Op::NumberToString => "number->string",
            Op::StringToNumberRoundTrip => "string->number",
            Op::Min => "min",
            Op::Max => "max",
            Op::Floor => "floor",
            Op::Ceiling => "ceiling",
            Op::Truncate => "truncate",
            Op::Round => "round",
            Op::ExactToInexact => "exact->inexact",
            Op::Numerator => "numerator",
            Op::Denominator => "denominator",
            Op::Square => "square",
        }
    }
    pub fn is_comparison(self) -> bool {
        matches!(self, Op::NumEq | Op::Lt | Op::Gt | Op::Le | Op::Ge)
    }
}

fn cap(mut v: Vec<Num>) -> Vec<Num> {
    let mut out: Vec<Num> = vec![];
    for n in v.drain(..) {
        if !out.contains(&n) {
            out.push(n);
        }
        if out.len() >= 24 {
            break;
        }
    }
    out
}

/// binary arithmetic with contagion; returns the set of acceptable results, or None = error
fn arith2(op: Op, a: &Num, b: &Num) -> Option<Vec<Num>> {
    match (a, b) {
        (Num::Ex(x), Num::Ex(y)) => {
            let r = match op {
                Op::Add => x + y,
                Op::Sub => x - y,
                Op::Mul => x * y,
                Op::Div => {
                    if y.is_zero() {
                        return None;
                    }
                    x / y
                }
                _ => unreachable!(),
            };
            Some(vec![Num::Ex(r)])
        }
        _ => {
            let xs: Vec<f64> = match a {
                Num::Ex(x) => to_f64_candidates(x),
                Num::Fl(f) => vec![*f],
            };
            let ys: Vec<f64> = match b {
                Num::Ex(y) => to_f64_candidates(y),
                Num::Fl(f) => vec![*f],
            };
            let mut out = vec![];
            for x in &xs {
                for y in &ys {
                    let r = match op {
                        Op::Add => x + y,
                        Op::Sub => x - y,
                        Op::Mul => x * y,
                        Op::Div => x / y,
                        _ => unreachable!(),
                    };
                    out.push(Num::Fl(r));
                }
            }
            Some(cap(out))
        }
    }
}

/// exact comparison of two numbers; None if unordered (NaN)
pub fn cmp_exact(a: &Num, b: &Num) -> Option<std::cmp::Ordering> {
    use std::cmp::Ordering::*;
    match (a, b) {
        (Num::Ex(x), Num::Ex(y)) => Some(x.cmp(y)),
        (Num::Fl(x), Num::Fl(y)) => x.partial_cmp(y),
        (Num::Ex(x), Num::Fl(f)) => {
            if f.is_nan() {
                None
            } else if *f == f64::INFINITY {
                Some(Less)
            } else if *f == f64::NEG_INFINITY {
                Some(Greater)
            } else {
                Some(x.cmp(&f64_to_ratio(*f).unwrap()))
            }
        }
        (Num::Fl(_), Num::Ex(_)) => cmp_exact(b, a).map(|o| o.reverse()),
    }
}

fn as_int(n: &Num) -> Option<BigInt> {
    match n {
        Num::Ex(r) if r.is_integer() => Some(r.numer().clone()),
        _ => None,
    }
}

pub fn isqrt(n: &BigInt) -> BigInt {
    n.sqrt()
}

pub fn radix_string(r: &BigRational, radix: u32) -> String {
    if r.is_integer() {
        r.numer().to_str_radix(radix)
    } else {
        format!("{}/{}", r.numer().to_str_radix(radix), r.denom().to_str_radix(radix))
    }
}

fn str_canon(s: &str) -> String {
    // same escaping as steel::verif::canon for strings (digits/letters only here)
    format!("s:\"{}\"", s)
}

/// The model: expected outcome of `(op args...)`.  `extra` carries the radix for the string
/// conversions.  Returns None when the combination is outside the property's domain (the
/// generator must not produce it).
pub fn eval(op: Op, args: &[Num], extra: u32) -> Option<Expect> {
    eval_out(op, args, extra).map(|o| match o {
        Out::Nums(v) => Expect::nums(&v),
        Out::Bool(b) => Expect::bool(b),
        Out::Text(s) => Expect::one(s),
        Out::Err => Expect::Err,
    })
}

/// result of the model before rendering
#[derive(Clone, Debug)]
pub enum Out {
    /// acceptable numeric results (first = preferred)
    Nums(Vec<Num>),
    Bool(bool),
    /// already rendered canonical text (strings, lists)
    Text(String),
    Err,
}

fn nums_out(v: &[Num]) -> Out {
    Out::Nums(cap(v.to_vec()))
}

pub fn eval_out(op: Op, args: &[Num], extra: u32) -> Option<Out> {
    use Op::*;
    match op {
        Add | Mul => {
            let unit = if op == Add { int(0) } else { int(1) };
            if args.is_empty() {
                return Some(nums_out(&[unit]));
            }
            let mut acc = vec![args[0].clone()];
            for a in &args[1..] {
                let mut next = vec![];
                for x in &acc {
                    next.extend(arith2(op, x, a)?);
                }
                acc = cap(next);
            }
            // second accepted reading for mixed exactness with >2 operands: convert first
            if args.len() > 2 && args.iter().any(|a| matches!(a, Num::Fl(_))) {
                let mut acc2: Vec<f64> = match &args[0] {
                    Num::Ex(x) => to_f64_candidates(x),
                    Num::Fl(f) => vec![*f],
                };
                for a in &args[1..] {
                    let ys: Vec<f64> = match a {
                        Num::Ex(y) => to_f64_candidates(y),
                        Num::Fl(f) => vec![*f],
                    };
                    let mut n2 = vec![];
                    for x in &acc2 {
                        for y in &ys {
                            n2.push(if op == Add { x + y } else { x * y });
                        }
                    }
                    n2.truncate(24);
                    acc2 = n2;
                }
                acc.extend(acc2.into_iter().map(Num::Fl));
                acc = cap(acc);
            }
            Some(nums_out(&acc))
        }
        Sub | Div => {
            if args.is_empty() {
                return None;
            }
            if args.len() == 1 {
                let unit = if op == Sub { int(0) } else { int(1) };
                // (- x) is negation: for doubles it flips the sign bit (IEEE negate), which
                // differs from 0 - x only for x = 0.0; both are accepted.
                return match arith2(op, &unit, &args[0]) {
                    None => Some(Out::Err),
                    Some(mut v) => {
                        if op == Sub {
                            if let Num::Fl(f) = &args[0] {
                                v.push(Num::Fl(-*f));
                            }
                        }
                        Some(nums_out(&cap(v)))
                    }
                };
            }
            let mut acc = vec![args[0].clone()];
            for a in &args[1..] {
                let mut next = vec![];
                let mut err = false;
                for x in &acc {
                    match arith2(op, x, a) {
                        Some(v) => next.extend(v),
                        None => err = true,
                    }
                }
                if err {
                    // exact zero divisor after exact operands: an error.  (A float dividend
                    // with an exact zero divisor is left open by R7RS: not generated.)
                    return Some(Out::Err);
                }
                acc = cap(next);
            }
            if args.len() > 2 && args.iter().any(|a| matches!(a, Num::Fl(_))) {
                let mut acc2: Vec<f64> = match &args[0] {
                    Num::Ex(x) => to_f64_candidates(x),
                    Num::Fl(f) => vec![*f],
                };
                for a in &args[1..] {
                    let ys: Vec<f64> = match a {
                        Num::Ex(y) => to_f64_candidates(y),
                        Num::Fl(f) => vec![*f],
                    };
                    let mut n2 = vec![];
                    for x in &acc2 {
                        for y in &ys {
                            n2.push(if op == Sub { x - y } else { x / y });
                        }
                    }
                    n2.truncate(24);
                    acc2 = n2;
                }
                acc.extend(acc2.into_iter().map(Num::Fl));
                acc = cap(acc);
            }
            Some(nums_out(&acc))
        }
        Quotient | Remainder | Modulo => {
            if args.len() != 2 {
                return None;
            }
            let a = as_int(&args[0])?;
            let b = as_int(&args[1])?;
            if b.is_zero() {
                return Some(Out::Err);
            }
            let r = match op {
                Quotient => &a / &b,            // truncating
                Remainder => &a % &b,           // sign of dividend
                Modulo => a.mod_floor(&b),      // sign of divisor
                _ => unreachable!(),
            };
            Some(nums_out(&[big(r)]))
        }
        NumEq | Lt | Gt | Le | Ge => {
            if args.is_empty() {
                return None;
            }
            let mut ok = true;
            for w in args.windows(2) {
                let c = cmp_exact(&w[0], &w[1]);
                use std::cmp::Ordering::*;
                let holds = match (op, c) {
                    (_, None) => false,
                    (NumEq, Some(o)) => o == Equal,
                    (Lt, Some(o)) => o == Less,
                    (Gt, Some(o)) => o == Greater,
                    (Le, Some(o)) => o != Greater,
                    (Ge, Some(o)) => o != Less,
                    _ => unreachable!(),
                };
                if !holds {
                    ok = false;
                }
            }
            Some(Out::Bool(ok))
        }
        Abs => {
            if args.len() != 1 {
                return None;
            }
            Some(match &args[0] {
                Num::Ex(r) => nums_out(&[Num::Ex(r.abs())]),
                Num::Fl(f) => nums_out(&[Num::Fl(f.abs())]),
            })
        }
        Gcd | Lcm => {
            if args.len() != 2 {
                return None;
            }
            let a = as_int(&args[0])?;
            let b = as_int(&args[1])?;
            let r = if op == Gcd { a.gcd(&b) } else { a.lcm(&b).abs() };
            Some(nums_out(&[big(r)]))
        }
        Expt => {
            if args.len() != 2 {
                return None;
            }
            let base = match &args[0] {
                Num::Ex(r) => r.clone(),
                _ => return None,
            };
            let e = as_int(&args[1])?.to_i64()?;
            if base.is_zero() && e < 0 {
                return Some(Out::Err);
            }
            let r = if e >= 0 {
                num_traits::pow(base, e as usize)
            } else {
                num_traits::pow(base.recip(), (-e) as usize)
            };
            Some(nums_out(&[Num::Ex(r)]))
        }
        ExactIntegerSqrt => {
            if args.len() != 1 {
                return None;
            }
            let n = as_int(&args[0])?;
            if n.is_negative() {
                return Some(Out::Err);
            }
            let s = isqrt(&n);
            let rem = &n - &s * &s;
            Some(Out::Text(format!("({} {})", canon(&big(s)), canon(&big(rem)))))
        }
        NumberToString => {
            if args.len() != 1 {
                return None;
            }
            match &args[0] {
                Num::Ex(r) => Some(Out::Text(str_canon(&radix_string(r, extra)))),
                _ => None,
            }
        }
        StringToNumberRoundTrip => {
            // (string->number (number->string x radix) radix) = x
            if args.len() != 1 {
                return None;
            }
            match &args[0] {
                Num::Ex(_) => Some(nums_out(&[args[0].clone()])),
                _ => None,
            }
        }
        Min | Max => {
            if args.is_empty() {
                return None;
            }
            // R7RS: if any argument is inexact the result is inexact.  NaN: not generated.
            let mut best = args[0].clone();
            for a in &args[1..] {
                let c = cmp_exact(a, &best)?;
                let take = if op == Min { c == std::cmp::Ordering::Less } else { c == std::cmp::Ordering::Greater };
                if take {
                    best = a.clone();
                }
            }
            let any_inexact = args.iter().any(|a| matches!(a, Num::Fl(_)));
            if any_inexact {
                let c: Vec<Num> = match &best {
                    Num::Ex(r) => to_f64_candidates(r).into_iter().map(Num::Fl).collect(),
                    f => vec![f.clone()],
                };
                Some(nums_out(&c))
            } else {
                Some(nums_out(&[best]))
            }
        }
        Floor | Ceiling | Truncate | Round => {
            if args.len() != 1 {
                return None;
            }
            Some(match &args[0] {
                Num::Ex(r) => {
                    let v = match op {
                        Floor => r.floor(),
                        Ceiling => r.ceil(),
                        Truncate => r.trunc(),
                        Round => {
                            // round to even
                            let two = BigInt::from(2);
                            let fl = r.floor();
                            let diff = r - &fl;
                            let half = BigRational::new(BigInt::one(), two.clone());
                            if diff < half {
                                fl
                            } else if diff > half {
                                fl + BigRational::one()
                            } else if fl.numer().is_even() {
                                fl
                            } else {
                                fl + BigRational::one()
                            }
                        }
                        _ => unreachable!(),
                    };
                    nums_out(&[Num::Ex(v)])
                }
                Num::Fl(f) => {
                    let v = match op {
                        Floor => f.floor(),
                        Ceiling => f.ceil(),
                        Truncate => f.trunc(),
                        Round => {
                            // ties to even
                            let r = f.round();
                            if (f - f.trunc()).abs() == 0.5 {
                                2.0 * (f / 2.0).round()
                            } else {
                                r
                            }
                        }
                        _ => unreachable!(),
                    };
                    nums_out(&[Num::Fl(v)])
                }
            })
        }
        ExactToInexact => {
            if args.len() != 1 {
                return None;
            }
            Some(match &args[0] {
                Num::Ex(r) => nums_out(&to_f64_candidates(r).into_iter().map(Num::Fl).collect::<Vec<_>>()),
                f => nums_out(&[f.clone()]),
            })
        }
        Numerator | Denominator => {
            if args.len() != 1 {
                return None;
            }
            match &args[0] {
                Num::Ex(r) => Some(nums_out(&[big(if op == Numerator { r.numer().clone() } else { r.denom().clone() })])),
                _ => None,
            }
        }
        Square => {
            if args.len() != 1 {
                return None;
            }
            Some(match &args[0] {
                Num::Ex(r) => nums_out(&[Num::Ex(r * r)]),
                Num::Fl(f) => nums_out(&[Num::Fl(f * f)]),
            })
        }
    }
}

/// How Steel computes `(/ x y ...)` when an operand is inexact: x * (1 / (y * ...)).
/// Used only while the known finding KF-C10-float-division is listed, to keep searching
/// behind it (see DESIGN.md): these renderings are accepted in addition to the IEEE ones.
pub fn div_by_reciprocal(args: &[Num]) -> Option<Vec<Num>> {
    if args.len() < 2 {
        return None;
    }
    let mut d = vec![args[1].clone()];
    for a in &args[2..] {
        let mut next = vec![];
        for x in &d {
            next.extend(arith2(Op::Mul, x, a)?);
        }
        d = cap(next);
    }
    let mut out = vec![];
    for dv in &d {
        let r = match dv {
            Num::Ex(q) => {
                if q.is_zero() {
                    return None;
                }
                Num::Ex(q.recip())
            }
            Num::Fl(f) => Num::Fl(1.0 / f),
        };
        out.extend(arith2(Op::Mul, &args[0], &r)?);
    }
    Some(cap(out))
}

pub fn sign_of(b: &BigInt) -> Sign {
    b.sign()
}

#[cfg(test)]
mod tests {
    use super::*;
    #[test]
    fn conv() {
        for (n, d) in [(1i64, 3i64), (2, 3), (1, 10), (123456789, 1000), (-7, 9), (1, 1 << 40)] {
            let r = BigRational::new(n.into(), d.into());
            assert_eq!(ratio_to_f64(&r), n as f64 / d as f64, "{}/{}", n, d);
        }
        for i in [0i64, 1, -1, i64::MAX, i64::MIN, (1 << 53) + 1, (1 << 62) + 3, 9007199254740993] {
            let r = BigRational::from_integer(i.into());
            assert_eq!(ratio_to_f64(&r), i as f64);
        }
        let b: BigInt = "12345678901234567890123".parse().unwrap();
        assert_eq!(ratio_to_f64(&BigRational::from_integer(b)), 1.2345678901234568e22);
        let tiny = BigRational::new(1.into(), BigInt::one() << 1074usize);
        assert_eq!(ratio_to_f64(&tiny), f64::from_bits(1));
        let huge = BigRational::from_integer(BigInt::one() << 1024usize);
        assert_eq!(ratio_to_f64(&huge), f64::INFINITY);
    }
}
