//! Collection scripts for C03 (persistence of immutable values under sharing and last-use
//! patterns) and C11 (equal? / hashing / collections against mathematical models).
//!
//! The model is purely functional: every value is a Rust tree, every operation returns a new
//! tree.  A script is a sequence of pieces of program text, each with the expected canonical
//! value (or "an error") computed by the model, so replay files are self contained.

use crate::gen::Chooser;
use serde::{Deserialize, Serialize};
use std::collections::BTreeMap;

#[derive(Clone, Debug, PartialEq)]
pub enum CV {
    Int(i64),
    Ratio(i64, i64),
    Str(String),
    Sym(String),
    Char(char),
    Bool(bool),
    List(Vec<CV>),
    IVec(Vec<CV>),
    /// a mutable vector that the scripts never mutate (only equal? / hashing look at it)
    MVec(Vec<CV>),
    /// canonical key string -> (key, value)
    Hash(BTreeMap<String, (CV, CV)>),
    Set(BTreeMap<String, CV>),
    Bytes(Vec<u8>),
}

#[derive(Clone, Copy, Debug, PartialEq, Eq)]
pub enum K {
    Int,
    Str,
    List,
    IVec,
    Hash,
    Set,
    Bytes,
    Other,
}

fn esc(s: &str, out: &mut String) {
    out.push('"');
    for c in s.chars() {
        match c {
            '"' => out.push_str("\\\""),
            '\\' => out.push_str("\\\\"),
            c if (c as u32) < 0x20 || c as u32 == 0x7f => out.push_str(&format!("\\x{:x};", c as u32)),
            c => out.push(c),
        }
    }
    out.push('"');
}

impl CV {
    pub fn kind(&self) -> K {
        match self {
            CV::Int(_) => K::Int,
            CV::Str(_) => K::Str,
            CV::List(_) => K::List,
            CV::IVec(_) => K::IVec,
            CV::Hash(_) => K::Hash,
            CV::Set(_) => K::Set,
            CV::Bytes(_) => K::Bytes,
            _ => K::Other,
        }
    }

    /// same format as steel::verif::canon
    pub fn canon(&self) -> String {
        let mut s = String::new();
        self.canon_into(&mut s);
        s
    }

    fn canon_into(&self, out: &mut String) {
        match self {
            CV::Int(i) => out.push_str(&format!("i:{}", i)),
            CV::Ratio(n, d) => out.push_str(&format!("r:{}/{}", n, d)),
            CV::Str(s) => {
                out.push_str("s:");
                esc(s, out)
            }
            CV::Sym(s) => {
                out.push_str("y:");
                esc(s, out)
            }
            CV::Char(c) => out.push_str(&format!("c:{:x}", *c as u32)),
            CV::Bool(true) => out.push_str("#t"),
            CV::Bool(false) => out.push_str("#f"),
            CV::List(v) => {
                out.push('(');
                for (i, x) in v.iter().enumerate() {
                    if i > 0 {
                        out.push(' ');
                    }
                    x.canon_into(out);
                }
                out.push(')');
            }
            CV::IVec(v) => {
                out.push_str("#(");
                for (i, x) in v.iter().enumerate() {
                    if i > 0 {
                        out.push(' ');
                    }
                    x.canon_into(out);
                }
                out.push(')');
            }
            CV::MVec(v) => {
                out.push_str("#m(");
                for (i, x) in v.iter().enumerate() {
                    if i > 0 {
                        out.push(' ');
                    }
                    x.canon_into(out);
                }
                out.push(')');
            }
            CV::Hash(m) => {
                let mut items: Vec<(String, String)> = m.values().map(|(k, v)| (k.canon(), v.canon())).collect();
                items.sort();
                out.push_str("#h{");
                for (i, (k, v)) in items.iter().enumerate() {
                    if i > 0 {
                        out.push(' ');
                    }
                    out.push_str(k);
                    out.push_str("=>");
                    out.push_str(v);
                }
                out.push('}');
            }
            CV::Set(m) => {
                let mut items: Vec<String> = m.values().map(|k| k.canon()).collect();
                items.sort();
                out.push_str("#s{");
                out.push_str(&items.join(" "));
                out.push('}');
            }
            CV::Bytes(b) => {
                out.push_str("#u8(");
                out.push_str(&b.iter().map(|x| x.to_string()).collect::<Vec<_>>().join(" "));
                out.push(')');
            }
        }
    }

    /// an expression that constructs the value from scratch (no sharing)
    pub fn expr(&self) -> String {
        match self {
            CV::Int(i) => format!("{}", i),
            CV::Ratio(n, d) => format!("{}/{}", n, d),
            CV::Str(s) => {
                let mut o = String::new();
                esc(s, &mut o);
                o
            }
            CV::Sym(s) => format!("'{}", s),
            CV::Char(c) => format!("(integer->char {})", *c as u32),
            CV::Bool(true) => "#t".into(),
            CV::Bool(false) => "#f".into(),
            CV::List(v) => format!("(list{})", v.iter().map(|x| format!(" {}", x.expr())).collect::<String>()),
            CV::IVec(v) => format!("(immutable-vector{})", v.iter().map(|x| format!(" {}", x.expr())).collect::<String>()),
            CV::MVec(v) => format!("(vector{})", v.iter().map(|x| format!(" {}", x.expr())).collect::<String>()),
            CV::Hash(m) => format!("(hash{})", m.values().map(|(k, v)| format!(" {} {}", k.expr(), v.expr())).collect::<String>()),
            CV::Set(m) => format!("(hashset{})", m.values().map(|k| format!(" {}", k.expr())).collect::<String>()),
            CV::Bytes(b) => format!("(bytes{})", b.iter().map(|x| format!(" {}", x)).collect::<String>()),
        }
    }

    /// an expression constructing an equal value in which repeated sub-values are shared
    /// through let bindings (the same object occurring several times)
    pub fn expr_shared(&self) -> String {
        // collect composite sub-values occurring at least twice
        let mut counts: BTreeMap<String, (usize, CV)> = BTreeMap::new();
        fn walk(v: &CV, counts: &mut BTreeMap<String, (usize, CV)>) {
            let composite = matches!(v, CV::List(_) | CV::IVec(_) | CV::Hash(_) | CV::Set(_) | CV::Str(_) | CV::Bytes(_));
            if composite {
                let e = counts.entry(v.canon()).or_insert((0, v.clone()));
                e.0 += 1;
            }
            match v {
                CV::List(xs) | CV::IVec(xs) | CV::MVec(xs) => xs.iter().for_each(|x| walk(x, counts)),
                CV::Hash(m) => m.values().for_each(|(k, x)| {
                    walk(k, counts);
                    walk(x, counts)
                }),
                CV::Set(m) => m.values().for_each(|x| walk(x, counts)),
                _ => {}
            }
        }
        walk(self, &mut counts);
        let own = self.canon();
        let shared: Vec<(String, CV)> = counts.into_iter().filter(|(k, (n, _))| *n >= 2 && *k != own).map(|(k, (_, v))| (k, v)).collect();
        if shared.is_empty() {
            return self.expr();
        }
        // bind the smallest first so that larger shared values can use them
        let mut shared = shared;
        shared.sort_by_key(|(k, _)| k.len());
        let names: BTreeMap<String, String> = shared.iter().enumerate().map(|(i, (k, _))| (k.clone(), format!("sh{}", i))).collect();
        fn ex(v: &CV, names: &BTreeMap<String, String>, skip: &str) -> String {
            let c = v.canon();
            if c != skip {
                if let Some(n) = names.get(&c) {
                    return n.clone();
                }
            }
            match v {
                CV::List(xs) => format!("(list{})", xs.iter().map(|x| format!(" {}", ex(x, names, skip))).collect::<String>()),
                CV::IVec(xs) => format!("(immutable-vector{})", xs.iter().map(|x| format!(" {}", ex(x, names, skip))).collect::<String>()),
                CV::MVec(xs) => format!("(vector{})", xs.iter().map(|x| format!(" {}", ex(x, names, skip))).collect::<String>()),
                CV::Hash(m) => format!("(hash{})", m.values().map(|(k, x)| format!(" {} {}", ex(k, names, skip), ex(x, names, skip))).collect::<String>()),
                CV::Set(m) => format!("(hashset{})", m.values().map(|x| format!(" {}", ex(x, names, skip))).collect::<String>()),
                _ => v.expr(),
            }
        }
        let mut s = String::from("(let* (");
        for (k, v) in &shared {
            s.push_str(&format!("({} {}) ", names[k], ex(v, &names, k)));
        }
        s.push_str(&format!(") {})", ex(self, &names, "")));
        s
    }

    pub fn size(&self) -> usize {
        match self {
            CV::List(xs) | CV::IVec(xs) | CV::MVec(xs) => 1 + xs.iter().map(|x| x.size()).sum::<usize>(),
            CV::Hash(m) => 1 + m.values().map(|(k, v)| k.size() + v.size()).sum::<usize>(),
            CV::Set(m) => 1 + m.values().map(|k| k.size()).sum::<usize>(),
            _ => 1,
        }
    }

    fn same_seq(&self, ys: Vec<CV>) -> CV {
        match self {
            CV::List(_) => CV::List(ys),
            CV::IVec(_) => CV::IVec(ys),
            _ => CV::MVec(ys),
        }
    }

    /// the same leaves in the same order under a different nesting: an element next to a nested
    /// sequence of the same kind moves into it ((1 2 (3)) -> (1 (2 3))); None if there is none
    pub fn reshape(&self) -> Option<CV> {
        let (CV::List(xs) | CV::IVec(xs) | CV::MVec(xs)) = self else { return None };
        for i in 0..xs.len() {
            let same_kind = std::mem::discriminant(&xs[i]) == std::mem::discriminant(self);
            if let (true, CV::List(inner) | CV::IVec(inner) | CV::MVec(inner)) = (same_kind, &xs[i]) {
                if i > 0 {
                    let mut ys = xs.clone();
                    let moved = ys.remove(i - 1);
                    let mut inn = inner.clone();
                    inn.insert(0, moved);
                    ys[i - 1] = xs[i].same_seq(inn);
                    return Some(self.same_seq(ys));
                }
                if i + 1 < xs.len() {
                    let mut ys = xs.clone();
                    let moved = ys.remove(i + 1);
                    let mut inn = inner.clone();
                    inn.push(moved);
                    ys[i] = xs[i].same_seq(inn);
                    return Some(self.same_seq(ys));
                }
            }
            if let Some(r) = xs[i].reshape() {
                let mut ys = xs.clone();
                ys[i] = r;
                return Some(self.same_seq(ys));
            }
        }
        None
    }

    /// a value of the same shape that differs in exactly one leaf (None if there is no leaf)
    pub fn perturb(&self, c: &mut Chooser) -> Option<CV> {
        match self {
            CV::Int(i) => Some(CV::Int(i.wrapping_add(1))),
            CV::Ratio(n, d) => Some(CV::Ratio(*n + *d, *d)),
            CV::Str(s) => Some(CV::Str(format!("{}x", s))),
            CV::Sym(s) => Some(CV::Sym(format!("{}x", s))),
            CV::Char(ch) => Some(CV::Char(if *ch == 'a' { 'b' } else { 'a' })),
            CV::Bool(b) => Some(CV::Bool(!b)),
            CV::Bytes(b) => {
                let mut b = b.clone();
                if b.is_empty() {
                    b.push(1)
                } else {
                    let i = c.below(b.len());
                    b[i] = b[i].wrapping_add(1)
                }
                Some(CV::Bytes(b))
            }
            CV::List(xs) | CV::IVec(xs) | CV::MVec(xs) => {
                let ys = if xs.is_empty() {
                    vec![CV::Int(0)]
                } else {
                    let i = c.below(xs.len());
                    let mut ys = xs.clone();
                    ys[i] = xs[i].perturb(c)?;
                    ys
                };
                Some(self.same_seq(ys))
            }
            CV::Hash(m) => {
                if m.is_empty() {
                    let mut n = BTreeMap::new();
                    n.insert(CV::Int(0).canon(), (CV::Int(0), CV::Int(0)));
                    return Some(CV::Hash(n));
                }
                let i = c.below(m.len());
                let key = m.keys().nth(i).unwrap().clone();
                let mut n = m.clone();
                let (k, v) = m[&key].clone();
                n.insert(key, (k, v.perturb(c)?));
                Some(CV::Hash(n))
            }
            CV::Set(m) => {
                let mut n = m.clone();
                let extra = CV::Sym("perturbed".into());
                if n.remove(&extra.canon()).is_none() {
                    n.insert(extra.canon(), extra);
                }
                Some(CV::Set(n))
            }
        }
    }
}

pub fn hash_of(pairs: Vec<(CV, CV)>) -> CV {
    let mut m = BTreeMap::new();
    for (k, v) in pairs {
        m.insert(k.canon(), (k, v));
    }
    CV::Hash(m)
}

pub fn set_of(items: Vec<CV>) -> CV {
    let mut m = BTreeMap::new();
    for k in items {
        m.insert(k.canon(), k);
    }
    CV::Set(m)
}

#[derive(Clone, Debug, Serialize, Deserialize, PartialEq)]
pub enum Expect {
    /// canonical value of the last form of the piece
    Value(String),
    /// the piece must raise an error (any kind)
    Error,
    /// only "no panic" is required
    Any,
}

#[derive(Clone, Debug, Serialize, Deserialize)]
pub struct Piece {
    pub src: String,
    pub expect: Expect,
    /// what the piece exercises (for failure signatures and statistics)
    pub what: String,
    /// definitions that rebuild every variable the piece may refer to from literals, without any
    /// sharing: running them and then the piece in a fresh engine is "the operation applied to a
    /// fresh copy"
    #[serde(default)]
    pub fresh_env: String,
    /// (index into the piece's result list, canonical form): components of the result that are
    /// *earlier* values which the piece's update must have left unchanged
    #[serde(default)]
    pub unchanged: Vec<(usize, String)>,
}

#[derive(Clone, Debug, Default, Serialize, Deserialize)]
pub struct CollStats {
    pub ops: BTreeMap<String, usize>,
    pub patterns: BTreeMap<String, usize>,
    pub error_expected: usize,
    pub equal_checks: usize,
    pub keys_that_are_collections: usize,
    pub observes: usize,
    pub boundary_index: usize,
}

#[derive(Clone, Debug, Serialize, Deserialize)]
pub struct Script {
    pub pieces: Vec<Piece>,
    pub stats: CollStats,
}

pub struct Opts {
    pub max_ops: usize,
    /// thread pattern allowed
    pub threads: bool,
}

struct G<'c, 'd> {
    c: &'c mut Chooser<'d>,
    vars: Vec<(String, CV)>,
    st: CollStats,
    fresh: usize,
}

const STRS: &[&str] = &["", "a", "abc", "hello world", "Ünï", "a\\b\"c", "  pad  ", "x,y,z", "λ", "aaa"];
const SYMS: &[&str] = &["a", "b", "foo", "bar-baz", "x1"];

impl<'c, 'd> G<'c, 'd> {
    fn leaf(&mut self) -> CV {
        match self.c.below(9) {
            0 | 1 | 2 => CV::Int([0, 1, -1, 2, 7, 255, 256, -128, 1 << 40, i64::MAX, i64::MIN + 1][self.c.below(11)]),
            3 | 4 => CV::Str(STRS[self.c.below(STRS.len())].to_string()),
            5 => CV::Sym(SYMS[self.c.below(SYMS.len())].to_string()),
            6 => CV::Char(['a', 'Z', '0', ' ', 'λ'][self.c.below(5)]),
            7 => CV::Bool(self.c.chance(1, 2)),
            _ => CV::Ratio([1, -1, 7, -7][self.c.below(4)], [2, 3, 5][self.c.below(3)]),
        }
    }

    fn value(&mut self, depth: usize) -> CV {
        if depth == 0 || self.c.chance(2, 5) {
            return self.leaf();
        }
        let n = self.c.below(4);
        match self.c.below(6) {
            0 | 1 => CV::List((0..n).map(|_| self.value(depth - 1)).collect()),
            2 => CV::IVec((0..n).map(|_| self.value(depth - 1)).collect()),
            3 => {
                let mut pairs = vec![];
                for _ in 0..n {
                    let k = self.key(depth - 1);
                    let v = self.value(depth - 1);
                    pairs.push((k, v));
                }
                hash_of(pairs)
            }
            4 => set_of((0..n).map(|_| self.key(depth - 1)).collect()),
            _ => CV::Bytes((0..n).map(|_| [0u8, 1, 127, 128, 255][self.c.below(5)]).collect()),
        }
    }

    /// nested mutable vectors (never mutated by the scripts)
    fn mvec(&mut self, depth: usize) -> CV {
        let n = 1 + self.c.below(3);
        CV::MVec((0..n).map(|_| if depth > 0 && self.c.chance(1, 2) { self.mvec(depth - 1) } else { self.leaf() }).collect())
    }

    /// hash keys: any immutable value, often a collection
    fn key(&mut self, depth: usize) -> CV {
        let v = if self.c.chance(1, 3) { self.value(depth.min(2)) } else { self.leaf() };
        if !matches!(v, CV::Int(_) | CV::Str(_) | CV::Sym(_) | CV::Char(_) | CV::Bool(_) | CV::Ratio(..)) {
            self.st.keys_that_are_collections += 1;
        }
        v
    }

    fn of_kind(&self, k: K) -> Vec<usize> {
        self.vars.iter().enumerate().filter(|(_, (_, v))| v.kind() == k).map(|(i, _)| i).collect()
    }

    /// index into a sequence of length n: in range, the boundaries, or just outside
    fn index(&mut self, n: usize) -> i64 {
        match self.c.below(6) {
            0 => 0,
            1 => n as i64 - 1,
            2 => {
                self.st.boundary_index += 1;
                n as i64
            }
            3 => {
                self.st.boundary_index += 1;
                n as i64 + 1
            }
            _ => {
                if n == 0 {
                    0
                } else {
                    self.c.below(n) as i64
                }
            }
        }
    }

    /// one operation on variable `x` (text uses the placeholder name given): (op name, expression, model result)
    fn op(&mut self, xe: &str, xv: &CV) -> Option<(String, String, Result<CV, ()>)> {
        let immutable: Vec<usize> = self.vars.iter().enumerate().filter(|(_, (_, v))| !matches!(v, CV::MVec(_))).map(|(i, _)| i).collect();
        let arg = if self.c.chance(1, 3) && !immutable.is_empty() {
            let i = immutable[self.c.below(immutable.len())];
            let (n, v) = self.vars[i].clone();
            (n, v)
        } else {
            let v = self.value(2);
            (v.expr(), v)
        };
        let r = match xv {
            CV::List(xs) => match self.c.below(13) {
                0 => ("cons", format!("(cons {} {})", arg.0, xe), Ok(CV::List(std::iter::once(arg.1.clone()).chain(xs.iter().cloned()).collect()))),
                1 => ("car", format!("(car {})", xe), xs.first().cloned().ok_or(())),
                2 => ("cdr", format!("(cdr {})", xe), if xs.is_empty() { Err(()) } else { Ok(CV::List(xs[1..].to_vec())) }),
                3 => ("reverse", format!("(reverse {})", xe), Ok(CV::List(xs.iter().rev().cloned().collect()))),
                4 => ("length", format!("(length {})", xe), Ok(CV::Int(xs.len() as i64))),
                5 => {
                    let i = self.index(xs.len());
                    ("list-ref", format!("(list-ref {} {})", xe, i), xs.get(i as usize).cloned().filter(|_| i >= 0).ok_or(()))
                }
                6 => match &arg.1 {
                    CV::List(ys) => ("append", format!("(append {} {})", xe, arg.0), Ok(CV::List(xs.iter().chain(ys.iter()).cloned().collect()))),
                    _ => ("append-self", format!("(append {} {})", xe, xe), Ok(CV::List(xs.iter().chain(xs.iter()).cloned().collect()))),
                },
                7 => {
                    let i = self.index(xs.len());
                    ("list-tail", format!("(list-tail {} {})", xe, i), if i >= 0 && (i as usize) <= xs.len() { Ok(CV::List(xs[i as usize..].to_vec())) } else { Err(()) })
                }
                8 => ("push-back", format!("(push-back {} {})", xe, arg.0), Ok(CV::List(xs.iter().cloned().chain(std::iter::once(arg.1.clone())).collect()))),
                9 => ("list->vector", format!("(list->vector {})", xe), Ok(CV::IVec(xs.clone()))),
                10 => ("member", format!("(if (member {} {}) #t #f)", arg.0, xe), Ok(CV::Bool(xs.iter().any(|y| y.canon() == arg.1.canon())))),
                11 => ("list->hashset", format!("(list->hashset {})", xe), Ok(set_of(xs.clone()))),
                _ => ("list-of", format!("(list {} {})", xe, xe), Ok(CV::List(vec![xv.clone(), xv.clone()]))),
            },
            CV::IVec(xs) => match self.c.below(8) {
                0 => {
                    let i = self.index(xs.len());
                    ("vector-ref", format!("(vector-ref {} {})", xe, i), xs.get(i as usize).cloned().filter(|_| i >= 0).ok_or(()))
                }
                1 => ("immutable-vector-push", format!("(immutable-vector-push {} {})", xe, arg.0), Ok(CV::IVec(xs.iter().cloned().chain(std::iter::once(arg.1.clone())).collect()))),
                2 => {
                    let i = self.index(xs.len());
                    let r = if i >= 0 && (i as usize) < xs.len() {
                        let mut ys = xs.clone();
                        ys[i as usize] = arg.1.clone();
                        Ok(CV::IVec(ys))
                    } else {
                        Err(())
                    };
                    ("immutable-vector-set", format!("(immutable-vector-set {} {} {})", xe, i, arg.0), r)
                }
                3 => ("vector-length", format!("(vector-length {})", xe), Ok(CV::Int(xs.len() as i64))),
                4 => ("immutable-vector->list", format!("(immutable-vector->list {})", xe), Ok(CV::List(xs.clone()))),
                5 => match &arg.1 {
                    CV::IVec(ys) => ("immutable-vector-append", format!("(immutable-vector-append {} {})", xe, arg.0), Ok(CV::IVec(xs.iter().chain(ys.iter()).cloned().collect()))),
                    _ => ("immutable-vector-append-self", format!("(immutable-vector-append {} {})", xe, xe), Ok(CV::IVec(xs.iter().chain(xs.iter()).cloned().collect()))),
                },
                6 => ("immutable-vector-rest", format!("(immutable-vector-rest {})", xe), if xs.is_empty() { return None } else { Ok(CV::IVec(xs[1..].to_vec())) }),
                _ => ("vector-of", format!("(immutable-vector {} {})", xe, xe), Ok(CV::IVec(vec![xv.clone(), xv.clone()]))),
            },
            CV::Hash(m) => {
                // an existing key is used often
                let (ke, kv) = if !m.is_empty() && self.c.chance(1, 2) {
                    let i = self.c.below(m.len());
                    let k = m.values().nth(i).unwrap().0.clone();
                    (if self.c.chance(1, 2) { k.expr() } else { k.expr_shared() }, k)
                } else {
                    let k = self.key(2);
                    (k.expr(), k)
                };
                match self.c.below(10) {
                    0 | 1 => {
                        let mut n = m.clone();
                        n.insert(kv.canon(), (kv.clone(), arg.1.clone()));
                        ("hash-insert", format!("(hash-insert {} {} {})", xe, ke, arg.0), Ok(CV::Hash(n)))
                    }
                    2 => {
                        let mut n = m.clone();
                        n.remove(&kv.canon());
                        ("hash-remove", format!("(hash-remove {} {})", xe, ke), Ok(CV::Hash(n)))
                    }
                    3 => ("hash-ref", format!("(hash-ref {} {})", xe, ke), m.get(&kv.canon()).map(|p| p.1.clone()).ok_or(())),
                    4 => ("hash-try-get", format!("(hash-try-get {} {})", xe, ke), Ok(m.get(&kv.canon()).map(|p| p.1.clone()).unwrap_or(CV::Bool(false)))),
                    5 => ("hash-contains?", format!("(hash-contains? {} {})", xe, ke), Ok(CV::Bool(m.contains_key(&kv.canon())))),
                    6 => ("hash-length", format!("(hash-length {})", xe), Ok(CV::Int(m.len() as i64))),
                    7 => match &arg.1 {
                        // left biased: keys of the first argument win
                        CV::Hash(o) => {
                            let mut n = o.clone();
                            for (k, v) in m {
                                n.insert(k.clone(), v.clone());
                            }
                            ("hash-union", format!("(hash-union {} {})", xe, arg.0), Ok(CV::Hash(n)))
                        }
                        _ => ("hash-union-self", format!("(hash-union {} {})", xe, xe), Ok(xv.clone())),
                    },
                    8 => ("hash-keys->list", format!("(list->hashset (hash-keys->list {}))", xe), Ok(set_of(m.values().map(|p| p.0.clone()).collect()))),
                    _ => ("hash-empty?", format!("(hash-empty? {})", xe), Ok(CV::Bool(m.is_empty()))),
                }
            }
            CV::Set(m) => {
                let (ke, kv) = if !m.is_empty() && self.c.chance(1, 2) {
                    let i = self.c.below(m.len());
                    let k = m.values().nth(i).unwrap().clone();
                    (if self.c.chance(1, 2) { k.expr() } else { k.expr_shared() }, k)
                } else {
                    let k = self.key(2);
                    (k.expr(), k)
                };
                match self.c.below(8) {
                    0 | 1 => {
                        let mut n = m.clone();
                        n.insert(kv.canon(), kv.clone());
                        ("hashset-insert", format!("(hashset-insert {} {})", xe, ke), Ok(CV::Set(n)))
                    }
                    2 => ("hashset-contains?", format!("(hashset-contains? {} {})", xe, ke), Ok(CV::Bool(m.contains_key(&kv.canon())))),
                    3 => ("hashset-length", format!("(hashset-length {})", xe), Ok(CV::Int(m.len() as i64))),
                    4 | 5 | 6 => match &arg.1 {
                        CV::Set(o) => match self.c.below(4) {
                            0 => {
                                let mut n = m.clone();
                                n.extend(o.clone());
                                ("hashset-union", format!("(hashset-union {} {})", xe, arg.0), Ok(CV::Set(n)))
                            }
                            1 => ("hashset-intersection", format!("(hashset-intersection {} {})", xe, arg.0), Ok(CV::Set(m.iter().filter(|(k, _)| o.contains_key(*k)).map(|(k, v)| (k.clone(), v.clone())).collect()))),
                            // documented (and, with the imbl feature, implemented) as the symmetric difference:
                            // (hashset-difference (hashset 10 20 30) (hashset 20 30 40)) ;; => (hashset 40 10)
                            2 => (
                                "hashset-difference",
                                format!("(hashset-difference {} {})", xe, arg.0),
                                Ok(CV::Set(m.iter().filter(|(k, _)| !o.contains_key(*k)).chain(o.iter().filter(|(k, _)| !m.contains_key(*k))).map(|(k, v)| (k.clone(), v.clone())).collect())),
                            ),
                            _ => ("hashset-subset?", format!("(hashset-subset? {} {})", xe, arg.0), Ok(CV::Bool(m.keys().all(|k| o.contains_key(k))))),
                        },
                        _ => ("hashset->list", format!("(list->hashset (hashset->list {}))", xe), Ok(xv.clone())),
                    },
                    _ => ("hashset->list-length", format!("(length (hashset->list {}))", xe), Ok(CV::Int(m.len() as i64))),
                }
            }
            CV::Str(s) => {
                let chars: Vec<char> = s.chars().collect();
                match self.c.below(9) {
                    0 => match &arg.1 {
                        CV::Str(t) => ("string-append", format!("(string-append {} {})", xe, arg.0), Ok(CV::Str(format!("{}{}", s, t)))),
                        _ => ("string-append-self", format!("(string-append {} {})", xe, xe), Ok(CV::Str(format!("{}{}", s, s)))),
                    },
                    1 => ("string-length", format!("(string-length {})", xe), Ok(CV::Int(chars.len() as i64))),
                    2 => {
                        let i = self.index(chars.len());
                        ("string-ref", format!("(string-ref {} {})", xe, i), chars.get(i as usize).cloned().filter(|_| i >= 0).map(CV::Char).ok_or(()))
                    }
                    3 => {
                        let a = self.index(chars.len());
                        let b = self.index(chars.len());
                        let r = if a >= 0 && b >= a && (b as usize) <= chars.len() { Ok(CV::Str(chars[a as usize..b as usize].iter().collect())) } else { Err(()) };
                        ("substring", format!("(substring {} {} {})", xe, a, b), r)
                    }
                    4 => ("string->list", format!("(string->list {})", xe), Ok(CV::List(chars.iter().map(|c| CV::Char(*c)).collect()))),
                    5 => ("string->symbol", format!("(symbol->string (string->symbol {}))", xe), Ok(CV::Str(s.clone()))),
                    6 => ("string=?", format!("(string=? {} {})", xe, CV::Str(s.clone()).expr()), Ok(CV::Bool(true))),
                    7 => ("string->bytes", format!("(string->bytes {})", xe), Ok(CV::Bytes(s.as_bytes().to_vec()))),
                    _ => ("list->string", format!("(list->string (string->list {}))", xe), Ok(CV::Str(s.clone()))),
                }
            }
            CV::Bytes(b) => match self.c.below(6) {
                0 => ("bytes-length", format!("(bytes-length {})", xe), Ok(CV::Int(b.len() as i64))),
                1 => {
                    let i = self.index(b.len());
                    ("bytes-ref", format!("(bytes-ref {} {})", xe, i), b.get(i as usize).filter(|_| i >= 0).map(|x| CV::Int(*x as i64)).ok_or(()))
                }
                2 => match &arg.1 {
                    CV::Bytes(o) => ("bytes-append", format!("(bytes-append {} {})", xe, arg.0), Ok(CV::Bytes(b.iter().chain(o.iter()).cloned().collect()))),
                    _ => ("bytes-append-self", format!("(bytes-append {} {})", xe, xe), Ok(CV::Bytes(b.iter().chain(b.iter()).cloned().collect()))),
                },
                3 => ("bytes->list", format!("(bytes->list {})", xe), Ok(CV::List(b.iter().map(|x| CV::Int(*x as i64)).collect()))),
                4 => ("list->bytes", format!("(list->bytes (bytes->list {}))", xe), Ok(CV::Bytes(b.clone()))),
                _ => {
                    let a = self.index(b.len());
                    let e = self.index(b.len());
                    let r = if a >= 0 && e >= a && (e as usize) <= b.len() { Ok(CV::Bytes(b[a as usize..e as usize].to_vec())) } else { Err(()) };
                    ("bytevector-copy", format!("(bytevector-copy {} {} {})", xe, a, e), r)
                }
            },
            _ => return None,
        };
        Some((r.0.to_string(), r.1, r.2))
    }

    fn observe(&mut self, pieces: &mut Vec<Piece>) {
        if self.vars.is_empty() {
            return;
        }
        self.st.observes += 1;
        let names: Vec<String> = self.vars.iter().map(|(n, _)| n.clone()).collect();
        let vals: Vec<CV> = self.vars.iter().map(|(_, v)| v.clone()).collect();
        pieces.push(Piece { src: format!("(list {})", names.join(" ")), expect: Expect::Value(CV::List(vals).canon()), what: "observe-all".into(), fresh_env: String::new(), unchanged: vec![] });
    }
}

pub fn generate(data: &[u16], o: &Opts) -> Script {
    let mut ch = Chooser::new(data);
    let mut g = G { c: &mut ch, vars: vec![], st: CollStats::default(), fresh: 0 };
    let mut pieces: Vec<Piece> = vec![];
    let nops = 4 + g.c.below(o.max_ops.saturating_sub(3));
    for step in 0..nops {
        if g.c.exhausted() && step > 4 {
            break;
        }
        let choice = if g.vars.len() < 2 { 0 } else { g.c.weighted(&[3, 12, 3, 2]) };
        match choice {
            0 => {
                // a fresh value (literal constructor, possibly with shared sub-objects)
                let v = if g.c.chance(1, 6) { g.mvec(2) } else { g.value(3) };
                if v.size() > 60 {
                    continue;
                }
                let name = format!("v{}", g.fresh);
                g.fresh += 1;
                let e = if g.c.chance(1, 2) { v.expr_shared() } else { v.expr() };
                pieces.push(Piece { src: format!("(define {} {})\n{}", name, e, name), expect: Expect::Value(v.canon()), what: "construct".into(), fresh_env: String::new(), unchanged: vec![] });
                g.vars.push((name, v));
            }
            1 => {
                // an operation on an existing variable under a sharing / last-use pattern
                let i = g.c.below(g.vars.len());
                let (xn, xv) = g.vars[i].clone();
                let pat = g.c.below(if o.threads { 9 } else { 7 });
                let Some((opname, e1, r1)) = g.op(if pat == 0 || pat == 2 { &xn } else { "x" }, &xv) else { continue };
                *g.st.ops.entry(opname.clone()).or_insert(0) += 1;
                let name = format!("v{}", g.fresh);
                g.fresh += 1;
                let patname = ["direct", "let-last-use", "chained", "function-parameter", "closure-capture", "keep-old-and-new", "container-then-update", "thread", "other-thread-holds-a-clone"][pat];
                *g.st.patterns.entry(patname.to_string()).or_insert(0) += 1;
                let (src, expect, newval): (String, Expect, Option<CV>) = match (pat, r1) {
                    (_, Err(())) => {
                        g.st.error_expected += 1;
                        let e = if pat == 0 || pat == 2 { e1.clone() } else { format!("(let ((x {})) {})", xn, e1) };
                        (e, Expect::Error, None)
                    }
                    (0, Ok(v)) => (format!("(define {} {})\n{}", name, e1, name), Expect::Value(v.canon()), Some(v)),
                    (1, Ok(v)) => (format!("(define {} (let ((x {})) {}))\n{}", name, xn, e1, name), Expect::Value(v.canon()), Some(v)),
                    (2, Ok(v)) => {
                        // a second operation on the intermediate result, which nobody else holds
                        match g.op("t", &v) {
                            Some((op2, e2, Ok(v2))) => {
                                *g.st.ops.entry(op2).or_insert(0) += 1;
                                (format!("(define {} (let ((t {})) {}))\n{}", name, e1, e2, name), Expect::Value(v2.canon()), Some(v2))
                            }
                            _ => (format!("(define {} {})\n{}", name, e1, name), Expect::Value(v.canon()), Some(v)),
                        }
                    }
                    (3, Ok(v)) => {
                        // 0-6 parameters before x; x is read plainly before the update in the same argument list
                        let k = g.c.below(7);
                        let dummies: String = (0..k).map(|j| format!("p{} ", j)).collect();
                        let dargs: String = (0..k).map(|j| format!("{} ", j)).collect();
                        let both = CV::List(vec![xv.clone(), v]);
                        (
                            // called by name (may be inlined), through apply, or as a first-class value
                            match g.c.below(3) {
                                0 => format!("(define (f{} {}x) (list x {}))\n(define {} (f{} {}{}))\n{}", name, dummies, e1, name, name, dargs, xn, name),
                                1 => format!("(define (f{} {}x) (list x {}))\n(define {} (apply f{} (list {}{})))\n{}", name, dummies, e1, name, name, dargs, xn, name),
                                _ => format!("(define (f{} {}x) (list x {}))\n(define {} ((car (list f{})) {}{}))\n{}", name, dummies, e1, name, name, dargs, xn, name),
                            },
                            Expect::Value(both.canon()),
                            Some(both),
                        )
                    }
                    (4, Ok(v)) => (
                        format!("(define g{} (let ((x {})) (lambda () {})))\n(define {} (g{}))\n(list {} (g{}))", name, xn, e1, name, name, name, name),
                        Expect::Value(CV::List(vec![v.clone(), v.clone()]).canon()),
                        Some(v),
                    ),
                    (5, Ok(v)) => {
                        // old and new value both stay alive and are returned together
                        match g.op("a", &v) {
                            Some((op2, e2, Ok(v2))) => {
                                *g.st.ops.entry(op2).or_insert(0) += 1;
                                (
                                    format!("(define {} (let* ((x {}) (a {}) (b {})) (list x a b)))\n{}", name, xn, e1, e2, name),
                                    Expect::Value(CV::List(vec![xv.clone(), v.clone(), v2.clone()]).canon()),
                                    Some(CV::List(vec![xv.clone(), v.clone(), v2])),
                                )
                            }
                            _ => (format!("(define {} (let ((x {})) (list x {})))\n{}", name, xn, e1, name), Expect::Value(CV::List(vec![xv.clone(), v.clone()]).canon()), Some(CV::List(vec![xv.clone(), v]))),
                        }
                    }
                    (6, Ok(v)) => (
                        format!("(define {} (let* ((x {}) (c (list x x))) (list (car c) {} (car (cdr c)))))\n{}", name, xn, e1, name),
                        Expect::Value(CV::List(vec![xv.clone(), v.clone(), xv.clone()]).canon()),
                        Some(CV::List(vec![xv.clone(), v, xv.clone()])),
                    ),
                    (7, Ok(v)) => (
                        format!("(define {} (let ((x {})) (thread-join! (spawn-native-thread (lambda () {})))))\n{}", name, xn, e1, name),
                        Expect::Value(v.canon()),
                        Some(v),
                    ),
                    (_, Ok(v)) => {
                        // a value built on this thread; another thread takes its own reference by reading
                        // a box; this thread drops every reference but one and updates at the last use
                        let src = format!(
                            "(define {} (let* ((slot (box #f)) (to-main (channels/new)) (to-thread (channels/new)) (x {}))\n  (set-box! slot x)\n  (let ((t (spawn-native-thread (lambda () (let ((mine (unbox slot))) (channel/send (channels-sender to-main) 1) (channel/recv (channels-receiver to-thread)) mine)))))\n    (channel/recv (channels-receiver to-main))\n    (set-box! slot #f)\n    (let ((updated {}))\n      (channel/send (channels-sender to-thread) 1)\n      (list (thread-join! t) updated)))))\n{}",
                            name,
                            xv.expr(),
                            e1,
                            name
                        );
                        let both = CV::List(vec![xv.clone(), v]);
                        (src, Expect::Value(both.canon()), Some(both))
                    }
                };
                let fresh_env: String = g.vars.iter().map(|(n, v)| format!("(define {} {})\n", n, v.expr())).collect();
                let unchanged: Vec<(usize, String)> = if expect == Expect::Error {
                    vec![]
                } else {
                    match pat {
                        5 => {
                            let mut u = vec![(0, xv.canon())];
                            if let Some(CV::List(parts)) = &newval {
                                if parts.len() == 3 {
                                    u.push((1, parts[1].canon()));
                                }
                            }
                            u
                        }
                        3 => vec![(0, xv.canon())],
                        6 => vec![(0, xv.canon()), (2, xv.canon())],
                        8 => vec![(0, xv.canon())],
                        _ => vec![],
                    }
                };
                pieces.push(Piece { src, expect, what: format!("{}:{}", opname, patname), fresh_env, unchanged });
                if let Some(v) = newval {
                    if v.size() <= 80 {
                        g.vars.push((name, v));
                    }
                }
                if g.vars.len() > 10 {
                    g.vars.remove(0);
                }
            }
            2 => {
                // equal? / hashing: a copy built differently, and a copy differing in one leaf
                let i = g.c.below(g.vars.len());
                let (xn, xv) = g.vars[i].clone();
                g.st.equal_checks += 1;
                let copy = if g.c.chance(1, 2) { xv.expr_shared() } else { xv.expr() };
                let other = xv.perturb(g.c);
                let (oe, differs) = match &other {
                    Some(o) if o.canon() != xv.canon() => (o.expr(), true),
                    _ => (xv.expr(), false),
                };
                // the same leaves under a different nesting must not be equal?
                let reshaped = xv.reshape().filter(|r| r.canon() != xv.canon());
                let (de, reshaped_differs) = match &reshaped {
                    Some(r) => (r.expr(), true),
                    None => (xv.expr(), false),
                };
                let src = format!(
                    "(let ((a {}) (b {}) (c {}) (d {})) (list (equal? a b) (equal? b a) (equal? a a) (equal? a c) (equal? c a) (hash-ref (hash a 7) b) (hash-contains? (hash a 7) c) (hashset-contains? (hashset a) b) (hashset-contains? (hashset a) c) (hash-length (hash a 1 b 2)) (hashset-length (hashset a b c)) (if (member b (list c a)) #t #f) (equal? a d) (equal? d a)))",
                    xn, copy, oe, de
                );
                let t = CV::Bool(true);
                let d = CV::Bool(!differs);
                let r = CV::Bool(!reshaped_differs);
                let exp = CV::List(vec![t.clone(), t.clone(), t.clone(), d.clone(), d.clone(), CV::Int(7), d.clone(), t.clone(), d.clone(), CV::Int(1), CV::Int(if differs { 2 } else { 1 }), t.clone(), r.clone(), r]);
                pieces.push(Piece { src, expect: Expect::Value(exp.canon()), what: format!("equal-hash:{:?}", xv.kind()), fresh_env: String::new(), unchanged: vec![] });
            }
            _ => g.observe(&mut pieces),
        }
    }
    g.observe(&mut pieces);
    Script { pieces, stats: g.st }
}
