//! Evaluation histories (C06, C07c, C02): sequences of top-level pieces evaluated on one engine.
//! The generator keeps a symbolic picture of the global scope (which names are defined, with
//! which type), so every piece is well scoped *at the time it is compiled*; the reference
//! interpreter (`Interp::run_piece`, one instance for the whole history) gives the expected
//! result of every piece under the binding model of DESIGN.md C06: a definition creates a new
//! location, code compiled earlier keeps the locations it resolved, `set!` writes the location.

use crate::ast::*;
use crate::gen::{Gen, GenOpts, Ty, VarInfo};
use serde::{Deserialize, Serialize};

#[derive(Clone, Debug, Serialize, Deserialize, PartialEq)]
pub enum HStep {
    /// a piece that compiles; it may still raise at run time
    Piece(Program),
    /// text that must be rejected before anything runs (syntax error, free identifier):
    /// no effect on the engine
    Rejected(String),
}

#[derive(Clone, Debug, Serialize, Deserialize, PartialEq)]
pub struct History {
    pub steps: Vec<HStep>,
}

#[derive(Clone, Debug, Default)]
pub struct HistStats {
    pub redefinitions: usize,
    pub bulk_shadowed: usize,
    pub fresh_defined: usize,
    pub failing_steps: usize,
    pub set_global: usize,
    pub probes: usize,
}

pub struct HistOpts {
    /// known-finding ids whose trigger shapes the expression generator must avoid
    pub avoid: Vec<String>,
    pub max_ops: usize,
    /// probability weight of failing steps (C07c uses a high one)
    pub fail_weight: u32,
    /// allow the bulk operations that cross the slot-recycling thresholds
    pub bulk: bool,
}

const FN_NAMES: &[&str] = &["f0", "f1", "f2", "f3", "f4"];
const VAR_NAMES: &[&str] = &["v0", "v1", "v2"];
const CTR_NAMES: &[&str] = &["c0", "c1"];
/// instances of one combinator lambda, each capturing two function *values*
const COMPOSED_NAMES: &[&str] = &["h0", "h1", "h2"];

fn one(t: Top) -> HStep {
    HStep::Piece(Program { forms: vec![t] })
}

pub fn generate(data: &[u16], o: &HistOpts) -> (History, HistStats) {
    let gopts = GenOpts { errors: false, callcc: false, winds: false, reentry: false, handlers: false, output: false, heap: false, gc_points: false, max_depth: 3, top_forms: 1, avoid: o.avoid.clone() };
    let mut g = Gen::new(data, gopts);
    let mut steps: Vec<HStep> = vec![];
    let mut st = HistStats::default();
    let mut junk_counter = 0usize;
    // a closure factory: every (compose2 f g) is a new instance of the same lambda whose captures
    // may be the only thing keeping an old version of f or g (and what those refer to) alive
    steps.push(one(Top::Define(
        "compose2".into(),
        lambda(&["f", "g"], Body::single(lambda(&["x"], Body::single(call(var("f"), vec![call(var("g"), vec![var("x")])]))))),
    )));
    let nops = 3 + g.c.below(o.max_ops.max(4) - 3);
    for _ in 0..nops {
        let fns: Vec<VarInfo> = g
            .scope
            .iter()
            .filter(|v| matches!(v.ty, Ty::Proc { n: 1, .. }) && (FN_NAMES.contains(&v.name.as_str()) || COMPOSED_NAMES.contains(&v.name.as_str())))
            .cloned()
            .collect();
        let vars: Vec<VarInfo> = g.scope.iter().filter(|v| v.ty == Ty::Int).cloned().collect();
        let w = [
            10,                                   // 0 define / redefine a function
            5,                                    // 1 define / redefine a variable
            if vars.is_empty() { 0 } else { 5 },  // 2 set! a global variable at top level
            6,                                    // 3 expression using what is defined
            o.fail_weight,                        // 4 failing step
            if o.bulk { 3 } else { 0 },           // 5 bulk shadowing
            if o.bulk { 2 } else { 0 },           // 6 many fresh definitions
            3,                                    // 7 counter closure (live mutable state)
            8,                                    // 8 probe: call everything
            if fns.is_empty() { 0 } else { 6 },   // 9 a composed function (closure capturing function values)
        ];
        match g.c.weighted(&w) {
            0 => {
                let name = FN_NAMES[g.c.below(FN_NAMES.len())].to_string();
                if g.scope.iter().any(|v| v.name == name) {
                    st.redefinitions += 1;
                }
                // the function being (re)defined is not visible in its own body: a reference
                // would resolve to the new binding (recursion)
                let saved: Vec<VarInfo> = g.scope.clone();
                g.scope.retain(|v| v.name != name);
                let pure_ = g.c.chance(1, 2);
                let shape = g.c.below(6);
                let callee = fns.iter().filter(|f| f.name != name).cloned().collect::<Vec<_>>();
                if shape == 4 {
                    // the global holds a native function: callers compiled while it does must still see a
                    // later redefinition
                    let native = ["abs", "-", "+", "*", "square"][g.c.below(5)];
                    g.scope = saved;
                    g.scope.retain(|v| v.name != name);
                    g.scope.push(VarInfo { name: name.clone(), ty: Ty::Proc { n: 1, rest: false, pure_: false }, mutable: false, global: true });
                    steps.push(one(Top::Define(name, var(native))));
                    continue;
                }
                let body: Body = if shape == 0 && !callee.is_empty() {
                    // the body *is* a global call: the reference sits in the first instruction
                    let f = &callee[g.c.below(callee.len())];
                    Body::single(app(&f.name, vec![var("x")]))
                } else if shape == 5 && !callee.is_empty() {
                    // a call of another global in non-tail position
                    let f = &callee[g.c.below(callee.len())];
                    Body::single(app("+", vec![app(&f.name, vec![var("x")]), int(g.c.range(0, 9))]))
                } else if shape == 1 && !vars.is_empty() && !pure_ {
                    // only assigns a global (the SET opcode carries the slot)
                    let v = &vars[g.c.below(vars.len())];
                    Body { defs: vec![], exprs: vec![set(&v.name, app("+", vec![var("x"), int(g.c.range(0, 9))])), var("x")] }
                } else {
                    let px = VarInfo { name: "x".into(), ty: Ty::Int, mutable: false, global: false };
                    g.scope.push(px);
                    let e = g.int(3, pure_);
                    Body::single(e)
                };
                g.scope = saved;
                g.scope.retain(|v| v.name != name);
                g.scope.push(VarInfo { name: name.clone(), ty: Ty::Proc { n: 1, rest: false, pure_: false }, mutable: false, global: true });
                steps.push(one(Top::Define(name, Expr::Lambda(Box::new(LambdaDef { params: vec!["x".into()], opt: vec![], rest: None, body })))));
            }
            1 => {
                let name = VAR_NAMES[g.c.below(VAR_NAMES.len())].to_string();
                if g.scope.iter().any(|v| v.name == name) {
                    st.redefinitions += 1;
                }
                let saved = g.scope.clone();
                g.scope.retain(|v| v.name != name);
                let init = g.int(2, false);
                g.scope = saved;
                g.scope.retain(|v| v.name != name);
                g.scope.push(VarInfo { name: name.clone(), ty: Ty::Int, mutable: true, global: true });
                steps.push(one(Top::Define(name, init)));
            }
            2 => {
                let v = vars[g.c.below(vars.len())].clone();
                let e = g.int(2, false);
                st.set_global += 1;
                steps.push(one(Top::Expr(set(&v.name, e))));
            }
            3 => {
                let e = g.int(3, false);
                steps.push(one(Top::Expr(e)));
            }
            4 => {
                st.failing_steps += 1;
                match g.c.below(5) {
                    0 => steps.push(HStep::Rejected("(define (broken x) (+ x".to_string())),
                    1 => steps.push(HStep::Rejected("(+ 1 (this-identifier-is-not-defined 2))".to_string())),
                    2 => steps.push(HStep::Rejected(")".to_string())),
                    3 => {
                        // a definition completes, then the piece raises
                        let name = VAR_NAMES[g.c.below(VAR_NAMES.len())].to_string();
                        let k = g.c.range(0, 50);
                        g.scope.retain(|v| v.name != name);
                        g.scope.push(VarInfo { name: name.clone(), ty: Ty::Int, mutable: true, global: true });
                        steps.push(HStep::Piece(Program { forms: vec![Top::Define(name, int(k)), Top::Expr(app("car", vec![int(5)]))] }));
                    }
                    _ => {
                        // raises in the middle of a call chain
                        let e = g.int(2, false);
                        steps.push(one(Top::Expr(app("+", vec![e, app("vector-ref", vec![app("vector", vec![int(1)]), int(7)])]))));
                    }
                }
            }
            5 => {
                // k redefinitions of one junk name, one piece each
                let k = [40usize, 101, 103, 130, 205][g.c.below(5)];
                st.bulk_shadowed += k;
                for i in 0..k {
                    steps.push(one(Top::Define("junk".into(), int((junk_counter + i) as i64))));
                }
                junk_counter += k;
            }
            6 => {
                let m = [50usize, 150, 420][g.c.below(3)];
                let forms: Vec<Top> = (0..m)
                    .map(|i| {
                        g.fresh += 1;
                        Top::Define(format!("fresh{}", g.fresh), Expr::Quote(Datum::Sym(format!("fresh-value-{}", i))))
                    })
                    .collect();
                st.fresh_defined += m;
                steps.push(HStep::Piece(Program { forms }));
            }
            7 => {
                let name = CTR_NAMES[g.c.below(CTR_NAMES.len())].to_string();
                let start = g.c.range(0, 20);
                let stepk = g.c.range(1, 4);
                g.scope.retain(|v| v.name != name);
                let def = Expr::Let(
                    vec![("n".into(), int(start))],
                    Box::new(Body::single(lambda(&[], Body { defs: vec![], exprs: vec![set("n", app("+", vec![var("n"), int(stepk)])), var("n")] }))),
                );
                g.scope.push(VarInfo { name: name.clone(), ty: Ty::Proc { n: 0, rest: false, pure_: false }, mutable: false, global: true });
                steps.push(one(Top::Define(name, def)));
            }
            9 => {
                let name = COMPOSED_NAMES[g.c.below(COMPOSED_NAMES.len())].to_string();
                if g.scope.iter().any(|v| v.name == name) {
                    st.redefinitions += 1;
                }
                // the latest visible binding of each function name
                let mut latest: Vec<VarInfo> = vec![];
                for v in fns.iter().rev() {
                    if v.name != name && !latest.iter().any(|x| x.name == v.name) {
                        latest.push(v.clone());
                    }
                }
                if latest.is_empty() {
                    continue;
                }
                let a = latest[g.c.below(latest.len())].name.clone();
                let b = latest[g.c.below(latest.len())].name.clone();
                g.scope.retain(|v| v.name != name);
                g.scope.push(VarInfo { name: name.clone(), ty: Ty::Proc { n: 1, rest: false, pure_: false }, mutable: false, global: true });
                steps.push(one(Top::Define(name, app("compose2", vec![var(&a), var(&b)]))));
            }
            _ => {
                st.probes += 1;
                steps.push(probe(&g.scope));
            }
        }
    }
    steps.push(probe(&g.scope));
    st.probes += 1;
    (History { steps }, st)
}

/// one piece per defined name, so that a failure of one call does not hide the others;
/// returned as a single piece `(list ...)` of guarded calls is not possible without handlers,
/// so the probe is a piece with one top-level expression per name
fn probe(scope: &[VarInfo]) -> HStep {
    let mut forms = vec![];
    let mut seen: Vec<&str> = vec![];
    for v in scope.iter().rev() {
        if !v.global || seen.contains(&v.name.as_str()) {
            continue;
        }
        seen.push(&v.name);
        match &v.ty {
            Ty::Proc { n: 1, .. } => forms.push(Top::Expr(app(&v.name, vec![int(3)]))),
            Ty::Proc { n: 0, .. } => forms.push(Top::Expr(app(&v.name, vec![]))),
            Ty::Int => forms.push(Top::Expr(var(&v.name))),
            _ => {}
        }
    }
    if forms.is_empty() {
        forms.push(Top::Expr(int(0)));
    }
    HStep::Piece(Program { forms })
}
