//! Data with an external representation, for C12 (reader / writer round trip).
//! A datum is built in the engine from constructors (never through the reader), written by the
//! engine, read back by the engine, and the result is compared with the model's canonical form.

use crate::gen::Chooser;

#[derive(Clone, Debug, PartialEq)]
pub enum D {
    Int(i64),
    Big(String),
    Ratio(i64, i64),
    Float(f64),
    Bool(bool),
    Char(char),
    Str(String),
    Sym(String),
    List(Vec<D>),
    Dotted(Vec<D>, Box<D>),
    Vector(Vec<D>),
    Bytes(Vec<u8>),
    /// (make-rectangular re im); compared with equal? after the round trip (the canonical form
    /// of a complex number is its printed form, which is what is under test)
    Complex(Box<D>, Box<D>),
}

fn esc(s: &str, out: &mut String) {
    out.push('"');
    for c in s.chars() {
        match c {
            '"' => out.push_str("\\\""),
            '\\' => out.push_str("\\\\"),
            c if (c as u32) < 0x20 || c as u32 == 0x7f => out.push_str(&format!("\\x{:x};", c as u32)),
            c => out.push(c),
        }
    }
    out.push('"');
}

pub fn canon_float(f: f64) -> String {
    if f.is_nan() {
        "f:nan".into()
    } else if f == f64::INFINITY {
        "f:inf".into()
    } else if f == f64::NEG_INFINITY {
        "f:-inf".into()
    } else {
        format!("f:{:?}", f)
    }
}

/// a symbol name that every Scheme reader takes as one plain identifier
pub fn plain_symbol(s: &str) -> bool {
    !s.is_empty()
        && s.chars().all(|c| c.is_ascii_alphanumeric() || "!$%&*/:<=>?^_~+-.@".contains(c))
        && !s.chars().next().unwrap().is_ascii_digit()
        && !matches!(s.chars().next().unwrap(), '+' | '-' | '.' | '@')
        && s != "."
}

impl D {
    pub fn canon(&self) -> String {
        let mut s = String::new();
        self.canon_into(&mut s);
        s
    }

    fn canon_into(&self, out: &mut String) {
        match self {
            D::Int(i) => out.push_str(&format!("i:{}", i)),
            D::Big(b) => out.push_str(&format!("B:{}", b)),
            D::Ratio(n, d) => out.push_str(&format!("r:{}/{}", n, d)),
            D::Float(f) => out.push_str(&canon_float(*f)),
            D::Bool(true) => out.push_str("#t"),
            D::Bool(false) => out.push_str("#f"),
            D::Char(c) => out.push_str(&format!("c:{:x}", *c as u32)),
            D::Str(s) => {
                out.push_str("s:");
                esc(s, out)
            }
            D::Sym(s) => {
                out.push_str("y:");
                esc(s, out)
            }
            D::List(xs) => {
                out.push('(');
                for (i, x) in xs.iter().enumerate() {
                    if i > 0 {
                        out.push(' ');
                    }
                    x.canon_into(out);
                }
                out.push(')');
            }
            D::Dotted(xs, t) => {
                out.push('(');
                for x in xs.iter() {
                    x.canon_into(out);
                    out.push(' ');
                }
                out.push_str(". ");
                t.canon_into(out);
                out.push(')');
            }
            D::Vector(xs) => {
                out.push_str("#(");
                for (i, x) in xs.iter().enumerate() {
                    if i > 0 {
                        out.push(' ');
                    }
                    x.canon_into(out);
                }
                out.push(')');
            }
            D::Bytes(b) => {
                out.push_str("#u8(");
                out.push_str(&b.iter().map(|x| x.to_string()).collect::<Vec<_>>().join(" "));
                out.push(')');
            }
            D::Complex(..) => out.push_str("#<complex>"),
        }
    }

    pub fn has_complex(&self) -> bool {
        match self {
            D::Complex(..) => true,
            D::List(xs) | D::Vector(xs) => xs.iter().any(|x| x.has_complex()),
            D::Dotted(xs, t) => xs.iter().any(|x| x.has_complex()) || t.has_complex(),
            _ => false,
        }
    }

    fn str_expr(s: &str) -> String {
        if s.is_empty() {
            "(string)".into()
        } else {
            format!("(list->string (list{}))", s.chars().map(|c| format!(" (integer->char {})", c as u32)).collect::<String>())
        }
    }

    /// constructor expression: does not depend on the reader for anything but plain numbers
    pub fn expr(&self) -> String {
        match self {
            D::Int(i) => format!("{}", i),
            D::Big(b) => b.clone(),
            D::Ratio(n, d) => format!("{}/{}", n, d),
            D::Float(f) => {
                if f.is_nan() {
                    "+nan.0".into()
                } else if *f == f64::INFINITY {
                    "+inf.0".into()
                } else if *f == f64::NEG_INFINITY {
                    "-inf.0".into()
                } else {
                    format!("{:?}", f)
                }
            }
            D::Bool(true) => "#t".into(),
            D::Bool(false) => "#f".into(),
            D::Char(c) => format!("(integer->char {})", *c as u32),
            D::Str(s) => Self::str_expr(s),
            D::Sym(s) => format!("(string->symbol {})", Self::str_expr(s)),
            D::List(xs) => format!("(list{})", xs.iter().map(|x| format!(" {}", x.expr())).collect::<String>()),
            D::Dotted(xs, t) => {
                let mut s = t.expr();
                for x in xs.iter().rev() {
                    s = format!("(cons {} {})", x.expr(), s);
                }
                s
            }
            D::Vector(xs) => format!("(immutable-vector{})", xs.iter().map(|x| format!(" {}", x.expr())).collect::<String>()),
            D::Bytes(b) => format!("(bytes{})", b.iter().map(|x| format!(" {}", x)).collect::<String>()),
            D::Complex(re, im) => format!("(make-rectangular {} {})", re.expr(), im.expr()),
        }
    }

    /// R7RS external representation (used to seed the reader with well formed text)
    pub fn write(&self) -> String {
        match self {
            D::Int(_) | D::Big(_) | D::Ratio(..) | D::Float(_) | D::Bool(_) => self.expr(),
            D::Char(c) => match c {
                ' ' => "#\\space".into(),
                '\n' => "#\\newline".into(),
                '\t' => "#\\tab".into(),
                '\0' => "#\\null".into(),
                c if (*c as u32) < 0x20 || *c as u32 == 0x7f => format!("#\\x{:x}", *c as u32),
                c => format!("#\\{}", c),
            },
            D::Str(s) => {
                let mut o = String::from("\"");
                for c in s.chars() {
                    match c {
                        '"' => o.push_str("\\\""),
                        '\\' => o.push_str("\\\\"),
                        '\n' => o.push_str("\\n"),
                        '\t' => o.push_str("\\t"),
                        c if (c as u32) < 0x20 => o.push_str(&format!("\\x{:x};", c as u32)),
                        c => o.push(c),
                    }
                }
                o.push('"');
                o
            }
            D::Sym(s) => {
                if plain_symbol(s) {
                    s.clone()
                } else {
                    format!("|{}|", s.replace('\\', "\\\\").replace('|', "\\|"))
                }
            }
            D::List(xs) => format!("({})", xs.iter().map(|x| x.write()).collect::<Vec<_>>().join(" ")),
            D::Dotted(xs, t) => format!("({} . {})", xs.iter().map(|x| x.write()).collect::<Vec<_>>().join(" "), t.write()),
            D::Vector(xs) => format!("#({})", xs.iter().map(|x| x.write()).collect::<Vec<_>>().join(" ")),
            D::Bytes(b) => format!("#u8({})", b.iter().map(|x| x.to_string()).collect::<Vec<_>>().join(" ")),
            D::Complex(re, im) => {
                let i = im.write();
                format!("{}{}{}i", re.write(), if i.starts_with('-') || i.starts_with('+') { "" } else { "+" }, i)
            }
        }
    }

    pub fn kinds(&self, out: &mut std::collections::BTreeSet<&'static str>) {
        match self {
            D::Int(_) => {
                out.insert("fixnum");
            }
            D::Big(_) => {
                out.insert("bignum");
            }
            D::Ratio(..) => {
                out.insert("ratio");
            }
            D::Float(f) => {
                out.insert(if f.is_finite() { "float" } else { "float-special" });
            }
            D::Bool(_) => {
                out.insert("boolean");
            }
            D::Char(c) => {
                out.insert(if c.is_ascii_graphic() { "char-ascii" } else { "char-other" });
            }
            D::Str(s) => {
                out.insert(if s.chars().all(|c| c.is_ascii_graphic() && c != '"' && c != '\\') { "string-plain" } else { "string-escapes-or-unicode" });
            }
            D::Sym(s) => {
                out.insert(if plain_symbol(s) { "symbol-plain" } else { "symbol-needing-bars" });
            }
            D::List(xs) => {
                out.insert(match xs.first() {
                    Some(D::Sym(h)) if xs.len() == 2 && ["quote", "quasiquote", "unquote", "unquote-splicing"].contains(&h.as_str()) => "quotation-form",
                    _ if xs.is_empty() => "empty-list",
                    _ => "list",
                });
                xs.iter().for_each(|x| x.kinds(out));
            }
            D::Dotted(xs, t) => {
                out.insert("improper-list");
                xs.iter().for_each(|x| x.kinds(out));
                t.kinds(out);
            }
            D::Vector(xs) => {
                out.insert("vector");
                xs.iter().for_each(|x| x.kinds(out));
            }
            D::Bytes(_) => {
                out.insert("bytevector");
            }
            D::Complex(..) => {
                out.insert("complex");
            }
        }
    }
}

pub struct DatumOpts {
    /// symbols are restricted to plain identifiers (KF-C12-symbol-bars active)
    pub plain_symbols_only: bool,
    /// names of known findings excluded by construction
    pub avoid: Vec<String>,
}

const CHARS: &[char] = &['a', 'Z', '0', ' ', '\n', '\t', '\0', '\x7f', '\x1b', '(', ')', '"', '\\', ';', '#', '|', '\'', '`', ',', 'λ', 'é', '\u{3b1}', '\u{1F600}', '\u{FEFF}', '\u{2028}', '\u{a0}', '\u{10FFFF}', '\u{D7FF}'];
const SYMS_PLAIN: &[&str] = &["a", "foo", "bar-baz", "x1", "set!", "list->vector", "<=?", "a.b", "*star*", "hello_world", "quote", "lambda", "define", "else", "nil", "t"];
const SYMS_ODD: &[&str] = &["hello world", "", "a|b", "1+", "+1", "-", "...", "#foo", "a;b", "(", "A", "\u{3bb}", "a\"b", "1", "1.5", "-x", ".x", "x'y", "#t", "two  spaces", "tab\there", "@at", "a\\b"];

pub fn leaf(c: &mut Chooser, o: &DatumOpts) -> D {
    if c.chance(1, 14) {
        // real and imaginary parts of every real kind except NaN (NaN is not equal? to itself)
        let part = |c: &mut Chooser| match c.below(7) {
            0 => D::Int([0, 1, -1, 42][c.below(4)]),
            1 => D::Ratio([1, -1, 9][c.below(3)], [2, 5][c.below(2)]),
            // incl. magnitudes that are written with an exponent, of either sign
            2 => D::Float([1.5, -2.25, 0.1, 1e21, 1e-7, -2e-9, 2.5e-10, 3e-300, -1e22, 6.02e23, 5e-324, 1.7976931348623157e308][c.below(12)]),
            3 => D::Float(f64::INFINITY),
            4 => D::Float(f64::NEG_INFINITY),
            5 => D::Big("9223372036854775808".to_string()),
            _ => D::Int(7),
        };
        let re = part(c);
        let mut im = part(c);
        if im == D::Int(0) {
            im = D::Int(1);
        }
        return D::Complex(Box::new(re), Box::new(im));
    }
    match c.below(12) {
        0 => D::Int([0, 1, -1, 42, i64::MAX, i64::MIN, 1 << 53, -(1 << 31)][c.below(8)]),
        1 => D::Big(["9223372036854775808", "-9223372036854775809", "123456789012345678901234567890", "-340282366920938463463374607431768211456"][c.below(4)].to_string()),
        2 => D::Ratio([1, -1, 9, -9, 23][c.below(5)], [2, 5, 7][c.below(3)]),
        3 => D::Float([0.0, -0.0, 1.5, -2.25, 0.1, 1e21, 1e-7, 123456789.123, f64::MAX, f64::MIN_POSITIVE, 5e-324, 1e100, 3.141592653589793, 1.0, -1.0, 100.0][c.below(16)]),
        4 => D::Float([f64::INFINITY, f64::NEG_INFINITY, f64::NAN][c.below(3)]),
        5 => D::Bool(c.chance(1, 2)),
        6 => D::Char(CHARS[c.below(CHARS.len())]),
        7 | 8 => {
            let n = c.below(6);
            D::Str((0..n).map(|_| CHARS[c.below(CHARS.len())]).collect())
        }
        9 | 10 => D::Sym(SYMS_PLAIN[c.below(SYMS_PLAIN.len())].to_string()),
        _ => {
            if o.plain_symbols_only {
                D::Sym(SYMS_PLAIN[c.below(SYMS_PLAIN.len())].to_string())
            } else {
                D::Sym(SYMS_ODD[c.below(SYMS_ODD.len())].to_string())
            }
        }
    }
}

pub fn datum(c: &mut Chooser, depth: usize, o: &DatumOpts) -> D {
    if depth == 0 || c.chance(2, 5) {
        return leaf(c, o);
    }
    let n = c.below(4);
    match c.below(8) {
        0 | 1 | 2 => D::List((0..n).map(|_| datum(c, depth - 1, o)).collect()),
        3 => {
            let xs: Vec<D> = (0..n.max(1)).map(|_| datum(c, depth - 1, o)).collect();
            // the tail of an improper list is not a list
            let mut t = leaf(c, o);
            if let D::List(_) = t {
                t = D::Int(0);
            }
            D::Dotted(xs, Box::new(t))
        }
        4 => D::Vector((0..n).map(|_| datum(c, depth - 1, o)).collect()),
        5 => D::Bytes((0..n).map(|_| [0u8, 1, 127, 128, 255][c.below(5)]).collect()),
        _ => {
            // KF-C12-unquote-rename: the reader turns unquote / unquote-splicing into #%unquote...
            let head = if o.avoid.iter().any(|a| a == "KF-C12-unquote-rename") { ["quote", "quasiquote"][c.below(2)] } else { ["quote", "quasiquote", "unquote", "unquote-splicing"][c.below(4)] };
            D::List(vec![D::Sym(head.to_string()), datum(c, depth - 1, o)])
        }
    }
}
