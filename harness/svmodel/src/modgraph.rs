//! C14: acyclic module graphs with overlapping private / provided names, require modifiers
//! (only-in with renames, prefix-in, both), contract/out provides, and histories of evaluations
//! that require subsets of the graph, define clashing names, probe private and unimported names
//! (which must be rejected) and re-require modules (which must not re-run their bodies).
//!
//! Every definition evaluates to `(list 'module 'name refs...)`, so a value shows which binding
//! each reference resolved to; the model computes the same lists by substitution.

use crate::gen::Chooser;
use serde::{Deserialize, Serialize};
use std::collections::BTreeMap;

const POOL: &[&str] = &["a", "b", "c", "helper", "x", "get", "val", "item"];

#[derive(Clone, Debug)]
struct Def {
    name: String,
    /// local spellings referred to (own earlier names or imported names)
    refs: Vec<String>,
    is_fn: bool,
    provided: bool,
    /// provided through contract/out with the domain int?; takes one argument
    contract: bool,
}

#[derive(Clone, Debug)]
struct Req {
    module: usize,
    /// (original name, new name) selected by only-in; None = everything provided
    only: Option<Vec<(String, String)>>,
    prefix: Option<String>,
}

#[derive(Clone, Debug)]
struct Mod {
    name: String,
    reqs: Vec<Req>,
    defs: Vec<Def>,
}

/// canonical value
#[derive(Clone, Debug, PartialEq)]
enum V {
    Sym(String),
    Int(i64),
    List(Vec<V>),
}

impl V {
    fn canon(&self) -> String {
        match self {
            V::Sym(s) => format!("y:\"{}\"", s),
            V::Int(i) => format!("i:{}", i),
            V::List(xs) => format!("({})", xs.iter().map(|x| x.canon()).collect::<Vec<_>>().join(" ")),
        }
    }
}

fn req_text(mods: &[Mod], r: &Req) -> String {
    let m = format!("\"{}\"", mods[r.module].name);
    let inner = match &r.only {
        Some(sel) => format!("(only-in {}{})", m, sel.iter().map(|(o, n)| if o == n { format!(" {}", o) } else { format!(" ({} {})", o, n) }).collect::<String>()),
        None => m,
    };
    match &r.prefix {
        Some(p) => format!("(require (prefix-in {} {}))", p, inner),
        None => format!("(require {})", inner),
    }
}

/// local spelling -> (module, definition name) bound by a require
fn imports(mods: &[Mod], r: &Req) -> Vec<(String, (usize, String))> {
    let provided: Vec<String> = mods[r.module].defs.iter().filter(|d| d.provided).map(|d| d.name.clone()).collect();
    let sel: Vec<(String, String)> = match &r.only {
        Some(sel) => sel.clone(),
        None => provided.iter().map(|p| (p.clone(), p.clone())).collect(),
    };
    sel.into_iter().filter(|(o, _)| provided.contains(o)).map(|(o, n)| (format!("{}{}", r.prefix.clone().unwrap_or_default(), n), (r.module, o))).collect()
}

struct World {
    mods: Vec<Mod>,
}

impl World {
    fn def(&self, m: usize, name: &str) -> &Def {
        self.mods[m].defs.iter().find(|d| d.name == name).unwrap()
    }
    /// what a local spelling means inside module m
    fn resolve(&self, m: usize, spelling: &str) -> (usize, String) {
        if self.mods[m].defs.iter().any(|d| d.name == spelling) {
            return (m, spelling.to_string());
        }
        for r in &self.mods[m].reqs {
            for (local, target) in imports(&self.mods, r) {
                if local == spelling {
                    return target;
                }
            }
        }
        unreachable!("unresolved {} in {}", spelling, self.mods[m].name)
    }
    /// value of a definition; functions are called with no argument (contract functions with `arg`)
    fn value(&self, m: usize, name: &str, arg: Option<V>) -> V {
        let d = self.def(m, name);
        let mut out = vec![V::Sym(self.mods[m].name.clone()), V::Sym(name.to_string())];
        for r in &d.refs {
            let (tm, tn) = self.resolve(m, r);
            let td = self.def(tm, &tn);
            out.push(if td.contract { self.value(tm, &tn, Some(V::Int(1))) } else { self.value(tm, &tn, None) });
        }
        if let Some(a) = arg {
            out.push(a);
        }
        V::List(out)
    }
    fn ref_expr(&self, m: usize, spelling: &str) -> String {
        let (tm, tn) = self.resolve(m, spelling);
        let td = self.def(tm, &tn);
        if td.contract {
            format!("({} 1)", spelling)
        } else if td.is_fn {
            format!("({})", spelling)
        } else {
            spelling.to_string()
        }
    }
    fn module_text(&self, m: usize) -> String {
        let md = &self.mods[m];
        let mut s = String::new();
        for r in &md.reqs {
            s.push_str(&req_text(&self.mods, r));
            s.push('\n');
        }
        let plain: Vec<String> = md.defs.iter().filter(|d| d.provided && !d.contract).map(|d| d.name.clone()).collect();
        let contracts: Vec<String> = md.defs.iter().filter(|d| d.provided && d.contract).map(|d| format!("(contract/out {} (->/c int? any/c))", d.name)).collect();
        s.push_str(&format!("(provide {} {})\n", plain.join(" "), contracts.join(" ")));
        s.push_str(&format!("(display \"<init {}>\")\n", md.name));
        for d in &md.defs {
            let refs: String = d.refs.iter().map(|r| format!(" {}", self.ref_expr(m, r))).collect();
            if d.contract {
                s.push_str(&format!("(define ({} arg) (list '{} '{}{} arg))\n", d.name, md.name, d.name, refs));
            } else if d.is_fn {
                s.push_str(&format!("(define ({}) (list '{} '{}{}))\n", d.name, md.name, d.name, refs));
            } else {
                s.push_str(&format!("(define {} (list '{} '{}{}))\n", d.name, md.name, d.name, refs));
            }
        }
        // an internal call that violates the contract: contracts are checked at the boundary only
        if let Some(cd) = md.defs.iter().find(|d| d.contract) {
            s.push_str(&format!("(define internal-use-of-{} ({} 'not-an-int))\n", cd.name, cd.name));
        }
        s
    }
}

#[derive(Clone, Debug, Serialize, Deserialize, PartialEq)]
pub enum Expect {
    Value(String),
    Error,
    Any,
}

#[derive(Clone, Debug, Serialize, Deserialize)]
pub struct Piece {
    pub src: String,
    pub expect: Expect,
    pub what: String,
}

#[derive(Clone, Debug, Default, Serialize, Deserialize)]
pub struct ModStats {
    pub modules: usize,
    pub requires_with_modifiers: usize,
    /// contracted imports whose alias was made unique per importing module (known finding excluded by construction)
    #[serde(default)]
    pub excluded_contract_alias: usize,
    pub private_probes: usize,
    pub unimported_probes: usize,
    pub main_defines_clashing: usize,
    pub re_requires: usize,
    pub failing_pieces: usize,
    pub contract_checks: usize,
    pub name_overlaps: usize,
}

#[derive(Clone, Debug, Serialize, Deserialize)]
pub struct Script {
    /// (module name, source)
    pub modules: Vec<(String, String)>,
    pub pieces: Vec<Piece>,
    /// module name -> how many times its body must have run over the whole history (0 or 1)
    pub init_counts: Vec<(String, usize)>,
    pub stats: ModStats,
}

pub fn generate(data: &[u16], max_pieces: usize) -> Script {
    let mut c = Chooser::new(data);
    let mut st = ModStats::default();
    let nm = 2 + c.below(4);
    let mut w = World { mods: vec![] };
    for i in 0..nm {
        let name = format!("m{}", i);
        // requires of earlier modules
        let mut reqs: Vec<Req> = vec![];
        let mut bound: Vec<String> = vec![];
        for j in 0..i {
            if !c.chance(1, 2) {
                continue;
            }
            let provided: Vec<String> = w.mods[j].defs.iter().filter(|d| d.provided).map(|d| d.name.clone()).collect();
            if provided.is_empty() {
                continue;
            }
            // Known finding KF-C14-contract-import-same-alias: two modules of one dependency chain that import a
            // contract/out provide under the same *new* spelling (rename or prefix) fail to compile.  Excluded by
            // construction: the new spelling of a contracted import carries the importing module's index.
            let has_contract = w.mods[j].defs.iter().any(|d| d.provided && d.contract);
            let prefix = if c.chance(1, 2) {
                let base = ["p", "q", "lib", "m"][c.below(4)];
                if has_contract {
                    st.excluded_contract_alias += 1;
                    Some(format!("{}{}:", base, i))
                } else {
                    Some(format!("{}:", base))
                }
            } else {
                None
            };
            let only = if c.chance(1, 2) {
                let mut sel = vec![];
                for p in &provided {
                    if c.chance(2, 3) {
                        let contracted = w.mods[j].defs.iter().any(|d| d.name == *p && d.contract);
                        let newname = if c.chance(1, 3) {
                            if contracted {
                                st.excluded_contract_alias += 1;
                                format!("{}-of-{}-in-m{}", p, w.mods[j].name, i)
                            } else {
                                format!("{}-of-{}", p, w.mods[j].name)
                            }
                        } else {
                            p.clone()
                        };
                        sel.push((p.clone(), newname));
                    }
                }
                if sel.is_empty() {
                    sel.push((provided[0].clone(), provided[0].clone()));
                }
                Some(sel)
            } else {
                None
            };
            let r = Req { module: j, only, prefix };
            let locals: Vec<String> = imports(&w.mods, &r).into_iter().map(|x| x.0).collect();
            // no two imports may bind the same spelling
            if locals.iter().any(|l| bound.contains(l)) {
                continue;
            }
            if r.only.is_some() || r.prefix.is_some() {
                st.requires_with_modifiers += 1;
            }
            bound.extend(locals);
            reqs.push(r);
        }
        w.mods.push(Mod { name: name.clone(), reqs, defs: vec![] });
        // definitions: names from the shared pool that are not bound by an import
        let ndefs = 2 + c.below(4);
        let mut has_contract = false;
        for _ in 0..ndefs {
            let n = POOL[c.below(POOL.len())].to_string();
            if bound.contains(&n) || w.mods[i].defs.iter().any(|d| d.name == n) {
                continue;
            }
            if w.mods[..i].iter().any(|m| m.defs.iter().any(|d| d.name == n)) {
                st.name_overlaps += 1;
            }
            // references: earlier own definitions and imported names
            let mut cands: Vec<String> = w.mods[i].defs.iter().map(|d| d.name.clone()).collect();
            cands.extend(bound.iter().cloned());
            let mut refs = vec![];
            for _ in 0..c.below(3) {
                if !cands.is_empty() {
                    refs.push(cands[c.below(cands.len())].clone());
                }
            }
            let contract = !has_contract && c.chance(1, 6);
            has_contract |= contract;
            let is_fn = contract || c.chance(1, 2);
            let provided = contract || c.chance(3, 5);
            w.mods[i].defs.push(Def { name: n, refs, is_fn, provided, contract });
        }
        if !w.mods[i].defs.iter().any(|d| d.provided) {
            let k = w.mods[i].defs.len();
            if k > 0 {
                w.mods[i].defs[k - 1].provided = true;
            }
        }
    }
    st.modules = nm;
    // transitive closure of requires
    let mut deps: Vec<Vec<usize>> = vec![vec![]; nm];
    for i in 0..nm {
        let mut d: Vec<usize> = vec![i];
        for r in &w.mods[i].reqs {
            for x in deps[r.module].clone() {
                if !d.contains(&x) {
                    d.push(x);
                }
            }
        }
        deps[i] = d;
    }
    // the history of evaluations of the main program
    let mut pieces: Vec<Piece> = vec![];
    let mut main_bound: BTreeMap<String, Option<(usize, String)>> = BTreeMap::new(); // spelling -> import target / None = main's own
    let mut main_own: BTreeMap<String, V> = BTreeMap::new();
    let mut inited: Vec<bool> = vec![false; nm];
    let mut required_once: Vec<usize> = vec![];
    let np = 3 + c.below(max_pieces.saturating_sub(2));
    for _ in 0..np {
        match c.weighted(&[6, 4, 3, 3, 3, 2]) {
            0 => {
                // require a module with modifiers and look at everything it binds
                let j = c.below(nm);
                let provided: Vec<String> = w.mods[j].defs.iter().filter(|d| d.provided).map(|d| d.name.clone()).collect();
                if provided.is_empty() {
                    continue;
                }
                let prefix = if c.chance(1, 2) { Some(format!("{}{}:", ["r", "s", "t"][c.below(3)], pieces.len())) } else { None };
                let only = if c.chance(1, 2) {
                    let mut sel = vec![];
                    for p in &provided {
                        if c.chance(2, 3) {
                            let newname = if c.chance(1, 2) { format!("{}-as{}", p, pieces.len()) } else { p.clone() };
                            sel.push((p.clone(), newname));
                        }
                    }
                    if sel.is_empty() {
                        sel.push((provided[0].clone(), provided[0].clone()));
                    }
                    Some(sel)
                } else {
                    None
                };
                let r = Req { module: j, only, prefix };
                let imps = imports(&w.mods, &r);
                // an import must not collide with a spelling main already uses for something else
                if imps.iter().any(|(l, t)| main_bound.get(l).map(|b| b.as_ref() != Some(t)).unwrap_or(false)) {
                    continue;
                }
                if r.only.is_some() || r.prefix.is_some() {
                    st.requires_with_modifiers += 1;
                }
                if required_once.contains(&j) {
                    st.re_requires += 1;
                }
                required_once.push(j);
                for d in &deps[j] {
                    inited[*d] = true;
                }
                let mut exprs = vec![];
                let mut vals = vec![];
                for (local, (tm, tn)) in &imps {
                    main_bound.insert(local.clone(), Some((*tm, tn.clone())));
                    let td = w.def(*tm, tn);
                    if td.contract {
                        exprs.push(format!("({} 5)", local));
                        vals.push(w.value(*tm, tn, Some(V::Int(5))));
                    } else if td.is_fn {
                        exprs.push(format!("({})", local));
                        vals.push(w.value(*tm, tn, None));
                    } else {
                        exprs.push(local.clone());
                        vals.push(w.value(*tm, tn, None));
                    }
                }
                pieces.push(Piece { src: format!("{}\n(list {})", req_text(&w.mods, &r), exprs.join(" ")), expect: Expect::Value(V::List(vals).canon()), what: "require".into() });
                // what only-in left out must not be visible
                if let Some(sel) = &r.only {
                    if let Some(left_out) = provided.iter().find(|p| !sel.iter().any(|(o, _)| o == *p)) {
                        let spelling = format!("{}{}", r.prefix.clone().unwrap_or_default(), left_out);
                        if !main_bound.contains_key(&spelling) {
                            st.unimported_probes += 1;
                            st.failing_pieces += 1;
                            pieces.push(Piece { src: spelling, expect: Expect::Error, what: "provided-but-not-selected".into() });
                        }
                    }
                }
            }
            1 => {
                // a private name of some module (own spelling and prefixed spellings) is not visible
                let j = c.below(nm);
                let privs: Vec<String> = w.mods[j].defs.iter().filter(|d| !d.provided).map(|d| d.name.clone()).collect();
                if privs.is_empty() {
                    continue;
                }
                let n = privs[c.below(privs.len())].clone();
                if main_bound.contains_key(&n) {
                    continue;
                }
                st.private_probes += 1;
                st.failing_pieces += 1;
                pieces.push(Piece { src: n, expect: Expect::Error, what: "private-name".into() });
            }
            2 => {
                // the main program defines a name that modules use privately
                let n = POOL[c.below(POOL.len())].to_string();
                if matches!(main_bound.get(&n), Some(Some(_))) {
                    continue;
                }
                if w.mods.iter().any(|m| m.defs.iter().any(|d| d.name == n)) {
                    st.main_defines_clashing += 1;
                }
                let v = V::List(vec![V::Sym("main".into()), V::Sym(n.clone()), V::Int(pieces.len() as i64)]);
                main_bound.insert(n.clone(), None);
                main_own.insert(n.clone(), v.clone());
                pieces.push(Piece { src: format!("(define {} (list 'main '{} {}))\n{}", n, n, pieces.len(), n), expect: Expect::Value(v.canon()), what: "main-define".into() });
            }
            3 => {
                // everything bound so far still means what it meant
                let mut exprs = vec![];
                let mut vals = vec![];
                for (local, b) in &main_bound {
                    match b {
                        Some((tm, tn)) => {
                            let td = w.def(*tm, tn);
                            if td.contract {
                                exprs.push(format!("({} 7)", local));
                                vals.push(w.value(*tm, tn, Some(V::Int(7))));
                            } else if td.is_fn {
                                exprs.push(format!("({})", local));
                                vals.push(w.value(*tm, tn, None));
                            } else {
                                exprs.push(local.clone());
                                vals.push(w.value(*tm, tn, None));
                            }
                        }
                        None => {
                            exprs.push(local.clone());
                            vals.push(main_own[local].clone());
                        }
                    }
                }
                if exprs.is_empty() {
                    continue;
                }
                pieces.push(Piece { src: format!("(list {})", exprs.join(" ")), expect: Expect::Value(V::List(vals).canon()), what: "observe-all".into() });
            }
            4 => {
                // a contract is enforced at the boundary
                let cands: Vec<String> = main_bound.iter().filter(|(_, b)| matches!(b, Some((tm, tn)) if w.def(*tm, tn).contract)).map(|(l, _)| l.clone()).collect();
                if cands.is_empty() {
                    continue;
                }
                st.contract_checks += 1;
                st.failing_pieces += 1;
                pieces.push(Piece { src: format!("({} 'not-an-int)", cands[c.below(cands.len())]), expect: Expect::Error, what: "contract-violation-at-boundary".into() });
            }
            _ => {
                // a typo: a piece without a require that fails at link time
                st.failing_pieces += 1;
                pieces.push(Piece { src: format!("(list 1 no-such-name-{})", pieces.len()), expect: Expect::Error, what: "free-identifier".into() });
            }
        }
    }
    let modules: Vec<(String, String)> = (0..nm).map(|i| (w.mods[i].name.clone(), w.module_text(i))).collect();
    let init_counts = (0..nm).map(|i| (w.mods[i].name.clone(), if inited[i] { 1 } else { 0 })).collect();
    Script { modules, pieces, init_counts, stats: st }
}
