//! AST-level reducer (hierarchical delta debugging) for failing programs.  Every candidate is
//! checked against the static domain rules (`domain.rs`) before it is tried, so a reduced
//! program is again a well-scoped, order-disciplined member of the property's domain.

use crate::ast::*;
use crate::domain::{children, DomainCheck};

fn map_body(b: &Body, f: &mut dyn FnMut(&Expr) -> Expr) -> Body {
    Body { defs: b.defs.iter().map(|(n, e)| (n.clone(), f(e))).collect(), exprs: b.exprs.iter().map(|e| f(e)).collect() }
}

fn map_lambda(l: &LambdaDef, f: &mut dyn FnMut(&Expr) -> Expr) -> LambdaDef {
    LambdaDef { params: l.params.clone(), opt: l.opt.iter().map(|(n, e)| (n.clone(), f(e))).collect(), rest: l.rest.clone(), body: map_body(&l.body, f) }
}

/// rebuild `e` with every direct child replaced by `f(child)` (children visited in the same
/// order as `domain::children`)
pub fn map_children(e: &Expr, f: &mut dyn FnMut(&Expr) -> Expr) -> Expr {
    let bx = |e: &Expr, f: &mut dyn FnMut(&Expr) -> Expr| Box::new(f(e));
    let seq = |v: &[Expr], f: &mut dyn FnMut(&Expr) -> Expr| v.iter().map(|e| f(e)).collect::<Vec<_>>();
    let binds = |b: &[(String, Expr)], f: &mut dyn FnMut(&Expr) -> Expr| b.iter().map(|(n, e)| (n.clone(), f(e))).collect::<Vec<_>>();
    match e {
        Expr::Lit(_) | Expr::Quote(_) | Expr::Var(_) => e.clone(),
        Expr::Set(n, r) => Expr::Set(n.clone(), bx(r, f)),
        Expr::If(a, b, c) => {
            let a2 = bx(a, f);
            let b2 = bx(b, f);
            let c2 = c.as_ref().map(|c| bx(c, f));
            Expr::If(a2, b2, c2)
        }
        Expr::Lambda(l) => Expr::Lambda(Box::new(map_lambda(l, f))),
        Expr::CaseLambda(ls) => Expr::CaseLambda(ls.iter().map(|l| LambdaDef { opt: l.opt.clone(), body: map_body(&l.body, f), ..l.clone() }).collect()),
        Expr::Let(b, bd) => {
            let b2 = binds(b, f);
            Expr::Let(b2, Box::new(map_body(bd, f)))
        }
        Expr::LetStar(b, bd) => {
            let b2 = binds(b, f);
            Expr::LetStar(b2, Box::new(map_body(bd, f)))
        }
        Expr::Letrec(b, bd) => {
            let b2 = binds(b, f);
            Expr::Letrec(b2, Box::new(map_body(bd, f)))
        }
        Expr::NamedLet(n, b, bd) => {
            let b2 = binds(b, f);
            Expr::NamedLet(n.clone(), b2, Box::new(map_body(bd, f)))
        }
        Expr::Begin(v) => Expr::Begin(seq(v, f)),
        Expr::And(v) => Expr::And(seq(v, f)),
        Expr::Or(v) => Expr::Or(seq(v, f)),
        Expr::App(g, a) => {
            let g2 = bx(g, f);
            Expr::App(g2, seq(a, f))
        }
        Expr::When(c, b) => {
            let c2 = bx(c, f);
            Expr::When(c2, seq(b, f))
        }
        Expr::Unless(c, b) => {
            let c2 = bx(c, f);
            Expr::Unless(c2, seq(b, f))
        }
        Expr::Cond(cl, els) => {
            let cl2 = cl
                .iter()
                .map(|(t, r)| {
                    let t2 = f(t);
                    let r2 = match r {
                        CondRhs::Exprs(v) => CondRhs::Exprs(seq(v, f)),
                        CondRhs::Arrow(e) => CondRhs::Arrow(f(e)),
                    };
                    (t2, r2)
                })
                .collect();
            let els2 = els.as_ref().map(|e| seq(e, f));
            Expr::Cond(cl2, els2)
        }
        Expr::Case(k, cl, els) => {
            let k2 = bx(k, f);
            let cl2 = cl.iter().map(|(d, v)| (d.clone(), seq(v, f))).collect();
            let els2 = els.as_ref().map(|e| seq(e, f));
            Expr::Case(k2, cl2, els2)
        }
        Expr::Do(vars, t, r, b) => {
            let vars2 = vars
                .iter()
                .map(|(n, i, s)| {
                    let i2 = f(i);
                    let s2 = s.as_ref().map(|s| f(s));
                    (n.clone(), i2, s2)
                })
                .collect();
            let t2 = bx(t, f);
            let r2 = seq(r, f);
            let b2 = seq(b, f);
            Expr::Do(vars2, t2, r2, b2)
        }
        Expr::CallCC(g) => Expr::CallCC(bx(g, f)),
        Expr::DynamicWind(a, b, c) => {
            let a2 = bx(a, f);
            let b2 = bx(b, f);
            let c2 = bx(c, f);
            Expr::DynamicWind(a2, b2, c2)
        }
        Expr::WithHandler(h, b) => {
            let h2 = bx(h, f);
            let b2 = bx(b, f);
            Expr::WithHandler(h2, b2)
        }
    }
}

fn count_nodes(e: &Expr) -> usize {
    1 + children(e).iter().map(|c| count_nodes(c)).sum::<usize>()
}

/// replace the node with pre-order index `target` by `repl`
fn replace_node(e: &Expr, counter: &mut usize, target: usize, repl: &Expr) -> Expr {
    let my = *counter;
    *counter += 1;
    if my == target {
        // skip the numbering of the replaced subtree
        *counter += count_nodes(e) - 1;
        return repl.clone();
    }
    if target < my {
        *counter += count_nodes(e) - 1;
        return e.clone();
    }
    map_children(e, &mut |c| replace_node(c, counter, target, repl))
}

fn node_at<'a>(e: &'a Expr, counter: &mut usize, target: usize) -> Option<&'a Expr> {
    let my = *counter;
    *counter += 1;
    if my == target {
        return Some(e);
    }
    for c in children(e) {
        if let Some(r) = node_at(c, counter, target) {
            return Some(r);
        }
    }
    None
}

fn top_expr(t: &Top) -> &Expr {
    match t {
        Top::Define(_, e) => e,
        Top::Expr(e) => e,
    }
}

fn with_top_expr(t: &Top, e: Expr) -> Top {
    match t {
        Top::Define(n, _) => Top::Define(n.clone(), e),
        Top::Expr(_) => Top::Expr(e),
    }
}

/// candidate replacements for a node, simplest first
fn candidates(e: &Expr) -> Vec<Expr> {
    let mut out: Vec<Expr> = vec![];
    match e {
        Expr::Lit(Datum::Int(0)) => {}
        Expr::Lit(_) | Expr::Quote(_) | Expr::Var(_) => out.push(int(0)),
        _ => {
            out.push(int(0));
            out.push(Expr::Quote(Datum::List(vec![])));
            out.push(boolean(true));
            for c in children(e) {
                out.push(c.clone());
            }
            // structure-preserving simplifications
            match e {
                Expr::Begin(v) if v.len() > 1 => {
                    for i in 0..v.len() {
                        let mut w = v.clone();
                        w.remove(i);
                        out.push(Expr::Begin(w));
                    }
                }
                Expr::App(f, a) if !a.is_empty() => {
                    for i in 0..a.len() {
                        let mut w = a.clone();
                        w.remove(i);
                        out.push(Expr::App(f.clone(), w));
                    }
                }
                Expr::Let(b, bd) | Expr::LetStar(b, bd) if !b.is_empty() => {
                    for i in 0..b.len() {
                        let mut w = b.clone();
                        w.remove(i);
                        out.push(if matches!(e, Expr::Let(..)) { Expr::Let(w, bd.clone()) } else { Expr::LetStar(w, bd.clone()) });
                    }
                    if bd.exprs.len() > 1 || !bd.defs.is_empty() {
                        out.push(Expr::Let(b.clone(), Box::new(Body::single(bd.exprs.last().unwrap().clone()))));
                    }
                }
                Expr::Lambda(l) => {
                    if l.body.exprs.len() > 1 || !l.body.defs.is_empty() {
                        let mut l2 = (**l).clone();
                        l2.body = Body::single(l.body.exprs.last().unwrap().clone());
                        out.push(Expr::Lambda(Box::new(l2)));
                        for i in 0..l.body.defs.len() {
                            let mut l3 = (**l).clone();
                            l3.body.defs.remove(i);
                            out.push(Expr::Lambda(Box::new(l3)));
                        }
                        for i in 0..l.body.exprs.len().saturating_sub(1) {
                            let mut l3 = (**l).clone();
                            l3.body.exprs.remove(i);
                            out.push(Expr::Lambda(Box::new(l3)));
                        }
                    }
                }
                Expr::Cond(cl, els) if cl.len() > 1 => {
                    for i in 0..cl.len() {
                        let mut w = cl.clone();
                        w.remove(i);
                        out.push(Expr::Cond(w, els.clone()));
                    }
                }
                _ => {}
            }
        }
    }
    out
}

fn acceptable(orig: &DomainCheck, cand: &Program) -> bool {
    let dc = DomainCheck::check(cand, &[]);
    let hard = |p: &String| !p.contains("impure operands");
    if dc.problems.iter().any(hard) {
        return false;
    }
    let soft_o = orig.problems.iter().filter(|p| !hard(p)).count();
    let soft_c = dc.problems.iter().filter(|p| !hard(p)).count();
    soft_c <= soft_o
}

/// Reduce `prog` while `still_fails` holds.  `budget` bounds the number of tests.
pub fn reduce(prog: &Program, budget: usize, still_fails: &mut dyn FnMut(&Program) -> bool) -> Program {
    let mut cur = prog.clone();
    let orig_dc = DomainCheck::check(prog, &[]);
    let mut tests = 0usize;
    let mut progress = true;
    while progress && tests < budget {
        progress = false;
        // 1. drop whole top-level forms
        let mut i = cur.forms.len();
        while i > 0 {
            i -= 1;
            if cur.forms.len() <= 1 {
                break;
            }
            let mut cand = cur.clone();
            cand.forms.remove(i);
            if acceptable(&orig_dc, &cand) {
                tests += 1;
                if still_fails(&cand) {
                    cur = cand;
                    progress = true;
                }
            }
            if tests >= budget {
                return cur;
            }
        }
        // 2. simplify nodes
        for fi in 0..cur.forms.len() {
            let mut idx = 0usize;
            loop {
                let e = top_expr(&cur.forms[fi]).clone();
                let total = count_nodes(&e);
                if idx >= total {
                    break;
                }
                let mut c = 0usize;
                let node = match node_at(&e, &mut c, idx) {
                    Some(n) => n.clone(),
                    None => break,
                };
                let mut replaced = false;
                for repl in candidates(&node) {
                    if repl == node {
                        continue;
                    }
                    let mut c2 = 0usize;
                    let ne = replace_node(&e, &mut c2, idx, &repl);
                    let mut cand = cur.clone();
                    cand.forms[fi] = with_top_expr(&cur.forms[fi], ne);
                    if size_program(&cand) >= size_program(&cur) {
                        continue;
                    }
                    if !acceptable(&orig_dc, &cand) {
                        continue;
                    }
                    tests += 1;
                    if still_fails(&cand) {
                        cur = cand;
                        progress = true;
                        replaced = true;
                        break;
                    }
                    if tests >= budget {
                        return cur;
                    }
                }
                if !replaced {
                    idx += 1;
                }
            }
        }
    }
    cur
}
