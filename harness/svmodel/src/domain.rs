//! Static domain check for programs (used by the AST-level reducer and as a safety net for the
//! generators): a program is *in the domain* of the program-based properties when
//!  (1) every variable reference is bound (lexically, to a global defined by an earlier or the
//!      same piece, or to a modelled primitive) — Steel rejects free identifiers statically;
//!  (2) no name is defined twice at top level of one piece, and internal definitions are not
//!      referenced by their own right-hand sides except under a lambda;
//!  (3) the evaluation-order discipline holds: in every application and parallel `let` group at
//!      most one operand is impure, and if one is, the others read no assignable variable.

use crate::ast::*;
use std::collections::BTreeSet;

pub struct DomainCheck {
    pub assigned: BTreeSet<String>,
    pub problems: Vec<String>,
    globals: BTreeSet<String>,
}

fn collect_assigned(e: &Expr, out: &mut BTreeSet<String>) {
    walk(e, &mut |x| {
        if let Expr::Set(n, _) = x {
            out.insert(n.clone());
        }
    });
}

pub fn children(e: &Expr) -> Vec<&Expr> {
    fn body<'a>(b: &'a Body, out: &mut Vec<&'a Expr>) {
        for (_, e) in &b.defs {
            out.push(e);
        }
        out.extend(b.exprs.iter());
    }
    let mut out = vec![];
    match e {
        Expr::Lit(_) | Expr::Quote(_) | Expr::Var(_) => {}
        Expr::Set(_, e) => out.push(&**e),
        Expr::If(a, b, c) => {
            out.push(&**a);
            out.push(&**b);
            if let Some(c) = c {
                out.push(&**c);
            }
        }
        Expr::Lambda(l) => {
            for (_, d) in &l.opt {
                out.push(d);
            }
            body(&l.body, &mut out)
        }
        Expr::CaseLambda(ls) => {
            for l in ls {
                body(&l.body, &mut out)
            }
        }
        Expr::Let(b, bd) | Expr::LetStar(b, bd) | Expr::Letrec(b, bd) | Expr::NamedLet(_, b, bd) => {
            for (_, e) in b {
                out.push(e);
            }
            body(bd, &mut out);
        }
        Expr::Begin(v) | Expr::And(v) | Expr::Or(v) => out.extend(v.iter()),
        Expr::App(f, a) => {
            out.push(&**f);
            out.extend(a.iter());
        }
        Expr::When(c, b) | Expr::Unless(c, b) => {
            out.push(&**c);
            out.extend(b.iter());
        }
        Expr::Cond(cl, els) => {
            for (t, r) in cl {
                out.push(t);
                match r {
                    CondRhs::Exprs(v) => out.extend(v.iter()),
                    CondRhs::Arrow(e) => out.push(e),
                }
            }
            if let Some(e) = els {
                out.extend(e.iter());
            }
        }
        Expr::Case(k, cl, els) => {
            out.push(&**k);
            for (_, v) in cl {
                out.extend(v.iter());
            }
            if let Some(e) = els {
                out.extend(e.iter());
            }
        }
        Expr::Do(vars, t, r, b) => {
            for (_, i, s) in vars {
                out.push(i);
                if let Some(s) = s {
                    out.push(s);
                }
            }
            out.push(&**t);
            out.extend(r.iter());
            out.extend(b.iter());
        }
        Expr::CallCC(f) => out.push(&**f),
        Expr::DynamicWind(a, b, c) => {
            out.push(&**a);
            out.push(&**b);
            out.push(&**c);
        }
        Expr::WithHandler(h, b) => {
            out.push(&**h);
            out.push(&**b);
        }
    }
    out
}

pub fn walk<'a>(e: &'a Expr, f: &mut dyn FnMut(&'a Expr)) {
    f(e);
    for c in children(e) {
        walk(c, f);
    }
}

const PURE_PRIMS: &[&str] = &[
    "+", "-", "*", "/", "quotient", "remainder", "modulo", "=", "<", ">", "<=", ">=", "abs", "min", "max", "gcd", "lcm", "expt", "zero?", "positive?",
    "negative?", "even?", "odd?", "number?", "integer?", "exact->inexact", "square", "cons", "car", "cdr", "list", "null?", "pair?", "list?", "length",
    "append", "reverse", "list-ref", "list-tail", "cadr", "cddr", "caar", "cdar", "first", "second", "third", "last", "assoc", "member", "assq", "assv",
    "memq", "memv", "list->vector", "vector->list", "vector", "make-vector", "vector-length", "vector?", "box", "hash", "hash-insert", "hash-ref",
    "hash-try-get", "hash-contains?", "hash-remove", "hash-length", "hash-empty?", "hash?", "string-append", "string-length", "substring", "string=?",
    "string<?", "string->symbol", "symbol->string", "string?", "symbol?", "number->string", "string->number", "string-upcase", "string-downcase",
    "string-ref", "string", "make-string", "string->list", "list->string", "char->integer", "integer->char", "char=?", "char<?", "char?", "char-upcase",
    "char-downcase", "equal?", "eqv?", "eq?", "not", "boolean?", "procedure?", "void", "#%gc-collect",
];

impl DomainCheck {
    /// `prev_globals`: names defined by earlier pieces (plus the modelled primitives are added here)
    pub fn check(p: &Program, prev_globals: &[String]) -> DomainCheck {
        let mut dc = DomainCheck { assigned: BTreeSet::new(), problems: vec![], globals: BTreeSet::new() };
        for n in crate::prims::PRIM_NAMES {
            dc.globals.insert(n.to_string());
        }
        dc.globals.insert("void".into());
        for n in prev_globals {
            dc.globals.insert(n.clone());
        }
        let mut seen = BTreeSet::new();
        for t in &p.forms {
            match t {
                Top::Define(n, e) => {
                    if !seen.insert(n.clone()) {
                        dc.problems.push(format!("{} defined twice in one piece", n));
                    }
                    dc.globals.insert(n.clone());
                    collect_assigned(e, &mut dc.assigned);
                }
                Top::Expr(e) => collect_assigned(e, &mut dc.assigned),
            }
        }
        for t in &p.forms {
            let e = match t {
                Top::Define(_, e) => e,
                Top::Expr(e) => e,
            };
            let mut scope: Vec<String> = vec![];
            dc.expr(e, &mut scope);
        }
        dc
    }

    pub fn ok(&self) -> bool {
        self.problems.is_empty()
    }

    /// conservative: true if evaluating `e` can have no side effect and does not depend on
    /// assignable state
    fn pure_(&self, e: &Expr, scope: &[String]) -> bool {
        match e {
            Expr::Lit(_) | Expr::Quote(_) => true,
            Expr::Var(n) => !self.assigned.contains(n),
            Expr::Lambda(_) | Expr::CaseLambda(_) => true, // creating a closure is pure
            Expr::If(..) | Expr::And(_) | Expr::Or(_) | Expr::When(..) | Expr::Unless(..) | Expr::Begin(_) | Expr::Cond(..) | Expr::Case(..) => {
                children(e).iter().all(|c| self.pure_(c, scope))
            }
            Expr::Let(b, body) | Expr::LetStar(b, body) => {
                b.iter().all(|(_, e)| self.pure_(e, scope)) && body.defs.is_empty() && body.exprs.iter().all(|e| self.pure_(e, scope))
            }
            Expr::App(f, args) => match &**f {
                Expr::Var(n) if PURE_PRIMS.contains(&n.as_str()) && !scope.contains(n) && !self.assigned.contains(n) => {
                    args.iter().all(|a| self.pure_(a, scope))
                }
                _ => false,
            },
            _ => false,
        }
    }

    fn group(&mut self, what: &str, operands: &[&Expr], scope: &[String]) {
        let impure = operands.iter().filter(|e| !self.pure_(e, scope)).count();
        if impure > 1 {
            self.problems.push(format!("{}: {} impure operands", what, impure));
        }
    }

    fn body(&mut self, b: &Body, scope: &mut Vec<String>) {
        let mark = scope.len();
        for (n, _) in &b.defs {
            scope.push(n.clone());
        }
        for (n, e) in &b.defs {
            // the right-hand side of an internal define may refer to the names being defined
            // only under a lambda
            if !matches!(e, Expr::Lambda(_) | Expr::CaseLambda(_)) {
                let names: Vec<&String> = b.defs.iter().map(|(n, _)| n).collect();
                let mut bad = false;
                refs_outside_lambda(e, &mut |v| {
                    if names.iter().any(|x| *x == v) {
                        bad = true;
                    }
                });
                if bad {
                    self.problems.push(format!("internal define {} refers to a sibling definition outside a lambda", n));
                }
            }
            self.expr(e, scope);
        }
        for e in &b.exprs {
            self.expr(e, scope);
        }
        scope.truncate(mark);
    }

    fn lambda(&mut self, l: &LambdaDef, scope: &mut Vec<String>) {
        let mark = scope.len();
        scope.extend(l.params.iter().cloned());
        for (n, d) in &l.opt {
            if !matches!(d, Expr::Lit(_) | Expr::Quote(_)) {
                self.problems.push("optional default is not a literal".into());
            }
            scope.push(n.clone());
        }
        if let Some(r) = &l.rest {
            scope.push(r.clone());
        }
        self.body(&l.body, scope);
        scope.truncate(mark);
    }

    fn expr(&mut self, e: &Expr, scope: &mut Vec<String>) {
        match e {
            Expr::Lit(_) | Expr::Quote(_) => {}
            Expr::Var(n) => {
                if !scope.contains(n) && !self.globals.contains(n) {
                    self.problems.push(format!("free identifier {}", n));
                }
            }
            Expr::Set(n, rhs) => {
                if !scope.contains(n) && !self.globals.contains(n) {
                    self.problems.push(format!("set! of free identifier {}", n));
                }
                if !scope.contains(n) && crate::prims::PRIM_NAMES.contains(&n.as_str()) {
                    self.problems.push(format!("set! of primitive {}", n));
                }
                self.expr(rhs, scope);
            }
            Expr::Lambda(l) => self.lambda(l, scope),
            Expr::CaseLambda(ls) => {
                for l in ls {
                    self.lambda(l, scope)
                }
            }
            Expr::Let(b, body) => {
                let ops: Vec<&Expr> = b.iter().map(|(_, e)| e).collect();
                self.group("let", &ops, scope);
                for (_, e) in b {
                    self.expr(e, scope);
                }
                let mark = scope.len();
                scope.extend(b.iter().map(|(n, _)| n.clone()));
                self.body(body, scope);
                scope.truncate(mark);
            }
            Expr::NamedLet(name, b, body) => {
                let ops: Vec<&Expr> = b.iter().map(|(_, e)| e).collect();
                self.group("named let", &ops, scope);
                for (_, e) in b {
                    self.expr(e, scope);
                }
                let mark = scope.len();
                scope.push(name.clone());
                scope.extend(b.iter().map(|(n, _)| n.clone()));
                self.body(body, scope);
                scope.truncate(mark);
            }
            Expr::LetStar(b, body) => {
                let mark = scope.len();
                for (n, e) in b {
                    self.expr(e, scope);
                    scope.push(n.clone());
                }
                self.body(body, scope);
                scope.truncate(mark);
            }
            Expr::Letrec(b, body) => {
                let mark = scope.len();
                scope.extend(b.iter().map(|(n, _)| n.clone()));
                for (n, e) in b {
                    if !matches!(e, Expr::Lambda(_) | Expr::CaseLambda(_)) {
                        self.problems.push(format!("letrec binding {} is not a lambda", n));
                    }
                    self.expr(e, scope);
                }
                self.body(body, scope);
                scope.truncate(mark);
            }
            Expr::App(f, args) => {
                let mut ops: Vec<&Expr> = vec![&**f];
                ops.extend(args.iter());
                self.group("application", &ops, scope);
                self.expr(f, scope);
                for a in args {
                    self.expr(a, scope);
                }
            }
            Expr::Do(vars, t, r, b) => {
                let ops: Vec<&Expr> = vars.iter().map(|(_, i, _)| i).collect();
                self.group("do inits", &ops, scope);
                for (_, i, _) in vars {
                    self.expr(i, scope);
                }
                let mark = scope.len();
                scope.extend(vars.iter().map(|(n, _, _)| n.clone()));
                let steps: Vec<&Expr> = vars.iter().filter_map(|(_, _, s)| s.as_ref()).collect();
                self.group("do steps", &steps, scope);
                for s in steps {
                    self.expr(s, scope);
                }
                self.expr(t, scope);
                for e in r.iter().chain(b.iter()) {
                    self.expr(e, scope);
                }
                scope.truncate(mark);
            }
            Expr::DynamicWind(a, b, c) => {
                for t in [a, b, c] {
                    if !matches!(&**t, Expr::Lambda(_) | Expr::Var(_)) {
                        self.problems.push("a dynamic-wind thunk that is not a lambda expression or a variable".to_string());
                    }
                }
                self.group("dynamic-wind", &[&**a, &**b, &**c], scope);
                self.expr(a, scope);
                self.expr(b, scope);
                self.expr(c, scope);
            }
            Expr::If(t, _, _) if matches!(&**t, Expr::Var(n) if !scope.contains(n) && crate::prims::PRIM_NAMES.contains(&n.as_str())) => {
                // (if car a b): a builtin procedure as the test is something only the reducer writes; the generators
                // never do, and it leads reductions away from the failure they started from
                self.problems.push("a builtin procedure used as the test of an if".to_string());
                for c in children(e) {
                    self.expr(c, scope);
                }
            }
            Expr::WithHandler(h, b) => {
                // Steel looks at the handler when an error arrives, another reading checks it when it is installed:
                // only handlers that are procedures by construction are in the domain
                if !matches!(&**h, Expr::Lambda(_) | Expr::Var(_)) {
                    self.problems.push("an exception handler that is not a lambda expression or a variable".to_string());
                }
                self.expr(h, scope);
                self.expr(b, scope);
            }
            Expr::CallCC(f) => {
                if !matches!(&**f, Expr::Lambda(_) | Expr::Var(_)) {
                    self.problems.push("a call/cc receiver that is not a lambda expression or a variable".to_string());
                }
                self.expr(f, scope);
            }
            _ => {
                for c in children(e) {
                    self.expr(c, scope);
                }
            }
        }
    }
}

/// variable references of `e` that are not under a lambda
fn refs_outside_lambda(e: &Expr, f: &mut dyn FnMut(&String)) {
    match e {
        Expr::Lambda(_) | Expr::CaseLambda(_) => {}
        Expr::Var(n) => f(n),
        Expr::Set(n, rhs) => {
            f(n);
            refs_outside_lambda(rhs, f)
        }
        e => {
            for c in children(e) {
                refs_outside_lambda(c, f);
            }
        }
    }
}

pub fn in_domain(p: &Program) -> bool {
    DomainCheck::check(p, &[]).ok()
}
