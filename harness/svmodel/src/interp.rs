//! RefScheme: a direct CEK-style reference interpreter.  Heap allocated continuations make
//! proper tail calls, re-entrant first class continuations, dynamic-wind (common-ancestor
//! rewinding), `with-handler` and errors direct.  No optimisation of any kind.

use crate::ast::*;

use crate::prims;
use crate::vals::*;
use std::cell::RefCell;
use std::collections::BTreeMap;
use std::rc::Rc;

pub type Kont<'a> = Option<Rc<KFrame<'a>>>;

pub struct KFrame<'a> {
    pub k: K<'a>,
    pub next: Kont<'a>,
}

pub enum Final<'a> {
    /// deliver the value to the target continuation
    Return(Val<'a>, Kont<'a>),
    /// call the handler with the payload, continuing at target
    CallHandler(Val<'a>, Val<'a>, Kont<'a>),
    /// finish the evaluation with an uncaught error
    Uncaught(Val<'a>),
}

#[derive(Clone, Copy, PartialEq)]
pub enum MapKind {
    Map,
    ForEach,
    Filter,
}

pub enum K<'a> {
    If(&'a Expr, Option<&'a Expr>, Env<'a>),
    Seq(&'a [Expr], usize, Env<'a>),
    Operator(&'a [Expr], Env<'a>),
    Args { f: Val<'a>, done: Vec<Val<'a>>, args: &'a [Expr], idx: usize, env: Env<'a> },
    Set(Loc<'a>),
    LetInit { binds: &'a [(String, Expr)], idx: usize, done: Vec<Val<'a>>, body: &'a Body, env: Env<'a>, named: Option<&'a str> },
    LetStarInit { binds: &'a [(String, Expr)], idx: usize, body: &'a Body, env: Env<'a> },
    LetrecInit { binds: &'a [(String, Expr)], idx: usize, body: &'a Body, env: Env<'a> },
    BodyDefs { body: &'a Body, idx: usize, env: Env<'a> },
    And(&'a [Expr], usize, Env<'a>),
    Or(&'a [Expr], usize, Env<'a>),
    CondTest { clauses: &'a [(Expr, CondRhs)], idx: usize, els: &'a Option<Vec<Expr>>, env: Env<'a> },
    CondArrow(Val<'a>),
    WhenBodyK(&'a [Expr], bool, Env<'a>),
    DynWindArgsK(&'a Expr, usize, Vec<Val<'a>>, Env<'a>),
    CaseKey { clauses: &'a [(Vec<Datum>, Vec<Expr>)], els: &'a Option<Vec<Expr>>, env: Env<'a> },
    DoInit { e: &'a Expr, idx: usize, done: Vec<Val<'a>>, env: Env<'a> },
    DoTest { e: &'a Expr, env: Env<'a> },
    DoBody { e: &'a Expr, env: Env<'a> },
    DoStep { e: &'a Expr, idx: usize, done: Vec<Option<Val<'a>>>, env: Env<'a> },
    /// `with-handler`: handler value evaluated, body runs above this frame
    HandlerEval(&'a Expr, Env<'a>),
    Handler(Val<'a>),
    Wind { before: Val<'a>, after: Val<'a> },
    WindEnter { thunk: Val<'a>, before: Val<'a>, after: Val<'a> },
    AfterThenRet(Val<'a>),
    Rewind { steps: Rc<Vec<(Val<'a>, Kont<'a>)>>, idx: usize, fin: Rc<Final<'a>> },
    Map { f: Val<'a>, lists: Rc<Vec<Vec<Val<'a>>>>, i: usize, done: Vec<Val<'a>>, kind: MapKind },
    Fold { f: Val<'a>, items: Rc<Vec<Val<'a>>>, i: usize, left: bool },
    /// transparent marker: the callee was entered through `apply` (statistics only)
    ApplyMark,
}

enum Ctrl<'a> {
    Eval(&'a Expr, Env<'a>),
    Ret(Val<'a>),
    Raise(Val<'a>),
    Apply(Val<'a>, Vec<Val<'a>>),
}

#[derive(Debug, Clone, PartialEq)]
pub enum PieceOutcome {
    Ok,
    Err(String),
    /// ran out of fuel: the generator produced something it should not have
    OutOfFuel,
}

#[derive(Debug, Clone)]
pub struct PieceResult {
    pub outcome: PieceOutcome,
    /// canonical renderings of the values of the top-level expressions (defines excluded)
    pub values: Vec<String>,
    pub stdout: String,
    pub steps: u64,
    /// printed a value whose printed form is not modelled
    pub unmodelled_print: bool,
}

pub struct Interp<'a> {
    pub globals: Rc<BTreeMap<String, Loc<'a>>>,
    pub stdout: String,
    pub fuel: u64,
    pub steps: u64,
    pub trace: BTreeMap<&'static str, u64>,
    pub unmodelled_print: bool,
}

pub fn err<'a>(kind: &str) -> Val<'a> {
    Val::ErrObj(Rc::from(kind))
}

fn push<'a>(k: K<'a>, next: &Kont<'a>) -> Kont<'a> {
    Some(Rc::new(KFrame { k, next: next.clone() }))
}

fn new_frame<'a>(parent: &Env<'a>) -> Env<'a> {
    Rc::new(Frame { vars: RefCell::new(vec![]), globals: None, parent: Some(parent.clone()) })
}

fn bind<'a>(env: &Env<'a>, name: &'a str, v: Option<Val<'a>>) -> Loc<'a> {
    let loc = Rc::new(RefCell::new(v));
    env.vars.borrow_mut().push((name, loc.clone()));
    loc
}

fn lookup<'a>(env: &Env<'a>, name: &str) -> Option<Loc<'a>> {
    let mut cur = Some(env.clone());
    while let Some(f) = cur {
        {
            let vars = f.vars.borrow();
            // later bindings in the same frame shadow earlier ones (let*-style extension)
            for (n, l) in vars.iter().rev() {
                if *n == name {
                    return Some(l.clone());
                }
            }
        }
        if let Some(g) = &f.globals {
            return g.get(name).cloned();
        }
        cur = f.parent.clone();
    }
    None
}

/// Wind frames of a continuation, outermost first.
fn winds<'a>(k: &Kont<'a>) -> Vec<Rc<KFrame<'a>>> {
    let mut out = vec![];
    let mut cur = k.clone();
    while let Some(f) = cur {
        if let K::Wind { .. } = f.k {
            out.push(f.clone());
        }
        cur = f.next.clone();
    }
    out.reverse();
    out
}

impl<'a> Interp<'a> {
    pub fn new() -> Interp<'a> {
        let mut g: BTreeMap<String, Loc<'a>> = BTreeMap::new();
        for name in prims::PRIM_NAMES {
            g.insert(name.to_string(), Rc::new(RefCell::new(Some(Val::Prim(name)))));
        }
        // Steel: `void` is the void value itself, not a procedure
        g.insert("void".to_string(), Rc::new(RefCell::new(Some(Val::Void))));
        Interp { globals: Rc::new(g), stdout: String::new(), fuel: 3_000_000, steps: 0, trace: BTreeMap::new(), unmodelled_print: false }
    }

    pub fn note(&mut self, what: &'static str) {
        *self.trace.entry(what).or_insert(0) += 1;
    }

    /// Evaluate one piece (what `Engine::run` receives as one text).
    pub fn run_piece(&mut self, prog: &'a Program) -> PieceResult {
        let start_out = self.stdout.len();
        self.unmodelled_print = false;
        // Definitions of this piece create fresh locations; every reference compiled in this
        // piece resolves against previous globals + these (forward references included).
        let mut g = (*self.globals).clone();
        for t in &prog.forms {
            if let Top::Define(n, _) = t {
                g.insert(n.clone(), Rc::new(RefCell::new(None)));
            }
        }
        let g = Rc::new(g);
        let root: Env<'a> = Rc::new(Frame { vars: RefCell::new(vec![]), globals: Some(g.clone()), parent: None });
        let mut values = vec![];
        let mut outcome = PieceOutcome::Ok;
        // definitions completed before a failure stay; so we publish the new global map
        // up front and leave unexecuted definitions unassigned (never referenced by the
        // generators after a failing piece).
        self.globals = g.clone();
        for t in &prog.forms {
            let r = match t {
                Top::Define(n, e) => {
                    let loc = g.get(n).unwrap().clone();
                    self.eval_top(e, &root).map(|v| {
                        *loc.borrow_mut() = Some(v);
                        None
                    })
                }
                Top::Expr(e) => self.eval_top(e, &root).map(Some),
            };
            match r {
                Ok(Some(v)) => values.push(canon(&v)),
                Ok(None) => {}
                Err(o) => {
                    outcome = o;
                    break;
                }
            }
        }
        PieceResult {
            outcome,
            values,
            stdout: self.stdout[start_out..].to_string(),
            steps: self.steps,
            unmodelled_print: self.unmodelled_print,
        }
    }

    fn eval_top(&mut self, e: &'a Expr, env: &Env<'a>) -> Result<Val<'a>, PieceOutcome> {
        let mut ctrl = Ctrl::Eval(e, env.clone());
        let mut kont: Kont<'a> = None;
        loop {
            self.steps += 1;
            if self.steps > self.fuel {
                return Err(PieceOutcome::OutOfFuel);
            }
            ctrl = match ctrl {
                Ctrl::Eval(e, env) => self.step_eval(e, env, &mut kont),
                Ctrl::Apply(f, args) => self.apply(f, args, &mut kont),
                Ctrl::Raise(payload) => {
                    if let Val::ErrObj(k) = &payload {
                        if &**k == "OutOfFuel" {
                            return Err(PieceOutcome::OutOfFuel);
                        }
                    }
                    // find the nearest handler, run the `after` thunks of the extents left
                    self.note("raise");
                    let mut steps: Vec<(Val<'a>, Kont<'a>)> = vec![];
                    let mut cur = kont.clone();
                    let mut handler: Option<(Val<'a>, Kont<'a>)> = None;
                    let mut under_hof = false;
                    while let Some(f) = cur {
                        match &f.k {
                            K::Handler(h) => {
                                handler = Some((h.clone(), f.next.clone()));
                                break;
                            }
                            K::Wind { after, .. } => {
                                under_hof = true;
                                steps.push((after.clone(), f.next.clone()))
                            }
                            K::Map { .. } | K::Fold { .. } | K::ApplyMark => under_hof = true,
                            _ => {}
                        }
                        cur = f.next.clone();
                    }
                    // the error crosses a builtin that called back into script code: a
                    // higher-order builtin, or with-handler (whose body is a thunk run by a builtin)
                    if under_hof || handler.is_some() {
                        self.note("raise-under-higher-order-builtin");
                    }
                    if !steps.is_empty() {
                        self.note("raise-crosses-wind");
                    }
                    let fin = match handler {
                        Some((h, target)) => {
                            self.note("handler-invoked");
                            Final::CallHandler(h, payload, target)
                        }
                        None => Final::Uncaught(payload),
                    };
                    kont = push(K::Rewind { steps: Rc::new(steps), idx: 0, fin: Rc::new(fin) }, &None);
                    Ctrl::Ret(Val::Void)
                }
                Ctrl::Ret(v) => {
                    let Some(frame) = kont.clone() else {
                        return Ok(v);
                    };
                    kont = frame.next.clone();
                    match self.step_ret(v, &frame, &mut kont) {
                        Ok(c) => c,
                        Err(o) => return Err(o),
                    }
                }
            };
        }
    }

    fn seq(&mut self, exprs: &'a [Expr], idx: usize, env: Env<'a>, kont: &mut Kont<'a>) -> Ctrl<'a> {
        if exprs.is_empty() {
            return Ctrl::Ret(Val::Void);
        }
        if idx + 1 < exprs.len() {
            *kont = push(K::Seq(exprs, idx + 1, env.clone()), kont);
        }
        Ctrl::Eval(&exprs[idx], env)
    }

    fn body(&mut self, body: &'a Body, env: Env<'a>, kont: &mut Kont<'a>) -> Ctrl<'a> {
        if body.defs.is_empty() {
            return self.seq(&body.exprs, 0, env, kont);
        }
        // letrec*: all names bound (unassigned) first
        for (n, _) in &body.defs {
            bind(&env, n.as_str(), None);
        }
        *kont = push(K::BodyDefs { body, idx: 0, env: env.clone() }, kont);
        Ctrl::Eval(&body.defs[0].1, env)
    }

    fn step_eval(&mut self, e: &'a Expr, env: Env<'a>, kont: &mut Kont<'a>) -> Ctrl<'a> {
        match e {
            Expr::Lit(d) | Expr::Quote(d) => Ctrl::Ret(Val::from_datum(d)),
            Expr::Var(name) => match lookup(&env, name) {
                Some(loc) => match &*loc.borrow() {
                    Some(v) => Ctrl::Ret(v.clone()),
                    None => Ctrl::Raise(err("FreeIdentifier")),
                },
                None => Ctrl::Raise(err("FreeIdentifier")),
            },
            Expr::Set(name, rhs) => match lookup(&env, name) {
                Some(loc) => {
                    *kont = push(K::Set(loc), kont);
                    Ctrl::Eval(rhs, env)
                }
                None => Ctrl::Raise(err("FreeIdentifier")),
            },
            Expr::If(c, t, f) => {
                *kont = push(K::If(t, f.as_deref(), env.clone()), kont);
                Ctrl::Eval(c, env)
            }
            Expr::Lambda(def) => Ctrl::Ret(Val::Closure(Rc::new(Closure { def, env }))),
            Expr::CaseLambda(defs) => {
                Ctrl::Ret(Val::CaseClosure(Rc::new(defs.iter().map(|def| Closure { def, env: env.clone() }).collect())))
            }
            Expr::Let(binds, body) => {
                if binds.is_empty() {
                    let ne = new_frame(&env);
                    return self.body(body, ne, kont);
                }
                *kont = push(K::LetInit { binds, idx: 0, done: vec![], body, env: env.clone(), named: None }, kont);
                Ctrl::Eval(&binds[0].1, env)
            }
            Expr::NamedLet(name, binds, body) => {
                if binds.is_empty() {
                    return self.named_let_enter(name, binds, vec![], body, &env, kont);
                }
                *kont = push(K::LetInit { binds, idx: 0, done: vec![], body, env: env.clone(), named: Some(name.as_str()) }, kont);
                Ctrl::Eval(&binds[0].1, env)
            }
            Expr::LetStar(binds, body) => {
                let ne = new_frame(&env);
                if binds.is_empty() {
                    return self.body(body, ne, kont);
                }
                *kont = push(K::LetStarInit { binds, idx: 0, body, env: ne.clone() }, kont);
                Ctrl::Eval(&binds[0].1, ne)
            }
            Expr::Letrec(binds, body) => {
                let ne = new_frame(&env);
                for (n, _) in binds.iter() {
                    bind(&ne, n.as_str(), None);
                }
                if binds.is_empty() {
                    return self.body(body, ne, kont);
                }
                *kont = push(K::LetrecInit { binds, idx: 0, body, env: ne.clone() }, kont);
                Ctrl::Eval(&binds[0].1, ne)
            }
            Expr::Begin(v) => self.seq(v, 0, env, kont),
            Expr::App(f, args) => {
                *kont = push(K::Operator(args, env.clone()), kont);
                Ctrl::Eval(f, env)
            }
            Expr::And(v) => {
                if v.is_empty() {
                    return Ctrl::Ret(Val::Bool(true));
                }
                if v.len() > 1 {
                    *kont = push(K::And(v, 1, env.clone()), kont);
                }
                Ctrl::Eval(&v[0], env)
            }
            Expr::Or(v) => {
                if v.is_empty() {
                    return Ctrl::Ret(Val::Bool(false));
                }
                if v.len() > 1 {
                    *kont = push(K::Or(v, 1, env.clone()), kont);
                }
                Ctrl::Eval(&v[0], env)
            }
            Expr::When(c, b) => {
                *kont = push(K::WhenBodyK(b, true, env.clone()), kont);
                Ctrl::Eval(c, env)
            }
            Expr::Unless(c, b) => {
                *kont = push(K::WhenBodyK(b, false, env.clone()), kont);
                Ctrl::Eval(c, env)
            }
            Expr::Cond(clauses, els) => {
                if clauses.is_empty() {
                    return match els {
                        Some(e) => self.seq(e, 0, env, kont),
                        None => Ctrl::Ret(Val::Void),
                    };
                }
                *kont = push(K::CondTest { clauses, idx: 0, els, env: env.clone() }, kont);
                Ctrl::Eval(&clauses[0].0, env)
            }
            Expr::Case(key, clauses, els) => {
                *kont = push(K::CaseKey { clauses, els, env: env.clone() }, kont);
                Ctrl::Eval(key, env)
            }
            Expr::Do(vars, ..) => {
                if vars.is_empty() {
                    let ne = new_frame(&env);
                    return self.do_test(e, ne, kont);
                }
                *kont = push(K::DoInit { e, idx: 0, done: vec![], env: env.clone() }, kont);
                Ctrl::Eval(&vars[0].1, env)
            }
            Expr::CallCC(f) => {
                *kont = push(K::Args { f: Val::Prim("call/cc"), done: vec![], args: std::slice::from_ref(&**f), idx: 0, env: env.clone() }, kont);
                Ctrl::Eval(f, env)
            }
            Expr::DynamicWind(a, b, c) => {
                // three operands, evaluated left to right
                let _ = (b, c);
                *kont = push(K::DynWindArgsK(e, 0, vec![], env.clone()), kont);
                Ctrl::Eval(a, env)
            }
            Expr::WithHandler(h, b) => {
                *kont = push(K::HandlerEval(b, env.clone()), kont);
                Ctrl::Eval(h, env)
            }
        }
    }

    fn do_test(&mut self, e: &'a Expr, env: Env<'a>, kont: &mut Kont<'a>) -> Ctrl<'a> {
        let Expr::Do(_, test, ..) = e else { unreachable!() };
        *kont = push(K::DoTest { e, env: env.clone() }, kont);
        Ctrl::Eval(test, env)
    }

    fn named_let_enter(
        &mut self,
        name: &'a str,
        binds: &'a [(String, Expr)],
        vals: Vec<Val<'a>>,
        body: &'a Body,
        env: &Env<'a>,
        kont: &mut Kont<'a>,
    ) -> Ctrl<'a> {
        // (letrec ((name (lambda (vars...) body))) (name inits...)); the lambda is synthesised
        // as a NamedLoop closure value bound in a fresh frame.
        let loop_env = new_frame(env);
        let clo = Val::NamedLoop(Rc::new(NamedLoop { binds, body, env: loop_env.clone() }));
        bind(&loop_env, name, Some(clo.clone()));
        let _ = kont;
        Ctrl::Apply(clo, vals)
    }

    fn apply_closure(&mut self, c: &Closure<'a>, args: Vec<Val<'a>>, kont: &mut Kont<'a>) -> Ctrl<'a> {
        let def = c.def;
        let nreq = def.params.len();
        let nopt = def.opt.len();
        if args.len() < nreq || (def.rest.is_none() && args.len() > nreq + nopt) {
            return Ctrl::Raise(err("ArityMismatch"));
        }
        let env = new_frame(&c.env);
        let mut it = args.into_iter();
        for p in &def.params {
            bind(&env, p.as_str(), Some(it.next().unwrap()));
        }
        for (p, d) in &def.opt {
            match it.next() {
                Some(v) => {
                    bind(&env, p.as_str(), Some(v));
                }
                None => {
                    self.note("optional-default-used");
                    // defaults are literals (generator invariant)
                    let v = match d {
                        Expr::Lit(d) | Expr::Quote(d) => Val::from_datum(d),
                        _ => Val::Void,
                    };
                    bind(&env, p.as_str(), Some(v));
                }
            }
        }
        if let Some(r) = &def.rest {
            self.note("rest-args-call");
            let rest: Vec<Val<'a>> = it.collect();
            bind(&env, r.as_str(), Some(Val::list(rest)));
        }
        self.note("closure-call");
        self.body(&def.body, env, kont)
    }

    fn apply(&mut self, f: Val<'a>, args: Vec<Val<'a>>, kont: &mut Kont<'a>) -> Ctrl<'a> {
        match f {
            Val::Closure(c) => self.apply_closure(&c, args, kont),
            Val::CaseClosure(cs) => {
                for c in cs.iter() {
                    let n = c.def.params.len();
                    if args.len() == n || (c.def.rest.is_some() && args.len() >= n) {
                        return self.apply_closure(c, args, kont);
                    }
                }
                Ctrl::Raise(err("ArityMismatch"))
            }
            Val::NamedLoop(nl) => {
                if args.len() != nl.binds.len() {
                    return Ctrl::Raise(err("ArityMismatch"));
                }
                let env = new_frame(&nl.env);
                for ((n, _), v) in nl.binds.iter().zip(args.into_iter()) {
                    bind(&env, n.as_str(), Some(v));
                }
                self.note("named-let-iteration");
                self.body(nl.body, env, kont)
            }
            Val::Cont(target) => {
                if args.len() != 1 {
                    return Ctrl::Raise(err("ArityMismatch"));
                }
                self.note("continuation-invoked");
                let v = args.into_iter().next().unwrap();
                // common ancestor rewinding
                let from = winds(kont);
                let to = winds(&target);
                let mut common = 0;
                while common < from.len() && common < to.len() && Rc::ptr_eq(&from[common], &to[common]) {
                    common += 1;
                }
                let mut steps: Vec<(Val<'a>, Kont<'a>)> = vec![];
                for w in from[common..].iter().rev() {
                    if let K::Wind { after, .. } = &w.k {
                        steps.push((after.clone(), w.next.clone()));
                    }
                }
                for w in to[common..].iter() {
                    if let K::Wind { before, .. } = &w.k {
                        steps.push((before.clone(), w.next.clone()));
                    }
                }
                if !steps.is_empty() {
                    self.note("continuation-crosses-wind");
                }
                // re-entry: the target is not a suffix of the current continuation
                let mut cur = kont.clone();
                let mut is_escape = false;
                loop {
                    match (&cur, &target) {
                        (None, None) => {
                            is_escape = true;
                            break;
                        }
                        (Some(a), Some(b)) if Rc::ptr_eq(a, b) => {
                            is_escape = true;
                            break;
                        }
                        (Some(a), _) => cur = a.next.clone(),
                        (None, _) => break,
                    }
                }
                if !is_escape {
                    self.note("continuation-reentered");
                }
                *kont = push(K::Rewind { steps: Rc::new(steps), idx: 0, fin: Rc::new(Final::Return(v, target)) }, &None);
                Ctrl::Ret(Val::Void)
            }
            Val::Prim(name) => self.apply_prim(name, args, kont),
            _ => Ctrl::Raise(err("NotAProcedure")),
        }
    }

    fn apply_prim(&mut self, name: &'static str, mut args: Vec<Val<'a>>, kont: &mut Kont<'a>) -> Ctrl<'a> {
        match name {
            "call/cc" | "call-with-current-continuation" => {
                if args.len() != 1 {
                    return Ctrl::Raise(err("ArityMismatch"));
                }
                self.note("callcc");
                let k = Val::Cont(kont.clone());
                // the receiver is script code called back by a builtin (statistics marker)
                *kont = push(K::ApplyMark, kont);
                Ctrl::Apply(args.pop().unwrap(), vec![k])
            }
            "dynamic-wind" => {
                if args.len() != 3 {
                    return Ctrl::Raise(err("ArityMismatch"));
                }
                self.note("dynamic-wind");
                let after = args.pop().unwrap();
                let thunk = args.pop().unwrap();
                let before = args.pop().unwrap();
                *kont = push(K::WindEnter { thunk, before: before.clone(), after }, kont);
                Ctrl::Apply(before, vec![])
            }
            "apply" => {
                if args.len() < 2 {
                    return Ctrl::Raise(err("ArityMismatch"));
                }
                let last = args.pop().unwrap();
                let Some(tail) = last.list_to_vec() else { return Ctrl::Raise(err("TypeMismatch")) };
                let f = args.remove(0);
                args.extend(tail);
                if matches!(f, Val::Closure(_) | Val::CaseClosure(_)) {
                    *kont = push(K::ApplyMark, kont);
                }
                Ctrl::Apply(f, args)
            }
            "map" | "for-each" | "filter" => {
                let kind = match name {
                    "map" => MapKind::Map,
                    "for-each" => MapKind::ForEach,
                    _ => MapKind::Filter,
                };
                if args.len() < 2 || (kind == MapKind::Filter && args.len() != 2) {
                    return Ctrl::Raise(err("ArityMismatch"));
                }
                let f = args.remove(0);
                let mut lists = vec![];
                for a in &args {
                    match a.list_to_vec() {
                        Some(v) => lists.push(v),
                        None => return Ctrl::Raise(err("TypeMismatch")),
                    }
                }
                if !f.is_procedure() {
                    return Ctrl::Raise(err("TypeMismatch"));
                }
                let n = lists.iter().map(|l| l.len()).min().unwrap_or(0);
                let lists: Vec<Vec<Val<'a>>> = lists.into_iter().map(|mut l| {
                    l.truncate(n);
                    l
                }).collect();
                self.map_step(f, Rc::new(lists), 0, vec![], kind, kont)
            }
            "foldl" | "foldr" => {
                if args.len() != 3 {
                    return Ctrl::Raise(err("ArityMismatch"));
                }
                let lst = args.pop().unwrap();
                let init = args.pop().unwrap();
                let f = args.pop().unwrap();
                let Some(mut items) = lst.list_to_vec() else { return Ctrl::Raise(err("TypeMismatch")) };
                let left = name == "foldl";
                if !left {
                    items.reverse();
                }
                self.fold_step(f, Rc::new(items), 0, left, init, kont)
            }
            "error" => {
                self.note("error-called");
                Ctrl::Raise(err("Generic"))
            }
            _ => match prims::call(self, name, args) {
                Ok(v) => Ctrl::Ret(v),
                Err(e) => Ctrl::Raise(e),
            },
        }
    }

    fn map_step(
        &mut self,
        f: Val<'a>,
        lists: Rc<Vec<Vec<Val<'a>>>>,
        i: usize,
        done: Vec<Val<'a>>,
        kind: MapKind,
        kont: &mut Kont<'a>,
    ) -> Ctrl<'a> {
        let n = lists.first().map(|l| l.len()).unwrap_or(0);
        if i >= n {
            return Ctrl::Ret(match kind {
                MapKind::Map | MapKind::Filter => Val::list(done),
                MapKind::ForEach => Val::Void,
            });
        }
        let args: Vec<Val<'a>> = lists.iter().map(|l| l[i].clone()).collect();
        *kont = push(K::Map { f: f.clone(), lists, i, done, kind }, kont);
        Ctrl::Apply(f, args)
    }

    fn fold_step(&mut self, f: Val<'a>, items: Rc<Vec<Val<'a>>>, i: usize, left: bool, acc: Val<'a>, kont: &mut Kont<'a>) -> Ctrl<'a> {
        if i >= items.len() {
            return Ctrl::Ret(acc);
        }
        let x = items[i].clone();
        *kont = push(K::Fold { f: f.clone(), items, i, left }, kont);
        Ctrl::Apply(f, vec![x, acc])
    }

    fn step_ret(&mut self, v: Val<'a>, frame: &Rc<KFrame<'a>>, kont: &mut Kont<'a>) -> Result<Ctrl<'a>, PieceOutcome> {
        Ok(match &frame.k {
            K::If(t, f, env) => {
                if v.truthy() {
                    Ctrl::Eval(t, env.clone())
                } else {
                    match f {
                        Some(f) => Ctrl::Eval(f, env.clone()),
                        None => Ctrl::Ret(Val::Void),
                    }
                }
            }
            K::Seq(exprs, idx, env) => self.seq(exprs, *idx, env.clone(), kont),
            K::Operator(args, env) => {
                if args.is_empty() {
                    Ctrl::Apply(v, vec![])
                } else {
                    *kont = push(K::Args { f: v, done: vec![], args, idx: 0, env: env.clone() }, kont);
                    Ctrl::Eval(&args[0], env.clone())
                }
            }
            K::Args { f, done, args, idx, env } => {
                let mut done = done.clone();
                done.push(v);
                if idx + 1 < args.len() {
                    *kont = push(K::Args { f: f.clone(), done, args, idx: idx + 1, env: env.clone() }, kont);
                    Ctrl::Eval(&args[idx + 1], env.clone())
                } else {
                    Ctrl::Apply(f.clone(), done)
                }
            }
            K::Set(loc) => {
                // Steel: set! returns the previous value
                let old = loc.borrow_mut().replace(v);
                self.note("set!");
                Ctrl::Ret(old.unwrap_or(Val::Void))
            }
            K::LetInit { binds, idx, done, body, env, named } => {
                let mut done = done.clone();
                done.push(v);
                if idx + 1 < binds.len() {
                    *kont = push(K::LetInit { binds, idx: idx + 1, done, body, env: env.clone(), named: *named }, kont);
                    Ctrl::Eval(&binds[idx + 1].1, env.clone())
                } else {
                    match named {
                        Some(name) => return Ok(self.named_let_enter(name, binds, done, body, env, kont)),
                        None => {
                            let ne = new_frame(env);
                            for ((n, _), v) in binds.iter().zip(done.into_iter()) {
                                bind(&ne, n.as_str(), Some(v));
                            }
                            self.body(body, ne, kont)
                        }
                    }
                }
            }
            K::LetStarInit { binds, idx, body, env } => {
                // each binding extends the scope: a fresh frame per binding keeps closures
                // captured by earlier inits from seeing later names
                let ne = new_frame(env);
                bind(&ne, binds[*idx].0.as_str(), Some(v));
                if idx + 1 < binds.len() {
                    *kont = push(K::LetStarInit { binds, idx: idx + 1, body, env: ne.clone() }, kont);
                    Ctrl::Eval(&binds[idx + 1].1, ne)
                } else {
                    self.body(body, ne, kont)
                }
            }
            K::LetrecInit { binds, idx, body, env } => {
                let loc = lookup(env, &binds[*idx].0).unwrap();
                *loc.borrow_mut() = Some(v);
                if idx + 1 < binds.len() {
                    *kont = push(K::LetrecInit { binds, idx: idx + 1, body, env: env.clone() }, kont);
                    Ctrl::Eval(&binds[idx + 1].1, env.clone())
                } else {
                    let ne = new_frame(env);
                    self.body(body, ne, kont)
                }
            }
            K::BodyDefs { body, idx, env } => {
                // assign the idx-th internal definition (the most recent binding of that name)
                let name = body.defs[*idx].0.as_str();
                {
                    let vars = env.vars.borrow();
                    // the idx-th def's location: defs were bound in order at frame entry
                    let start = vars.len() - body.defs.len();
                    let _ = name;
                    *vars[start + idx].1.borrow_mut() = Some(v);
                }
                if idx + 1 < body.defs.len() {
                    *kont = push(K::BodyDefs { body, idx: idx + 1, env: env.clone() }, kont);
                    Ctrl::Eval(&body.defs[idx + 1].1, env.clone())
                } else {
                    self.seq(&body.exprs, 0, env.clone(), kont)
                }
            }
            K::And(v2, idx, env) => {
                if !v.truthy() {
                    Ctrl::Ret(v)
                } else {
                    if idx + 1 < v2.len() {
                        *kont = push(K::And(v2, idx + 1, env.clone()), kont);
                    }
                    Ctrl::Eval(&v2[*idx], env.clone())
                }
            }
            K::Or(v2, idx, env) => {
                if v.truthy() {
                    Ctrl::Ret(v)
                } else {
                    if idx + 1 < v2.len() {
                        *kont = push(K::Or(v2, idx + 1, env.clone()), kont);
                    }
                    Ctrl::Eval(&v2[*idx], env.clone())
                }
            }
            K::WhenBodyK(b, sense, env) => {
                if v.truthy() == *sense {
                    self.seq(b, 0, env.clone(), kont)
                } else {
                    Ctrl::Ret(Val::Void)
                }
            }
            K::CondTest { clauses, idx, els, env } => {
                if v.truthy() {
                    match &clauses[*idx].1 {
                        CondRhs::Exprs(es) => {
                            if es.is_empty() {
                                Ctrl::Ret(v)
                            } else {
                                self.seq(es, 0, env.clone(), kont)
                            }
                        }
                        CondRhs::Arrow(r) => {
                            *kont = push(K::CondArrow(v), kont);
                            Ctrl::Eval(r, env.clone())
                        }
                    }
                } else if idx + 1 < clauses.len() {
                    *kont = push(K::CondTest { clauses, idx: idx + 1, els, env: env.clone() }, kont);
                    Ctrl::Eval(&clauses[idx + 1].0, env.clone())
                } else {
                    match els {
                        Some(e) => self.seq(e, 0, env.clone(), kont),
                        None => Ctrl::Ret(Val::Void),
                    }
                }
            }
            K::CondArrow(tv) => Ctrl::Apply(v, vec![tv.clone()]),
            K::CaseKey { clauses, els, env } => {
                for (ds, body) in clauses.iter() {
                    if ds.iter().any(|d| prims::eqv(&Val::from_datum(d), &v)) {
                        return Ok(self.seq(body, 0, env.clone(), kont));
                    }
                }
                match els {
                    Some(e) => self.seq(e, 0, env.clone(), kont),
                    None => Ctrl::Ret(Val::Void),
                }
            }
            K::DoInit { e, idx, done, env } => {
                let Expr::Do(vars, ..) = e else { unreachable!() };
                let mut done = done.clone();
                done.push(v);
                if idx + 1 < vars.len() {
                    *kont = push(K::DoInit { e, idx: idx + 1, done, env: env.clone() }, kont);
                    Ctrl::Eval(&vars[idx + 1].1, env.clone())
                } else {
                    let ne = new_frame(env);
                    for ((n, _, _), v) in vars.iter().zip(done.into_iter()) {
                        bind(&ne, n.as_str(), Some(v));
                    }
                    self.do_test(e, ne, kont)
                }
            }
            K::DoTest { e, env } => {
                let Expr::Do(vars, _, res, body) = e else { unreachable!() };
                if v.truthy() {
                    self.seq(res, 0, env.clone(), kont)
                } else {
                    self.note("do-iteration");
                    let after_body = K::DoBody { e, env: env.clone() };
                    if body.is_empty() {
                        let f = Rc::new(KFrame { k: after_body, next: kont.clone() });
                        *kont = f.next.clone();
                        return self.step_ret(Val::Void, &f, kont);
                    }
                    *kont = push(after_body, kont);
                    let _ = vars;
                    self.seq(body, 0, env.clone(), kont)
                }
            }
            K::DoBody { e, env } => {
                let Expr::Do(vars, ..) = e else { unreachable!() };
                // evaluate the steps in the current frame, then rebind all at once in a fresh frame
                let first = vars.iter().position(|(_, _, s)| s.is_some());
                match first {
                    None => {
                        let ne = self.do_rebind(vars, vec![None; vars.len()], env);
                        self.do_test(e, ne, kont)
                    }
                    Some(i) => {
                        *kont = push(K::DoStep { e, idx: i, done: vec![None; vars.len()], env: env.clone() }, kont);
                        Ctrl::Eval(vars[i].2.as_ref().unwrap(), env.clone())
                    }
                }
            }
            K::DoStep { e, idx, done, env } => {
                let Expr::Do(vars, ..) = e else { unreachable!() };
                let mut done = done.clone();
                done[*idx] = Some(v);
                let next = (idx + 1..vars.len()).find(|i| vars[*i].2.is_some());
                match next {
                    Some(i) => {
                        *kont = push(K::DoStep { e, idx: i, done, env: env.clone() }, kont);
                        Ctrl::Eval(vars[i].2.as_ref().unwrap(), env.clone())
                    }
                    None => {
                        let ne = self.do_rebind(vars, done, env);
                        self.do_test(e, ne, kont)
                    }
                }
            }
            K::DynWindArgsK(e, idx, done, env) => {
                let Expr::DynamicWind(_, b, c) = e else { unreachable!() };
                let mut done = done.clone();
                done.push(v);
                if *idx == 0 {
                    *kont = push(K::DynWindArgsK(e, 1, done, env.clone()), kont);
                    Ctrl::Eval(b, env.clone())
                } else if *idx == 1 {
                    *kont = push(K::DynWindArgsK(e, 2, done, env.clone()), kont);
                    Ctrl::Eval(c, env.clone())
                } else {
                    Ctrl::Apply(Val::Prim("dynamic-wind"), done)
                }
            }
            K::HandlerEval(body, env) => {
                *kont = push(K::Handler(v), kont);
                Ctrl::Eval(body, env.clone())
            }
            K::Handler(_) => Ctrl::Ret(v), // body finished normally
            K::WindEnter { thunk, before, after } => {
                // before thunk returned: the extent starts
                *kont = push(K::Wind { before: before.clone(), after: after.clone() }, kont);
                self.note("wind-enter");
                Ctrl::Apply(thunk.clone(), vec![])
            }
            K::Wind { after, .. } => {
                // body returned normally: run after, then return the body's value
                self.note("wind-exit-normal");
                *kont = push(K::AfterThenRet(v), kont);
                Ctrl::Apply(after.clone(), vec![])
            }
            K::AfterThenRet(saved) => Ctrl::Ret(saved.clone()),
            K::Rewind { steps, idx, fin } => {
                if *idx < steps.len() {
                    let (thunk, ctx) = steps[*idx].clone();
                    *kont = Some(Rc::new(KFrame { k: K::Rewind { steps: steps.clone(), idx: idx + 1, fin: fin.clone() }, next: ctx }));
                    self.note("wind-thunk-run-by-jump");
                    Ctrl::Apply(thunk, vec![])
                } else {
                    match &**fin {
                        Final::Return(val, target) => {
                            *kont = target.clone();
                            Ctrl::Ret(val.clone())
                        }
                        Final::CallHandler(h, payload, target) => {
                            *kont = target.clone();
                            Ctrl::Apply(h.clone(), vec![payload.clone()])
                        }
                        Final::Uncaught(payload) => {
                            if let Val::ErrObj(k) = payload {
                                if &**k == "OutOfFuel" {
                                    return Err(PieceOutcome::OutOfFuel);
                                }
                            }
                            let kind = match payload {
                                Val::ErrObj(k) => k.to_string(),
                                other => format!("raised {}", canon(other)),
                            };
                            return Err(PieceOutcome::Err(kind));
                        }
                    }
                }
            }
            K::Map { f, lists, i, done, kind } => {
                let mut done = done.clone();
                match kind {
                    MapKind::Map => done.push(v),
                    MapKind::ForEach => {}
                    MapKind::Filter => {
                        if v.truthy() {
                            done.push(lists[0][*i].clone());
                        }
                    }
                }
                self.map_step(f.clone(), lists.clone(), i + 1, done, *kind, kont)
            }
            K::Fold { f, items, i, left } => self.fold_step(f.clone(), items.clone(), i + 1, *left, v, kont),
            K::ApplyMark => Ctrl::Ret(v),
        })
    }

    fn do_rebind(&mut self, vars: &'a [(String, Expr, Option<Expr>)], stepped: Vec<Option<Val<'a>>>, env: &Env<'a>) -> Env<'a> {
        // a fresh frame per iteration (closures captured in the body keep their iteration's values)
        let parent = env.parent.clone().unwrap();
        let ne = new_frame(&parent);
        for (i, (n, _, _)) in vars.iter().enumerate() {
            let v = match &stepped[i] {
                Some(v) => v.clone(),
                None => lookup(env, n).unwrap().borrow().clone().unwrap(),
            };
            bind(&ne, n.as_str(), Some(v));
        }
        ne
    }
}

