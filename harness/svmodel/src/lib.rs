// placeholder
