pub mod num;
