pub mod ast;
pub mod domain;
pub mod gen;
pub mod interp;
pub mod num;
pub mod prims;
pub mod shrink;
pub mod vals;
