//! Object-graph histories for C04 (collector safety) and C19 (reclamation).
//!
//! A history builds trees / DAGs out of every kind of container the collector has to trace
//! (boxes, mutable and immutable vectors, lists, dotted pairs, hash maps - values and keys -, hash sets,
//! mutable and immutable structs, closures over assigned and unassigned variables), roots them in globals, locals,
//! arguments, operand-stack temporaries, closures and saved continuations, mutates them through
//! access paths, drops and aliases roots, and interleaves garbage allocation ("churn") and
//! collection requests.  The model is a plain arena without a collector; `dump` linearises a
//! root into nested integer lists, which is what the Scheme side `dump` procedure returns too.
//!
//! The generator emits a *script* (pieces of program text plus the expected canonical value of
//! each checking piece), so replay files are self contained.

use crate::gen::Chooser;
use serde::{Deserialize, Serialize};

#[derive(Clone, Copy, Debug, PartialEq, Eq, Hash, PartialOrd, Ord)]
pub enum Kind {
    Box,
    MVec,
    IVec,
    List,
    Dotted,
    Hash,
    MStruct,
    IStruct,
    AClos,
    Clos,
    /// a hash map whose single *key* is the child (the value is 0)
    HKey,
    /// a hash set whose single member is the child
    HSet,
}

pub const KINDS: [Kind; 12] = [Kind::Box, Kind::MVec, Kind::IVec, Kind::List, Kind::Dotted, Kind::Hash, Kind::MStruct, Kind::IStruct, Kind::AClos, Kind::Clos, Kind::HKey, Kind::HSet];

impl Kind {
    pub fn tag(self) -> i64 {
        match self {
            Kind::Box => 1,
            Kind::MVec => 2,
            Kind::List => 3,
            Kind::Dotted => 4,
            Kind::Hash => 5,
            Kind::MStruct => 6,
            Kind::IStruct => 7,
            Kind::AClos => 8,
            Kind::Clos => 9,
            Kind::IVec => 10,
            Kind::HKey => 11,
            Kind::HSet => 12,
        }
    }
    pub fn mutable(self) -> bool {
        matches!(self, Kind::Box | Kind::MVec | Kind::MStruct | Kind::AClos)
    }
    pub fn name(self) -> &'static str {
        match self {
            Kind::Box => "box",
            Kind::MVec => "mutable-vector",
            Kind::IVec => "immutable-vector",
            Kind::List => "list",
            Kind::Dotted => "dotted-pair",
            Kind::Hash => "hash",
            Kind::MStruct => "mutable-struct",
            Kind::IStruct => "struct",
            Kind::AClos => "closure-assigned-capture",
            Kind::Clos => "closure",
            Kind::HKey => "hash-key",
            Kind::HSet => "hashset-member",
        }
    }
}

#[derive(Clone, Copy, Debug, PartialEq)]
pub enum Val {
    Int(i64),
    Ref(usize),
}

#[derive(Clone, Debug)]
pub struct Node {
    pub kind: Kind,
    /// Dotted: the last child is the tail; Hash: child i is stored under key i+1
    pub children: Vec<Val>,
}

pub const PRELUDE: &str = r#"(struct mnode (a b) #:mutable)
(struct inode (a b))
(define (mk-aclos x) (lambda (op v) (cond ((= op 0) x) ((= op 1) (set! x v)) (else 8))))
(define (mk-clos x) (lambda (op v) (if (= op 0) x 9)))
(define (dump x)
  (cond ((int? x) x)
        ((mutable-vector? x) (cons 2 (map dump (mutable-vector->list x))))
        ((vector? x) (cons 10 (map dump (vector->list x))))
        ((mnode? x) (list 6 (dump (mnode-a x)) (dump (mnode-b x))))
        ((inode? x) (list 7 (dump (inode-a x)) (dump (inode-b x))))
        ((function? x) (list (x 2 #f) (dump (x 0 #f))))
        ((set? x) (list 12 (dump (car (hashset->list x)))))
        ((and (hash? x) (not (hash-contains? x 1))) (list 11 (dump (car (hash-keys->list x)))))
        ((hash? x) (cons 5 (map (lambda (k) (list k (dump (hash-ref x k)))) (sort (hash-keys->list x) <))))
        ((null? x) (list 3))
        ((pair? x) (let loop ((p x) (acc '()))
                     (cond ((null? p) (cons 3 (reverse acc)))
                           ((pair? p) (loop (cdr p) (cons (dump (car p)) acc)))
                           (else (cons 4 (reverse (cons (dump p) acc)))))))
        (else (list 1 (dump (unbox x))))))
(define (dump-root r) (if r (dump r) 0))
(define (churn-box n keep) (let loop ((i 0) (live '())) (if (= i n) (length live) (loop (+ i 1) (if (< (modulo i 7) keep) (cons (box (- -1 i)) live) (begin (box (- -1 i)) live))))))
(define (churn-vec n keep) (let loop ((i 0) (live '())) (if (= i n) (length live) (loop (+ i 1) (if (< (modulo i 7) keep) (cons (vector (- -1 i) (- -2 i)) live) (begin (vector (- -1 i)) live))))))
(define (churn-clos n keep) (let loop ((i 0) (live '())) (if (= i n) (length live) (loop (+ i 1) (if (< (modulo i 7) keep) (cons (mk-aclos (- -1 i)) live) (begin ((mk-aclos (- -1 i)) 1 i) live))))))
(define (churn-struct n keep) (let loop ((i 0) (live '())) (if (= i n) (length live) (loop (+ i 1) (if (< (modulo i 7) keep) (cons (mnode (- -1 i) (vector i)) live) (begin (mnode i (box i)) live))))))
(define (churn-cycle n keep) (let loop ((i 0) (live '())) (if (= i n) (length live) (loop (+ i 1) (let ((b (box (- -1 i))) (v (vector (- -1 i) 0))) (set-box! b v) (vector-set! v 1 b) (if (< (modulo i 7) keep) (cons b live) live))))))
(define saved #f)
(define once (box 0))
(define (pause) (call/cc (lambda (k) (set! saved k) 0)))
(define (mk-pauser x) (lambda () (set! x x) (+ 1 (pause)) x))
(define (hold-local-pause x) (let ((tmp x)) (+ 1 (pause)) tmp))
(define (hold x n) (churn-box n 2) (churn-vec n 2) x)
(define r0 #f)
(define r1 #f)
(define r2 #f)
(define r3 #f)"#;

pub const NROOTS: usize = 4;

/// Alternative homes for the roots r2 and r3 (half of the scripts): r2 lives in a thread-local-storage cell
/// (`make-tls`), r3 is held by the *host* only, through the collector's root table (`SteelVal::as_rooted`,
/// taken by the worker's `host-root!`).  The script text is rewritten: `(set! r2 e)` -> `(set-r2! e)`,
/// `r2` -> `(get-r2)`, likewise r3.
pub const ALT_PRELUDE: &str = r#"
(define t2 (make-tls #f))
(define (set-r2! v) (set-tls! t2 v))
(define (get-r2) (get-tls t2))
(define h3 #f)
(define (set-r3! v) (when h3 (host-unroot! h3)) (set! h3 (if v (host-root! v) #f)))
(define (get-r3) (if h3 (host-rooted-ref h3) #f))"#;

fn alt_rewrite(src: &str) -> String {
    let mut s = src.replace("(set! r2 ", "(set-r2! ").replace("(set! r3 ", "(set-r3! ");
    for (name, get) in [("r2", "(get-r2)"), ("r3", "(get-r3)")] {
        let mut out = String::new();
        let b = s.as_bytes();
        let mut i = 0;
        while i < b.len() {
            let ident = |c: u8| c.is_ascii_alphanumeric() || b"-!?*<>=/+_%#".contains(&c);
            if s[i..].starts_with(name) && (i == 0 || !ident(b[i - 1])) && (i + 2 >= b.len() || !ident(b[i + 2])) {
                out.push_str(get);
                i += 2;
            } else {
                out.push(b[i] as char);
                i += 1;
            }
        }
        s = out;
    }
    s
}

#[derive(Clone, Debug, Serialize, Deserialize)]
pub struct Piece {
    pub src: String,
    /// expected canonical value of the last form (None = only the outcome Ok is required)
    pub expect: Option<String>,
}

#[derive(Clone, Debug, Default, Serialize, Deserialize)]
pub struct GraphStats {
    pub kinds_built: Vec<String>,
    pub mutations: usize,
    pub mutation_after_collection: usize,
    pub churn_allocs: u64,
    pub collects: usize,
    pub drops: usize,
    pub aliases: usize,
    pub shared_inserts: usize,
    pub local_holds: usize,
    pub cont_holds: usize,
    pub checks: usize,
    /// (container kind, child kind) edges that existed at some check
    pub edges: Vec<String>,
}

#[derive(Clone, Debug, Serialize, Deserialize)]
pub struct Script {
    pub pieces: Vec<Piece>,
    pub stats: GraphStats,
}

pub struct Model {
    pub nodes: Vec<Node>,
    pub roots: [Val; NROOTS],
    next_leaf: i64,
}

impl Default for Model {
    fn default() -> Self {
        Model { nodes: vec![], roots: [Val::Int(0); NROOTS], next_leaf: 100 }
    }
}

impl Model {
    fn leaf(&mut self) -> i64 {
        self.next_leaf += 1;
        self.next_leaf
    }

    pub fn dump(&self, v: Val, out: &mut String) {
        match v {
            Val::Int(i) => out.push_str(&format!("i:{}", i)),
            Val::Ref(id) => {
                let n = &self.nodes[id];
                out.push('(');
                out.push_str(&format!("i:{}", n.kind.tag()));
                match n.kind {
                    Kind::Hash => {
                        for (i, c) in n.children.iter().enumerate() {
                            out.push_str(&format!(" (i:{} ", i + 1));
                            self.dump(*c, out);
                            out.push(')');
                        }
                    }
                    _ => {
                        for c in &n.children {
                            out.push(' ');
                            self.dump(*c, out);
                        }
                    }
                }
                out.push(')');
            }
        }
    }

    pub fn dump_roots(&self) -> String {
        let mut s = String::from("(");
        for (i, r) in self.roots.iter().enumerate() {
            if i > 0 {
                s.push(' ');
            }
            self.dump(*r, &mut s);
        }
        s.push(')');
        s
    }

    fn reaches(&self, from: Val, target: usize) -> bool {
        match from {
            Val::Int(_) => false,
            Val::Ref(id) => id == target || self.nodes[id].children.iter().any(|c| self.reaches(*c, target)),
        }
    }

    fn size(&self, v: Val) -> usize {
        match v {
            Val::Int(_) => 1,
            Val::Ref(id) => 1 + self.nodes[id].children.iter().map(|c| self.size(*c)).sum::<usize>(),
        }
    }

    fn edges(&self, v: Val, out: &mut std::collections::BTreeSet<String>) {
        if let Val::Ref(id) = v {
            let n = &self.nodes[id];
            for c in &n.children {
                if let Val::Ref(cid) = c {
                    out.insert(format!("{}->{}", n.kind.name(), self.nodes[*cid].kind.name()));
                }
                self.edges(*c, out);
            }
        }
    }

    /// builds a fresh subtree, returns (value, constructor expression)
    fn build(&mut self, c: &mut Chooser, depth: usize, st: &mut GraphStats) -> (Val, String) {
        if depth == 0 || c.chance(1, 5) {
            let l = self.leaf();
            return (Val::Int(l), format!("{}", l));
        }
        let kind = KINDS[c.below(KINDS.len())];
        let name = kind.name().to_string();
        if !st.kinds_built.contains(&name) {
            st.kinds_built.push(name);
        }
        let arity = match kind {
            Kind::Box | Kind::AClos | Kind::Clos | Kind::HKey | Kind::HSet => 1,
            Kind::MStruct | Kind::IStruct => 2,
            Kind::Dotted => 2 + c.below(2),
            Kind::List => c.below(4),
            _ => 1 + c.below(3),
        };
        let mut children = vec![];
        let mut exprs = vec![];
        for i in 0..arity {
            let (mut v, mut e) = self.build(c, depth - 1, st);
            if kind == Kind::Dotted && i == arity - 1 {
                // the tail must not be a list or a pair (that would be a longer list)
                let bad = match v {
                    Val::Ref(id) => matches!(self.nodes[id].kind, Kind::List | Kind::Dotted),
                    _ => false,
                };
                if bad {
                    // wrap it
                    let id = self.nodes.len();
                    self.nodes.push(Node { kind: Kind::Box, children: vec![v] });
                    v = Val::Ref(id);
                    e = format!("(box {})", e);
                }
            }
            children.push(v);
            exprs.push(e);
        }
        let id = self.nodes.len();
        self.nodes.push(Node { kind, children });
        let e = match kind {
            Kind::Box => format!("(box {})", exprs[0]),
            Kind::MVec => format!("(vector {})", exprs.join(" ")),
            Kind::IVec => format!("(immutable-vector {})", exprs.join(" ")),
            Kind::List => format!("(list {})", exprs.join(" ")),
            Kind::Dotted => {
                let mut s = exprs[arity - 1].clone();
                for x in exprs[..arity - 1].iter().rev() {
                    s = format!("(cons {} {})", x, s);
                }
                s
            }
            Kind::Hash => format!("(hash {})", exprs.iter().enumerate().map(|(i, x)| format!("{} {}", i + 1, x)).collect::<Vec<_>>().join(" ")),
            Kind::MStruct => format!("(mnode {})", exprs.join(" ")),
            Kind::IStruct => format!("(inode {})", exprs.join(" ")),
            Kind::AClos => format!("(mk-aclos {})", exprs[0]),
            Kind::Clos => format!("(mk-clos {})", exprs[0]),
            Kind::HKey => format!("(hash {} 0)", exprs[0]),
            Kind::HSet => format!("(hashset {})", exprs[0]),
        };
        (Val::Ref(id), e)
    }

    fn child_expr(&self, id: usize, i: usize, e: &str) -> String {
        let n = &self.nodes[id];
        match n.kind {
            Kind::Box => format!("(unbox {})", e),
            Kind::MVec | Kind::IVec => format!("(vector-ref {} {})", e, i),
            Kind::List => format!("(list-ref {} {})", e, i),
            Kind::Dotted => {
                let mut s = e.to_string();
                for _ in 0..i.min(n.children.len() - 1) {
                    s = format!("(cdr {})", s);
                }
                if i == n.children.len() - 1 {
                    s
                } else {
                    format!("(car {})", s)
                }
            }
            Kind::Hash => format!("(hash-ref {} {})", e, i + 1),
            Kind::MStruct => format!("(mnode-{} {})", ["a", "b"][i], e),
            Kind::IStruct => format!("(inode-{} {})", ["a", "b"][i], e),
            Kind::AClos | Kind::Clos => format!("({} 0 #f)", e),
            Kind::HKey => format!("(car (hash-keys->list {}))", e),
            Kind::HSet => format!("(car (hashset->list {}))", e),
        }
    }

    fn set_expr(&self, id: usize, i: usize, e: &str, v: &str) -> String {
        match self.nodes[id].kind {
            Kind::Box => format!("(set-box! {} {})", e, v),
            Kind::MVec => format!("(vector-set! {} {} {})", e, i, v),
            Kind::MStruct => format!("(set-mnode-{}! {} {})", ["a", "b"][i], e, v),
            Kind::AClos => format!("({} 1 {})", e, v),
            _ => unreachable!(),
        }
    }

    /// every (node id, access expression) reachable from root k (DAG paths expanded, bounded)
    fn paths(&self, k: usize) -> Vec<(usize, String)> {
        let mut out = vec![];
        fn go(m: &Model, v: Val, e: String, out: &mut Vec<(usize, String)>) {
            if out.len() > 200 {
                return;
            }
            if let Val::Ref(id) = v {
                out.push((id, e.clone()));
                for (i, c) in m.nodes[id].children.iter().enumerate() {
                    go(m, *c, m.child_expr(id, i, &e), out);
                }
            }
        }
        go(self, self.roots[k], format!("r{}", k), &mut out);
        out
    }
}

fn churn_expr(c: &mut Chooser, stress: bool, st: &mut GraphStats) -> String {
    let f = ["churn-box", "churn-vec", "churn-clos", "churn-struct", "churn-cycle"][c.below(5)];
    let n = if stress { [10u64, 30, 60][c.below(3)] } else { [50u64, 300, 1200, 3000][c.below(4)] };
    let keep = c.below(8);
    st.churn_allocs += n;
    format!("({} {} {})", f, n, keep)
}

/// `stress`: the script will run with the gc-stress hook on (keeps churn small)
pub fn generate(data: &[u16], stress: bool, cont_ok: bool, max_ops: usize) -> Script {
    let mut c = Chooser::new(data);
    let mut m = Model::default();
    let mut st = GraphStats::default();
    let alt = c.chance(1, 2);
    let mut pieces = vec![Piece { src: PRELUDE.to_string(), expect: None }];
    let check = |m: &Model, pieces: &mut Vec<Piece>, st: &mut GraphStats| {
        st.checks += 1;
        let mut es = std::collections::BTreeSet::new();
        for r in m.roots.iter() {
            m.edges(*r, &mut es);
        }
        for e in es {
            if !st.edges.contains(&e) {
                st.edges.push(e);
            }
        }
        pieces.push(Piece { src: "(list (dump-root r0) (dump-root r1) (dump-root r2) (dump-root r3))".to_string(), expect: Some(m.dump_roots()) });
    };
    let nops = 3 + c.below(max_ops.saturating_sub(2));
    let mut collected_since_build = false;
    for _ in 0..nops {
        if c.exhausted() {
            break;
        }
        // a collection with a live continuation takes ~0.2 s: continuation holds only without stress
        let wcont = if cont_ok { 2 } else { 0 };
        match c.weighted(&[6, 6, 5, 3, 2, 2, 3, wcont, 3]) {
            0 => {
                let k = c.below(NROOTS);
                let (v, e) = { let d = 1 + c.below(4); m.build(&mut c, d, &mut st) };
                m.roots[k] = v;
                pieces.push(Piece { src: format!("(set! r{} {})", k, e), expect: None });
            }
            1 => {
                // mutate through a path
                let k = c.below(NROOTS);
                let ps: Vec<(usize, String)> = m.paths(k).into_iter().filter(|(id, _)| m.nodes[*id].kind.mutable()).collect();
                if ps.is_empty() {
                    continue;
                }
                let (id, e) = ps[c.below(ps.len())].clone();
                let i = c.below(m.nodes[id].children.len());
                let (nv, ne) = if c.chance(1, 4) {
                    // share an existing node of another root (never creating a cycle)
                    let k2 = c.below(NROOTS);
                    let cands: Vec<(usize, String)> = m.paths(k2).into_iter().filter(|(x, _)| !m.reaches(Val::Ref(*x), id) && m.size(Val::Ref(*x)) < 40).collect();
                    if cands.is_empty() {
                        m.build(&mut c, 2, &mut st)
                    } else {
                        st.shared_inserts += 1;
                        let (x, xe) = cands[c.below(cands.len())].clone();
                        (Val::Ref(x), xe)
                    }
                } else {
                    { let d = 1 + c.below(3); m.build(&mut c, d, &mut st) }
                };
                if m.size(m.roots[k]) + m.size(nv) > 400 {
                    continue;
                }
                let src = m.set_expr(id, i, &e, &ne);
                m.nodes[id].children[i] = nv;
                st.mutations += 1;
                if collected_since_build {
                    st.mutation_after_collection += 1;
                }
                pieces.push(Piece { src, expect: None });
            }
            2 => {
                let e = churn_expr(&mut c, stress, &mut st);
                collected_since_build = true;
                pieces.push(Piece { src: e, expect: None });
            }
            3 => {
                st.collects += 1;
                collected_since_build = true;
                pieces.push(Piece { src: "(#%gc-collect)".to_string(), expect: None });
            }
            4 => {
                let k = c.below(NROOTS);
                st.drops += 1;
                m.roots[k] = Val::Int(0);
                pieces.push(Piece { src: format!("(set! r{} #f)", k), expect: None });
            }
            5 => {
                // alias a sub-node of one root from another root
                let k = c.below(NROOTS);
                let k2 = c.below(NROOTS);
                let ps = m.paths(k2);
                if ps.is_empty() || k == k2 {
                    continue;
                }
                let (id, e) = ps[c.below(ps.len())].clone();
                st.aliases += 1;
                m.roots[k] = Val::Ref(id);
                pieces.push(Piece { src: format!("(set! r{} {})", k, e), expect: None });
            }
            6 => {
                // the only reference lives in a local / an argument / an operand-stack temporary
                // while garbage is allocated and a collection is requested
                let k = c.below(NROOTS);
                let (v, e) = { let d = 1 + c.below(4); m.build(&mut c, d, &mut st) };
                m.roots[k] = v;
                st.local_holds += 1;
                collected_since_build = true;
                let ch = churn_expr(&mut c, stress, &mut st);
                let src = match c.below(4) {
                    0 => format!("(set! r{} (let ((tmp {})) {} (#%gc-collect) tmp))", k, e, ch),
                    1 => format!("(set! r{} (hold {} {}))", k, e, if stress { 20 } else { 400 }),
                    2 => format!("(set! r{} (car (list {} {} (#%gc-collect))))", k, e, ch),
                    _ => format!("(set! r{} ((lambda (a b) (#%gc-collect) {} (vector-ref a 0)) (vector {}) 1))", k, ch, e),
                };
                pieces.push(Piece { src, expect: None });
            }
            7 => {
                // the only reference lives in a saved continuation (captured variable of a suspended
                // closure / local of a suspended frame); re-entered after churn and collection
                let k = c.below(NROOTS);
                let (v, e) = { let d = 1 + c.below(3); m.build(&mut c, d, &mut st) };
                m.roots[k] = v;
                st.cont_holds += 1;
                collected_since_build = true;
                let ch = churn_expr(&mut c, stress, &mut st);
                let ch2 = churn_expr(&mut c, stress, &mut st);
                let a = match c.below(3) {
                    0 => format!("(set! r{} ((mk-pauser {})))", k, e),
                    1 => format!("(set! r{} (hold-local-pause {}))", k, e),
                    _ => format!("(set! r{} (car (list {} (pause))))", k, e),
                };
                let src = format!(
                    "(set-box! once 0)\n{}\n(when (= (unbox once) 0) (set! r{} #f) {} (#%gc-collect) {})\n(when (= (unbox once) 0) (set-box! once 1) (saved 0))",
                    a, k, ch, ch2
                );
                pieces.push(Piece { src, expect: None });
                // the continuation must not stay reachable for later checks' garbage accounting
                pieces.push(Piece { src: "(set! saved #f)".to_string(), expect: None });
            }
            _ => check(&m, &mut pieces, &mut st),
        }
    }
    check(&m, &mut pieces, &mut st);
    if alt {
        for p in pieces.iter_mut().skip(1) {
            p.src = alt_rewrite(&p.src);
        }
        pieces[0].src.push_str(ALT_PRELUDE);
        st.kinds_built.push("root-in-tls".into());
        st.kinds_built.push("root-held-by-host".into());
    }
    Script { pieces, stats: st }
}
