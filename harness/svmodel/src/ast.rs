//! Program representation shared by the generators, the reference interpreter and the
//! renderer (AST -> Steel source text).  Generators build these values by construction; the
//! reference interpreter executes them directly and never parses Steel text.

use serde::{Deserialize, Serialize};

#[derive(Clone, Debug, Serialize, Deserialize, PartialEq)]
pub enum Datum {
    Int(i64),
    /// arbitrary precision integer, decimal
    Big(String),
    /// reduced ratio n/d, d > 1
    Rat(String, String),
    /// double by bit pattern
    Flo(u64),
    Bool(bool),
    Char(char),
    Str(String),
    Sym(String),
    List(Vec<Datum>),
    /// improper list: at least one element, then a non-list tail
    Dotted(Vec<Datum>, Box<Datum>),
    /// vector literal (immutable in Steel)
    Vector(Vec<Datum>),
}

#[derive(Clone, Debug, Serialize, Deserialize, PartialEq)]
pub struct LambdaDef {
    pub params: Vec<String>,
    /// optional parameters with default expressions: `(define (f a (b 10)) ...)`
    pub opt: Vec<(String, Expr)>,
    pub rest: Option<String>,
    pub body: Body,
}

#[derive(Clone, Debug, Serialize, Deserialize, PartialEq)]
pub struct Body {
    /// internal definitions (letrec* semantics), only at the head of the body
    pub defs: Vec<(String, Expr)>,
    /// at least one expression
    pub exprs: Vec<Expr>,
}

impl Body {
    pub fn single(e: Expr) -> Body {
        Body { defs: vec![], exprs: vec![e] }
    }
}

#[derive(Clone, Debug, Serialize, Deserialize, PartialEq)]
pub enum CondRhs {
    Exprs(Vec<Expr>),
    /// `(test => receiver)`
    Arrow(Expr),
}

#[derive(Clone, Debug, Serialize, Deserialize, PartialEq)]
pub enum Expr {
    Lit(Datum),
    Quote(Datum),
    Var(String),
    Set(String, Box<Expr>),
    If(Box<Expr>, Box<Expr>, Option<Box<Expr>>),
    Lambda(Box<LambdaDef>),
    CaseLambda(Vec<LambdaDef>),
    Let(Vec<(String, Expr)>, Box<Body>),
    LetStar(Vec<(String, Expr)>, Box<Body>),
    Letrec(Vec<(String, Expr)>, Box<Body>),
    NamedLet(String, Vec<(String, Expr)>, Box<Body>),
    Begin(Vec<Expr>),
    App(Box<Expr>, Vec<Expr>),
    And(Vec<Expr>),
    Or(Vec<Expr>),
    When(Box<Expr>, Vec<Expr>),
    Unless(Box<Expr>, Vec<Expr>),
    Cond(Vec<(Expr, CondRhs)>, Option<Vec<Expr>>),
    Case(Box<Expr>, Vec<(Vec<Datum>, Vec<Expr>)>, Option<Vec<Expr>>),
    /// `(do ((var init step) ...) (test res ...) body ...)`
    Do(Vec<(String, Expr, Option<Expr>)>, Box<Expr>, Vec<Expr>, Vec<Expr>),
    /// `(call/cc f)`
    CallCC(Box<Expr>),
    /// `(dynamic-wind before thunk after)`
    DynamicWind(Box<Expr>, Box<Expr>, Box<Expr>),
    /// `(with-handler handler body)`
    WithHandler(Box<Expr>, Box<Expr>),
}

#[derive(Clone, Debug, Serialize, Deserialize, PartialEq)]
pub enum Top {
    /// `(define name expr)`; a lambda on the right is rendered as `(define (name . params) ...)`
    Define(String, Expr),
    Expr(Expr),
}

#[derive(Clone, Debug, Serialize, Deserialize, PartialEq)]
pub struct Program {
    pub forms: Vec<Top>,
}

// ---------------------------------------------------------------------------------------
// constructors that keep generator code short

pub fn int(i: i64) -> Expr {
    Expr::Lit(Datum::Int(i))
}
pub fn var(s: &str) -> Expr {
    Expr::Var(s.to_string())
}
pub fn app(f: &str, args: Vec<Expr>) -> Expr {
    Expr::App(Box::new(var(f)), args)
}
pub fn call(f: Expr, args: Vec<Expr>) -> Expr {
    Expr::App(Box::new(f), args)
}
pub fn lambda(params: &[&str], body: Body) -> Expr {
    Expr::Lambda(Box::new(LambdaDef { params: params.iter().map(|s| s.to_string()).collect(), opt: vec![], rest: None, body }))
}
pub fn sym(s: &str) -> Expr {
    Expr::Quote(Datum::Sym(s.to_string()))
}
pub fn string(s: &str) -> Expr {
    Expr::Lit(Datum::Str(s.to_string()))
}
pub fn boolean(b: bool) -> Expr {
    Expr::Lit(Datum::Bool(b))
}
pub fn iff(c: Expr, t: Expr, e: Expr) -> Expr {
    Expr::If(Box::new(c), Box::new(t), Some(Box::new(e)))
}
pub fn begin(v: Vec<Expr>) -> Expr {
    Expr::Begin(v)
}
pub fn set(name: &str, e: Expr) -> Expr {
    Expr::Set(name.to_string(), Box::new(e))
}

// ---------------------------------------------------------------------------------------
// rendering to Steel source text

pub fn render_float(f: f64) -> String {
    if f.is_nan() {
        "+nan.0".into()
    } else if f == f64::INFINITY {
        "+inf.0".into()
    } else if f == f64::NEG_INFINITY {
        "-inf.0".into()
    } else {
        format!("{:?}", f)
    }
}

pub fn render_string(s: &str) -> String {
    let mut out = String::from("\"");
    for c in s.chars() {
        match c {
            '"' => out.push_str("\\\""),
            '\\' => out.push_str("\\\\"),
            '\n' => out.push_str("\\n"),
            '\t' => out.push_str("\\t"),
            '\r' => out.push_str("\\r"),
            c => out.push(c),
        }
    }
    out.push('"');
    out
}

pub fn render_char(c: char) -> String {
    match c {
        ' ' => "#\\space".into(),
        '\n' => "#\\newline".into(),
        '\t' => "#\\tab".into(),
        '\0' => "#\\null".into(),
        c => format!("#\\{}", c),
    }
}

/// Datum text as it appears *inside* a quotation.
pub fn render_datum(d: &Datum) -> String {
    match d {
        Datum::Int(i) => i.to_string(),
        Datum::Big(s) => s.clone(),
        Datum::Rat(n, d) => format!("{}/{}", n, d),
        Datum::Flo(b) => render_float(f64::from_bits(*b)),
        Datum::Bool(true) => "#t".into(),
        Datum::Bool(false) => "#f".into(),
        Datum::Char(c) => render_char(*c),
        Datum::Str(s) => render_string(s),
        Datum::Sym(s) => s.clone(),
        Datum::List(v) => format!("({})", v.iter().map(render_datum).collect::<Vec<_>>().join(" ")),
        Datum::Dotted(v, t) => format!("({} . {})", v.iter().map(render_datum).collect::<Vec<_>>().join(" "), render_datum(t)),
        Datum::Vector(v) => format!("#({})", v.iter().map(render_datum).collect::<Vec<_>>().join(" ")),
    }
}

fn render_params(l: &LambdaDef) -> String {
    let mut parts: Vec<String> = l.params.clone();
    for (n, d) in &l.opt {
        parts.push(format!("({} {})", n, render_expr(d)));
    }
    match &l.rest {
        Some(r) if parts.is_empty() => r.clone(),
        Some(r) => format!("({} . {})", parts.join(" "), r),
        None => format!("({})", parts.join(" ")),
    }
}

pub fn render_body(b: &Body) -> String {
    let mut parts = vec![];
    for (n, e) in &b.defs {
        parts.push(render_define(n, e));
    }
    for e in &b.exprs {
        parts.push(render_expr(e));
    }
    parts.join(" ")
}

fn render_seq(v: &[Expr]) -> String {
    v.iter().map(render_expr).collect::<Vec<_>>().join(" ")
}

fn render_bindings(b: &[(String, Expr)]) -> String {
    b.iter().map(|(n, e)| format!("({} {})", n, render_expr(e))).collect::<Vec<_>>().join(" ")
}

pub fn render_define(name: &str, e: &Expr) -> String {
    match e {
        Expr::Lambda(l) => {
            let mut parts: Vec<String> = vec![name.to_string()];
            parts.extend(l.params.iter().cloned());
            for (n, d) in &l.opt {
                parts.push(format!("({} {})", n, render_expr(d)));
            }
            let head = match &l.rest {
                Some(r) => format!("({} . {})", parts.join(" "), r),
                None => format!("({})", parts.join(" ")),
            };
            format!("(define {} {})", head, render_body(&l.body))
        }
        e => format!("(define {} {})", name, render_expr(e)),
    }
}

pub fn render_expr(e: &Expr) -> String {
    match e {
        Expr::Lit(d) => match d {
            Datum::Sym(_) | Datum::List(_) | Datum::Dotted(..) | Datum::Vector(_) => format!("'{}", render_datum(d)),
            d => render_datum(d),
        },
        Expr::Quote(d) => format!("'{}", render_datum(d)),
        Expr::Var(v) => v.clone(),
        Expr::Set(v, e) => format!("(set! {} {})", v, render_expr(e)),
        Expr::If(c, t, Some(f)) => format!("(if {} {} {})", render_expr(c), render_expr(t), render_expr(f)),
        Expr::If(c, t, None) => format!("(when {} {})", render_expr(c), render_expr(t)),
        Expr::Lambda(l) => format!("(lambda {} {})", render_params(l), render_body(&l.body)),
        Expr::CaseLambda(ls) => format!(
            "(case-lambda {})",
            ls.iter().map(|l| format!("({} {})", render_params(l), render_body(&l.body))).collect::<Vec<_>>().join(" ")
        ),
        Expr::Let(b, body) => format!("(let ({}) {})", render_bindings(b), render_body(body)),
        Expr::LetStar(b, body) => format!("(let* ({}) {})", render_bindings(b), render_body(body)),
        Expr::Letrec(b, body) => format!("(letrec ({}) {})", render_bindings(b), render_body(body)),
        Expr::NamedLet(n, b, body) => format!("(let {} ({}) {})", n, render_bindings(b), render_body(body)),
        Expr::Begin(v) => format!("(begin {})", render_seq(v)),
        Expr::App(f, args) => {
            if args.is_empty() {
                format!("({})", render_expr(f))
            } else {
                format!("({} {})", render_expr(f), render_seq(args))
            }
        }
        Expr::And(v) => {
            if v.is_empty() {
                "(and)".into()
            } else {
                format!("(and {})", render_seq(v))
            }
        }
        Expr::Or(v) => {
            if v.is_empty() {
                "(or)".into()
            } else {
                format!("(or {})", render_seq(v))
            }
        }
        Expr::When(c, b) => format!("(when {} {})", render_expr(c), render_seq(b)),
        Expr::Unless(c, b) => format!("(unless {} {})", render_expr(c), render_seq(b)),
        Expr::Cond(clauses, els) => {
            let mut parts: Vec<String> = clauses
                .iter()
                .map(|(t, rhs)| match rhs {
                    CondRhs::Exprs(v) => format!("({} {})", render_expr(t), render_seq(v)),
                    CondRhs::Arrow(r) => format!("({} => {})", render_expr(t), render_expr(r)),
                })
                .collect();
            if let Some(e) = els {
                parts.push(format!("(else {})", render_seq(e)));
            }
            format!("(cond {})", parts.join(" "))
        }
        Expr::Case(k, clauses, els) => {
            let mut parts: Vec<String> = clauses
                .iter()
                .map(|(ds, v)| format!("(({}) {})", ds.iter().map(render_datum).collect::<Vec<_>>().join(" "), render_seq(v)))
                .collect();
            if let Some(e) = els {
                parts.push(format!("(else {})", render_seq(e)));
            }
            format!("(case {} {})", render_expr(k), parts.join(" "))
        }
        Expr::Do(vars, test, res, body) => {
            let vs: Vec<String> = vars
                .iter()
                .map(|(n, i, s)| match s {
                    Some(s) => format!("({} {} {})", n, render_expr(i), render_expr(s)),
                    None => format!("({} {})", n, render_expr(i)),
                })
                .collect();
            format!("(do ({}) ({} {}) {})", vs.join(" "), render_expr(test), render_seq(res), render_seq(body))
        }
        Expr::CallCC(f) => format!("(call/cc {})", render_expr(f)),
        Expr::DynamicWind(a, b, c) => format!("(dynamic-wind {} {} {})", render_expr(a), render_expr(b), render_expr(c)),
        Expr::WithHandler(h, b) => format!("(with-handler {} {})", render_expr(h), render_expr(b)),
    }
}

pub fn render_top(t: &Top) -> String {
    match t {
        Top::Define(n, e) => render_define(n, e),
        Top::Expr(e) => render_expr(e),
    }
}

pub fn render_program(p: &Program) -> String {
    p.forms.iter().map(render_top).collect::<Vec<_>>().join("\n")
}

/// number of AST nodes (size measure for statistics)
pub fn size_expr(e: &Expr) -> usize {
    fn body(b: &Body) -> usize {
        b.defs.iter().map(|(_, e)| 1 + size_expr(e)).sum::<usize>() + b.exprs.iter().map(size_expr).sum::<usize>()
    }
    fn seq(v: &[Expr]) -> usize {
        v.iter().map(size_expr).sum()
    }
    1 + match e {
        Expr::Lit(_) | Expr::Quote(_) | Expr::Var(_) => 0,
        Expr::Set(_, e) => size_expr(e),
        Expr::If(a, b, c) => size_expr(a) + size_expr(b) + c.as_ref().map(|c| size_expr(c)).unwrap_or(0),
        Expr::Lambda(l) => body(&l.body) + l.opt.iter().map(|(_, e)| size_expr(e)).sum::<usize>(),
        Expr::CaseLambda(ls) => ls.iter().map(|l| body(&l.body)).sum(),
        Expr::Let(b, bd) | Expr::LetStar(b, bd) | Expr::Letrec(b, bd) | Expr::NamedLet(_, b, bd) => {
            b.iter().map(|(_, e)| size_expr(e)).sum::<usize>() + body(bd)
        }
        Expr::Begin(v) | Expr::And(v) | Expr::Or(v) => seq(v),
        Expr::App(f, a) => size_expr(f) + seq(a),
        Expr::When(c, b) | Expr::Unless(c, b) => size_expr(c) + seq(b),
        Expr::Cond(cl, els) => {
            cl.iter()
                .map(|(t, r)| {
                    size_expr(t)
                        + match r {
                            CondRhs::Exprs(v) => seq(v),
                            CondRhs::Arrow(e) => size_expr(e),
                        }
                })
                .sum::<usize>()
                + els.as_ref().map(|e| seq(e)).unwrap_or(0)
        }
        Expr::Case(k, cl, els) => size_expr(k) + cl.iter().map(|(_, v)| seq(v)).sum::<usize>() + els.as_ref().map(|e| seq(e)).unwrap_or(0),
        Expr::Do(vars, t, r, b) => {
            vars.iter().map(|(_, i, s)| size_expr(i) + s.as_ref().map(size_expr).unwrap_or(0)).sum::<usize>() + size_expr(t) + seq(r) + seq(b)
        }
        Expr::CallCC(f) => size_expr(f),
        Expr::DynamicWind(a, b, c) => size_expr(a) + size_expr(b) + size_expr(c),
        Expr::WithHandler(h, b) => size_expr(h) + size_expr(b),
    }
}

pub fn size_program(p: &Program) -> usize {
    p.forms
        .iter()
        .map(|t| match t {
            Top::Define(_, e) => 1 + size_expr(e),
            Top::Expr(e) => size_expr(e),
        })
        .sum()
}
