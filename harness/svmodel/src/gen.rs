//! Program generator.  Programs are built *by construction* from a sequence of choices
//! (`&[u16]`, produced and shrunk by proptest): every program is well scoped, terminates, and
//! respects the evaluation-order discipline of DESIGN.md §2.3 (at most one effectful operand
//! per application / `let` group, the others read only never-assigned variables).
//! Smaller choice values select simpler constructs, so shrinking the sequence simplifies the
//! program.  Type tracking is only there to keep most programs error free: the reference
//! interpreter gives the expected result for *any* AST, so a typing slip costs coverage, never
//! soundness.

use crate::ast::*;

pub struct Chooser<'c> {
    data: &'c [u16],
    pos: usize,
}

impl<'c> Chooser<'c> {
    pub fn new(data: &'c [u16]) -> Self {
        Chooser { data, pos: 0 }
    }
    pub fn next(&mut self) -> u32 {
        let v = self.data.get(self.pos).copied().unwrap_or(0);
        self.pos += 1;
        v as u32
    }
    /// uniform in 0..n, monotone in the underlying choice
    pub fn below(&mut self, n: usize) -> usize {
        if n <= 1 {
            self.pos += 1;
            return 0;
        }
        ((self.next() as u64 * n as u64) >> 16) as usize
    }
    pub fn range(&mut self, lo: i64, hi: i64) -> i64 {
        lo + self.below((hi - lo + 1) as usize) as i64
    }
    /// index chosen with the given weights; index 0 is what an exhausted sequence selects
    pub fn weighted(&mut self, w: &[u32]) -> usize {
        let total: u64 = w.iter().map(|x| *x as u64).sum();
        if total == 0 {
            return 0;
        }
        let x = (self.next() as u64 * total) >> 16;
        let mut acc = 0u64;
        for (i, wi) in w.iter().enumerate() {
            acc += *wi as u64;
            if x < acc {
                return i;
            }
        }
        w.len() - 1
    }
    /// true with probability num/den (false when exhausted)
    pub fn chance(&mut self, num: u32, den: u32) -> bool {
        let x = (self.next() as u64 * den as u64) >> 16;
        x >= (den - num) as u64
    }
    pub fn exhausted(&self) -> bool {
        self.pos >= self.data.len()
    }
}

#[derive(Clone, Debug, PartialEq)]
pub enum Ty {
    Int,
    Bool,
    List, // list of ints
    Str,
    Sym,
    BoxInt,
    VecInt(usize), // mutable vector of ints with known length
    Hash,          // symbol -> int
    /// procedure of n int parameters (+ rest flag) returning int; `pure` = no side effects
    Proc { n: usize, rest: bool, pure_: bool },
    /// an escape continuation: only ever called directly, `(k v)`
    Cont,
}

#[derive(Clone, Debug)]
pub struct VarInfo {
    pub name: String,
    pub ty: Ty,
    /// may be the target of set!
    pub mutable: bool,
    pub global: bool,
}

/// Options selecting which language areas a check wants.
#[derive(Clone, Debug)]
pub struct GenOpts {
    pub errors: bool,
    pub callcc: bool,
    pub winds: bool,
    /// continuation re-entry templates without dynamic-wind (for checks that leave `winds` off)
    pub reentry: bool,
    pub handlers: bool,
    pub output: bool,
    pub heap: bool, // boxes / vectors
    /// sprinkle explicit collection requests `(#%gc-collect)` into expression positions
    pub gc_points: bool,
    pub max_depth: usize,
    pub top_forms: usize,
    /// ids of known findings whose trigger shapes must not be generated (exclusion by construction)
    pub avoid: Vec<String>,
}

impl Default for GenOpts {
    fn default() -> Self {
        GenOpts { errors: true, callcc: true, winds: false, reentry: false, handlers: true, output: true, heap: true, gc_points: false, max_depth: 5, top_forms: 8, avoid: vec![] }
    }
}

pub struct Gen<'c> {
    pub c: Chooser<'c>,
    pub opts: GenOpts,
    pub scope: Vec<VarInfo>,
    pub fresh: usize,
    /// static features of the generated program (for the non-triviality rule)
    pub feats: std::collections::BTreeSet<&'static str>,
    /// known-finding ids whose trigger shape was about to be generated and was replaced
    pub excluded: Vec<String>,
    /// number of dynamic-wind bodies the expression being generated will sit in
    pub wind_depth: usize,
}

const LOCAL_NAMES: &[&str] = &["a", "b", "c", "x", "y", "n", "f", "g"];

impl<'c> Gen<'c> {
    pub fn new(data: &'c [u16], opts: GenOpts) -> Self {
        Gen { c: Chooser::new(data), opts, scope: vec![], fresh: 0, feats: Default::default(), excluded: vec![], wind_depth: 0 }
    }

    fn feat(&mut self, f: &'static str) {
        self.feats.insert(f);
    }

    /// true (and counted) if the shape guarded by known finding `id` must be avoided
    fn avoid(&mut self, id: &str) -> bool {
        if self.opts.avoid.iter().any(|x| x == id) {
            self.excluded.push(id.to_string());
            true
        } else {
            false
        }
    }

    /// a local name that is not visible at all (used for internal defines, whose letrec* scope
    /// would otherwise capture references of sibling definitions to outer variables)
    fn unused_local_name(&mut self) -> String {
        let start = self.c.below(LOCAL_NAMES.len());
        for k in 0..LOCAL_NAMES.len() {
            let nm = LOCAL_NAMES[(start + k) % LOCAL_NAMES.len()];
            if !self.scope.iter().any(|v| v.name == nm) {
                return nm.to_string();
            }
        }
        self.fresh += 1;
        format!("d{}", self.fresh)
    }

    fn local_name(&mut self) -> String {
        // colliding spellings on purpose: shadowing is the point
        LOCAL_NAMES[self.c.below(LOCAL_NAMES.len())].to_string()
    }

    fn distinct_names(&mut self, n: usize) -> Vec<String> {
        let mut out: Vec<String> = vec![];
        while out.len() < n {
            let mut nm = self.local_name();
            let mut k = 0;
            while out.contains(&nm) {
                nm = LOCAL_NAMES[(LOCAL_NAMES.iter().position(|x| *x == nm).unwrap() + 1 + k) % LOCAL_NAMES.len()].to_string();
                k += 1;
            }
            out.push(nm);
        }
        out
    }

    fn visible(&self, pred: impl Fn(&VarInfo) -> bool) -> Vec<VarInfo> {
        // innermost binding of each name wins
        let mut seen: Vec<&str> = vec![];
        let mut out = vec![];
        for v in self.scope.iter().rev() {
            if seen.contains(&v.name.as_str()) {
                continue;
            }
            seen.push(&v.name);
            if pred(v) {
                out.push(v.clone());
            }
        }
        out
    }

    fn is_shadowing(&self, name: &str) -> bool {
        self.scope.iter().any(|v| v.name == name)
    }

    fn with_scope<T>(&mut self, vars: Vec<VarInfo>, f: impl FnOnce(&mut Self) -> T) -> T {
        let mark = self.scope.len();
        for v in &vars {
            if self.is_shadowing(&v.name) {
                self.feats.insert("shadowing");
            }
        }
        self.scope.extend(vars);
        let r = f(self);
        self.scope.truncate(mark);
        r
    }

    // -----------------------------------------------------------------------------------
    // expressions by type.  `pure_` = must have no side effects and read only immutable vars.

    pub fn int(&mut self, d: usize, pure_: bool) -> Expr {
        if self.opts.gc_points && d > 0 && self.c.chance(1, 12) {
            // a collection request in the middle of an expression: whatever is live right
            // now lives only on the operand stack / in enclosing frames
            self.feat("gc-point");
            let e = self.int_inner(d, pure_);
            return begin(vec![app("#%gc-collect", vec![]), e]);
        }
        self.int_inner(d, pure_)
    }

    fn int_inner(&mut self, d: usize, pure_: bool) -> Expr {
        let vars = self.visible(|v| v.ty == Ty::Int && (!pure_ || !v.mutable));
        if d == 0 {
            if !vars.is_empty() && self.c.chance(3, 5) {
                let i = self.c.below(vars.len());
                return var(&vars[i].name);
            }
            return int(self.c.range(-3, 12));
        }
        // weights: index 0 must be the simplest
        let o = &self.opts;
        let w: Vec<u32> = vec![
            6,                                                  // 0 literal / variable
            8,                                                  // 1 arithmetic
            5,                                                  // 2 if
            6,                                                  // 3 let family
            5,                                                  // 4 call known procedure
            4,                                                  // 5 immediately applied lambda
            if pure_ { 0 } else { 4 },                          // 6 begin with an effect
            if pure_ { 0 } else { 3 },                          // 7 set! (returns old value)
            4,                                                  // 8 list consumer
            if o.heap { 4 } else { 0 },                         // 9 box / vector read
            3,                                                  // 10 cond / case / and / or / when
            4,                                                  // 11 named let loop
            if o.callcc && !pure_ { 3 } else { 0 },             // 12 call/cc escape
            if o.handlers && !pure_ { 3 } else { 0 },           // 13 with-handler
            if o.errors && !pure_ { 1 } else { 0 },             // 14 live error
            if o.errors { 2 } else { 0 },                       // 15 dead raising code
            3,                                                  // 16 higher-order: apply / fold over literal lists
            2,                                                  // 17 string / char consumers
            if o.winds && !pure_ { 9 } else if o.reentry && !pure_ { 5 } else { 0 }, // 18 dynamic-wind / control templates
            2,                                                  // 19 do loop
            2,                                                  // 20 hash consumers
            if pure_ { 0 } else { 3 },                          // 21 assignment clusters
            4,                                                  // 22 one variable read as an earlier operand of several nested calls
        ];
        match self.c.weighted(&w) {
            0 => self.int(0, pure_),
            1 => {
                let op = ["+", "-", "*", "+", "-", "max", "min"][self.c.below(7)];
                let n = 1 + self.c.below(3);
                // single-operand min/max skip Steel's operand type check: keep to two or more
                let n = if op == "max" || op == "min" { n.max(2) } else { n };
                let args = self.operands(n, d - 1, pure_, |g, d, p| g.int(d, p));
                app(op, args)
            }
            2 => {
                let c = self.boolean(d - 1, pure_);
                let t = self.int(d - 1, pure_);
                let e = self.int(d - 1, pure_);
                iff(c, t, e)
            }
            3 => self.let_family(d, pure_),
            4 => self.call_proc(d, pure_),
            5 => {
                // ((lambda (p ...) body) args ...), possibly with a rest parameter
                let n = self.c.below(3);
                let names = self.distinct_names(n);
                let mut rest = self.c.chance(1, 5);
                if rest && self.avoid("KF-C01-variadic-lambda-application") {
                    rest = false;
                }
                let extra = if rest { self.c.below(3) } else { 0 };
                let args = self.operands(n + extra, d - 1, pure_, |g, d, p| g.int(d, p));
                let mut vars: Vec<VarInfo> = names.iter().map(|n| VarInfo { name: n.clone(), ty: Ty::Int, mutable: false, global: false }).collect();
                let rest_name = if rest {
                    self.feat("rest-args");
                    let r = "r".to_string();
                    vars.push(VarInfo { name: r.clone(), ty: Ty::List, mutable: false, global: false });
                    Some(r)
                } else {
                    None
                };
                let body = self.with_scope(vars, |g| g.body_int(d - 1, pure_));
                call(Expr::Lambda(Box::new(LambdaDef { params: names, opt: vec![], rest: rest_name, body })), args)
            }
            6 => {
                let eff = self.effect(d - 1);
                let v = self.int(d - 1, false);
                begin(vec![eff, v])
            }
            7 => {
                let vars = self.visible(|v| v.ty == Ty::Int && v.mutable);
                if vars.is_empty() {
                    return self.int(d - 1, pure_);
                }
                let v = vars[self.c.below(vars.len())].clone();
                let rhs = self.int(d - 1, false);
                self.feat("set!");
                if v.global {
                    self.feat("set!-global");
                }
                set(&v.name, rhs)
            }
            8 => {
                let l = self.list(d - 1, pure_);
                match self.c.below(4) {
                    0 => app("length", vec![l]),
                    1 => {
                        // guarded car
                        let nm = "t".to_string();
                        Expr::Let(
                            vec![(nm.clone(), l)],
                            Box::new(Body::single(iff(app("null?", vec![var(&nm)]), int(0), app("car", vec![var(&nm)])))),
                        )
                    }
                    2 => app("apply", vec![var("+"), l]),
                    _ => app("foldl", vec![var("+"), int(0), l]),
                }
            }
            9 => {
                let boxes = self.visible(|v| v.ty == Ty::BoxInt && (!pure_ || !v.mutable));
                let vecs = self.visible(|v| matches!(v.ty, Ty::VecInt(n) if n > 0) && (!pure_ || !v.mutable));
                if pure_ {
                    // contents of boxes/vectors are mutable state: not readable in pure operands
                    return self.int(d - 1, pure_);
                }
                if !boxes.is_empty() && (vecs.is_empty() || self.c.chance(1, 2)) {
                    let b = boxes[self.c.below(boxes.len())].clone();
                    app("unbox", vec![var(&b.name)])
                } else if !vecs.is_empty() {
                    let v = vecs[self.c.below(vecs.len())].clone();
                    let Ty::VecInt(n) = v.ty else { unreachable!() };
                    let i = self.c.below(n) as i64;
                    app("vector-ref", vec![var(&v.name), int(i)])
                } else {
                    // allocate and read back
                    let init = self.int(d - 1, pure_);
                    app("unbox", vec![app("box", vec![init])])
                }
            }
            10 => self.cond_like(d, pure_),
            11 => self.named_let(d, pure_),
            12 => self.callcc_escape(d),
            13 => {
                // (with-handler (lambda (e) int) body)
                self.feat("with-handler");
                let h = self.int(d.min(2) - 1, true);
                let body = self.int(d - 1, false);
                Expr::WithHandler(Box::new(lambda(&["e"], Body::single(h))), Box::new(body))
            }
            14 => {
                self.feat("live-error");
                self.raising()
            }
            15 => {
                self.feat("dead-raising-code");
                let r = self.raising();
                let v = self.int(d - 1, pure_);
                if self.c.chance(1, 2) {
                    iff(boolean(false), r, v)
                } else {
                    // (if (< 1 0) ...) style: not a literal, but always false
                    iff(app("<", vec![int(1), int(0)]), r, v)
                }
            }
            16 => {
                let n = 1 + self.c.below(3);
                let p = self.proc_value(n, d - 1, pure_);
                self.feat("higher-order-call");
                let args = self.operands(n, d - 1, pure_, |g, d, p| g.int(d, p));
                match self.c.below(3) {
                    0 => app("apply", vec![p, app("list", args)]),
                    1 if n == 2 => {
                        let lst = app("list", args);
                        app("foldl", vec![p, int(0), lst])
                    }
                    _ => call(p, args),
                }
            }
            17 => {
                let s = self.string(d - 1, pure_);
                match self.c.below(2) {
                    0 => app("string-length", vec![s]),
                    _ => app("char->integer", vec![Expr::Lit(Datum::Char(['a', 'Z', '0', ' '][self.c.below(4)]))]),
                }
            }
            18 => {
                if !self.opts.winds || self.c.chance(3, 4) {
                    self.control(d)
                } else {
                    self.dynamic_wind(d)
                }
            }
            19 => {
                // (do ((i 0 (+ i 1)) (acc init (op acc i))) ((= i k) acc))
                let k = self.c.range(0, 5);
                let init = self.int(d - 1, pure_);
                let names = self.distinct_names(2);
                let (i, acc) = (names[0].clone(), names[1].clone());
                let vars = vec![
                    VarInfo { name: i.clone(), ty: Ty::Int, mutable: false, global: false },
                    VarInfo { name: acc.clone(), ty: Ty::Int, mutable: false, global: false },
                ];
                let step = self.with_scope(vars, |g| g.int(d.min(2) - 1, true));
                self.feat("do-loop");
                Expr::Do(
                    vec![(i.clone(), int(0), Some(app("+", vec![var(&i), int(1)]))), (acc.clone(), init, Some(app("+", vec![var(&acc), step])))],
                    Box::new(app("=", vec![var(&i), int(k)])),
                    vec![var(&acc)],
                    vec![],
                )
            }
            21 => self.set_cluster(d),
            22 => self.reuse_nest(d, pure_),
            _ => {
                let h = self.hash(d - 1, pure_);
                match self.c.below(3) {
                    0 => app("hash-length", vec![h]),
                    1 => app("hash-ref", vec![app("hash-insert", vec![h, sym("k"), int(7)]), sym("k")]),
                    _ => iff(app("hash-contains?", vec![h.clone(), sym("a")]), app("hash-ref", vec![h, sym("a")]), int(-1)),
                }
            }
        }
    }

    /// The same variable read several times as an *earlier* operand of nested calls, its last use in the
    /// innermost call: `(f x (g x (h x k)))`, `(f x x (h x))`, `(apply + (list x (car (list x (* x 2)))))`.
    /// The compiled tiers keep such reads pending (lazy register reads, move of the last use) until the
    /// enclosing call is issued.
    fn reuse_nest(&mut self, d: usize, pure_: bool) -> Expr {
        let vars = self.visible(|v| v.ty == Ty::Int && !v.mutable);
        if vars.is_empty() {
            return self.int(d - 1, pure_);
        }
        self.feat("variable-reused-across-nested-operands");
        let v = vars[self.c.below(vars.len())].name.clone();
        let procs2 = self.visible(|v| matches!(&v.ty, Ty::Proc { n: 2, rest: false, pure_: p } if !pure_ || (*p && !v.mutable)));
        let levels = 2 + self.c.below(3);
        let k = self.c.range(1, 4);
        let mut e = match self.c.below(4) {
            0 => var(&v),
            1 => app("*", vec![var(&v), int(k)]),
            2 => app("car", vec![app("list", vec![var(&v)])]),
            _ => app("-", vec![var(&v), int(k)]),
        };
        for _ in 0..levels {
            e = match self.c.below(8) {
                0 | 1 => app("*", vec![var(&v), e]),
                2 => app("+", vec![var(&v), e]),
                3 => app("max", vec![var(&v), e]),
                4 => app(["+", "*"][self.c.below(2)], vec![var(&v), var(&v), e]),
                5 => app("apply", vec![var("+"), app("list", vec![var(&v), e])]),
                6 => app("car", vec![app("cdr", vec![app("cons", vec![var(&v), app("cons", vec![e, Expr::Quote(Datum::List(vec![]))])])])]),
                _ => {
                    if procs2.is_empty() {
                        app("-", vec![var(&v), e])
                    } else {
                        self.feat("call-known-procedure");
                        app(&procs2[self.c.below(procs2.len())].name, vec![var(&v), e])
                    }
                }
            };
        }
        e
    }

    /// n operands; at most one is impure (and then the others are pure)
    fn operands(&mut self, n: usize, d: usize, pure_: bool, mut f: impl FnMut(&mut Self, usize, bool) -> Expr) -> Vec<Expr> {
        let impure_at = if pure_ || n == 0 { usize::MAX } else if self.c.chance(1, 3) { self.c.below(n) } else { usize::MAX };
        (0..n).map(|i| f(self, d, i != impure_at)).collect()
    }

    fn raising(&mut self) -> Expr {
        match self.c.below(5) {
            0 => app("car", vec![int(5)]),
            1 => app("error", vec![string("boom")]),
            2 => app("vector-ref", vec![app("vector", vec![int(1), int(2)]), int(9)]),
            3 => app("+", vec![int(1), string("x")]),
            _ => app("hash-ref", vec![app("hash", vec![]), sym("missing")]),
        }
    }

    pub fn boolean(&mut self, d: usize, pure_: bool) -> Expr {
        if d == 0 {
            return boolean(self.c.chance(1, 2));
        }
        match self.c.weighted(&[2, 8, 3, 2, 2, 2]) {
            0 => boolean(self.c.chance(1, 2)),
            1 => {
                let op = ["<", "=", ">", "<=", ">="][self.c.below(5)];
                let args = self.operands(2, d - 1, pure_, |g, d, p| g.int(d, p));
                app(op, args)
            }
            2 => {
                let l = self.list(d - 1, pure_);
                app("null?", vec![l])
            }
            3 => {
                let b = self.boolean(d - 1, pure_);
                app("not", vec![b])
            }
            4 => {
                let i = self.int(d - 1, pure_);
                app(["even?", "odd?", "zero?"][self.c.below(3)], vec![i])
            }
            _ => {
                let n = 1 + self.c.below(2);
                let parts: Vec<Expr> = (0..n).map(|_| self.boolean(d - 1, pure_)).collect();
                if self.c.chance(1, 2) {
                    Expr::And(parts)
                } else {
                    Expr::Or(parts)
                }
            }
        }
    }

    pub fn list(&mut self, d: usize, pure_: bool) -> Expr {
        let vars = self.visible(|v| v.ty == Ty::List && (!pure_ || !v.mutable));
        if d == 0 || self.c.chance(1, 4) {
            if !vars.is_empty() && self.c.chance(1, 2) {
                return var(&vars[self.c.below(vars.len())].name);
            }
            let n = self.c.below(4);
            return Expr::Quote(Datum::List((0..n).map(|_| Datum::Int(self.c.range(-2, 9))).collect()));
        }
        match self.c.below(7) {
            0 => {
                let n = self.c.below(4);
                let items = self.operands(n, d - 1, pure_, |g, d, p| g.int(d, p));
                app("list", items)
            }
            1 => {
                let ops = self.operands(2, d - 1, pure_, |g, d, p| g.int(d, p));
                let tail = self.list(d - 1, true);
                app("cons", vec![ops[0].clone(), tail])
            }
            2 => {
                let f = self.proc_value(1, d - 1, pure_);
                let l = self.list(d - 1, true);
                self.feat("map");
                app("map", vec![f, l])
            }
            3 => {
                let l = self.list(d - 1, pure_);
                let pred = ["even?", "odd?", "positive?"][self.c.below(3)];
                app("filter", vec![var(pred), l])
            }
            4 => {
                let a = self.list(d - 1, pure_);
                let b = self.list(d - 1, true);
                app("append", vec![a, b])
            }
            5 => {
                let l = self.list(d - 1, pure_);
                app("reverse", vec![l])
            }
            _ => {
                // guarded cdr
                let l = self.list(d - 1, pure_);
                Expr::Let(
                    vec![("t".to_string(), l)],
                    Box::new(Body::single(iff(app("null?", vec![var("t")]), Expr::Quote(Datum::List(vec![])), app("cdr", vec![var("t")])))),
                )
            }
        }
    }

    pub fn string(&mut self, d: usize, pure_: bool) -> Expr {
        if d == 0 || self.c.chance(1, 2) {
            return string(["", "a", "hello", "x y", "Zz9"][self.c.below(5)]);
        }
        match self.c.below(3) {
            0 => {
                let a = self.string(d - 1, pure_);
                let b = self.string(d - 1, true);
                app("string-append", vec![a, b])
            }
            1 => {
                let i = self.int(d - 1, pure_);
                app("number->string", vec![i])
            }
            _ => app("symbol->string", vec![sym(["a", "foo", "x1"][self.c.below(3)])]),
        }
    }

    pub fn hash(&mut self, d: usize, pure_: bool) -> Expr {
        let n = self.c.below(3);
        let keys = ["a", "b", "c"];
        let mut args = vec![];
        for k in keys.iter().take(n) {
            args.push(sym(k));
            args.push(self.int(d.min(1), true));
        }
        let _ = pure_;
        app("hash", args)
    }

    /// an expression evaluating to a procedure of n int parameters returning an int
    fn proc_value(&mut self, n: usize, d: usize, pure_: bool) -> Expr {
        let vars = self.visible(|v| match &v.ty {
            Ty::Proc { n: m, rest, pure_: p } => (*m == n || (*rest && *m <= n)) && (!pure_ || (*p && !v.mutable)),
            _ => false,
        });
        if !vars.is_empty() && self.c.chance(1, 2) {
            return var(&vars[self.c.below(vars.len())].name);
        }
        if n == 2 && self.c.chance(1, 4) {
            return var(["+", "*", "-", "max"][self.c.below(4)]);
        }
        let names = self.distinct_names(n);
        let vars: Vec<VarInfo> = names.iter().map(|n| VarInfo { name: n.clone(), ty: Ty::Int, mutable: false, global: false }).collect();
        let body = self.with_scope(vars, |g| g.body_int(d.saturating_sub(1), pure_));
        self.feat("lambda-value");
        Expr::Lambda(Box::new(LambdaDef { params: names, opt: vec![], rest: None, body }))
    }

    fn call_proc(&mut self, d: usize, pure_: bool) -> Expr {
        let vars = self.visible(|v| matches!(&v.ty, Ty::Proc { pure_: p, .. } if !pure_ || (*p && !v.mutable)));
        if vars.is_empty() {
            return self.int(d - 1, pure_);
        }
        let v = vars[self.c.below(vars.len())].clone();
        let Ty::Proc { n, rest, .. } = v.ty.clone() else { unreachable!() };
        let extra = if rest { self.c.below(3) } else { 0 };
        if rest {
            self.feat("rest-args");
        }
        let wrong_arity = self.opts.errors && !pure_ && !rest && self.c.chance(1, 40);
        let count = if wrong_arity {
            self.feat("live-error");
            n + 1
        } else {
            n + extra
        };
        let args = self.operands(count, d - 1, pure_, |g, d, p| g.int(d, p));
        self.feat("call-known-procedure");
        app(&v.name, args)
    }

    /// an effectful expression whose value is ignored
    fn effect(&mut self, d: usize) -> Expr {
        let mut opts: Vec<u32> = vec![];
        let ints = self.visible(|v| v.ty == Ty::Int && v.mutable);
        let boxes = self.visible(|v| v.ty == Ty::BoxInt);
        let vecs = self.visible(|v| matches!(v.ty, Ty::VecInt(n) if n > 0));
        opts.push(if self.opts.output { 4 } else { 0 }); // display
        opts.push(if ints.is_empty() { 0 } else { 5 }); // set!
        opts.push(if boxes.is_empty() { 0 } else { 4 }); // set-box!
        opts.push(if vecs.is_empty() { 0 } else { 4 }); // vector-set!
        if opts.iter().all(|x| *x == 0) {
            return var("void");
        }
        match self.c.weighted(&opts) {
            0 => {
                self.feat("output");
                let v = match self.c.below(4) {
                    0 => self.int(d, false),
                    1 => self.string(d.min(1), true),
                    2 => self.list(d.min(2), true),
                    _ => sym(["ok", "tick", "x"][self.c.below(3)]),
                };
                if self.c.chance(1, 3) {
                    begin(vec![app("display", vec![v]), app("newline", vec![])])
                } else {
                    app("display", vec![v])
                }
            }
            1 => {
                let v = ints[self.c.below(ints.len())].clone();
                let rhs = self.int(d, false);
                self.feat("set!");
                if v.global {
                    self.feat("set!-global");
                }
                set(&v.name, rhs)
            }
            2 => {
                let b = boxes[self.c.below(boxes.len())].clone();
                let rhs = self.int(d, false);
                self.feat("set-box!");
                app("set-box!", vec![var(&b.name), rhs])
            }
            _ => {
                let v = vecs[self.c.below(vecs.len())].clone();
                let Ty::VecInt(n) = v.ty else { unreachable!() };
                let i = self.c.below(n) as i64;
                let rhs = self.int(d, false);
                self.feat("vector-set!");
                app("vector-set!", vec![var(&v.name), int(i), rhs])
            }
        }
    }

    /// body of int type: optional internal defines, optional effects, final int
    fn body_int(&mut self, d: usize, pure_: bool) -> Body {
        let mut defs = vec![];
        let mut vars = vec![];
        if d > 0 && self.c.chance(1, 5) {
            // internal definitions: a helper function and/or a constant, siblings may use them
            self.feat("internal-define");
            // an internal define must not capture a reference that a sibling makes to an outer
            // variable of the same name (the generator's scope tracking is lexical-outward)
            let nm = self.unused_local_name();
            let pnames = self.distinct_names(1);
            // the name being defined is not usable inside its own definition (letrec* scope)
            let pv = vec![
                VarInfo { name: nm.clone(), ty: Ty::Sym, mutable: false, global: false },
                VarInfo { name: pnames[0].clone(), ty: Ty::Int, mutable: false, global: false },
            ];
            let fbody = self.with_scope(pv, |g| Body::single(g.int(d - 1, true)));
            defs.push((nm.clone(), Expr::Lambda(Box::new(LambdaDef { params: pnames, opt: vec![], rest: None, body: fbody }))));
            vars.push(VarInfo { name: nm.clone(), ty: Ty::Proc { n: 1, rest: false, pure_: true }, mutable: false, global: false });
            if self.c.chance(1, 2) {
                let mut cn = self.unused_local_name();
                if cn == nm {
                    cn = format!("{}2", cn);
                }
                let mut sc = vars.clone();
                sc.push(VarInfo { name: cn.clone(), ty: Ty::Sym, mutable: false, global: false });
                let init = self.with_scope(sc, |g| g.int(d - 1, true));
                let mutable = !pure_ && self.c.chance(1, 2);
                defs.push((cn.clone(), init));
                vars.push(VarInfo { name: cn, ty: Ty::Int, mutable, global: false });
            }
        }
        let exprs = self.with_scope(vars, |g| {
            let mut exprs = vec![];
            if !pure_ && d > 0 && g.c.chance(1, 4) {
                exprs.push(g.effect(d - 1));
            }
            exprs.push(g.int(d, pure_));
            exprs
        });
        Body { defs, exprs }
    }

    fn let_family(&mut self, d: usize, pure_: bool) -> Expr {
        let n = 1 + self.c.below(3);
        let names = self.distinct_names(n);
        let kind = self.c.below(4); // 0 let, 1 let*, 2 letrec (of lambdas), 3 let with typed extras
        let mut binds: Vec<(String, Expr)> = vec![];
        let mut vars: Vec<VarInfo> = vec![];
        match kind {
            1 => {
                self.feat("let*");
                for nm in &names {
                    let mutable = !pure_ && self.c.chance(1, 3);
                    let init = self.with_scope(vars.clone(), |g| g.int(d - 1, pure_));
                    binds.push((nm.clone(), init));
                    vars.push(VarInfo { name: nm.clone(), ty: Ty::Int, mutable, global: false });
                }
                let body = self.with_scope(vars, |g| g.body_int(d - 1, pure_));
                Expr::LetStar(binds, Box::new(body))
            }
            2 => {
                self.feat("letrec");
                // letrec names shadowing a visible variable: see KF-C01-define-shadows-constant
                let names: Vec<String> = if self.avoid("KF-C01-define-shadows-constant") {
                    let mut out: Vec<String> = vec![];
                    for _ in 0..n {
                        let mut nm = self.unused_local_name();
                        while out.contains(&nm) {
                            self.fresh += 1;
                            nm = format!("d{}", self.fresh);
                        }
                        out.push(nm);
                    }
                    out
                } else {
                    names.clone()
                };
                // mutually visible pure helper functions
                for nm in &names {
                    vars.push(VarInfo { name: nm.clone(), ty: Ty::Proc { n: 1, rest: false, pure_: true }, mutable: false, global: false });
                }
                for (i, nm) in names.iter().enumerate() {
                    let p = self.distinct_names(1);
                    // a letrec function may call only functions bound *before* it (no cycles => terminates)
                    let callable: Vec<VarInfo> = vars[..i].to_vec();
                    let pv = VarInfo { name: p[0].clone(), ty: Ty::Int, mutable: false, global: false };
                    let mut sc = callable;
                    sc.push(pv);
                    let b = self.with_scope(sc, |g| Body::single(g.int(d - 1, true)));
                    binds.push((nm.clone(), Expr::Lambda(Box::new(LambdaDef { params: p, opt: vec![], rest: None, body: b }))));
                }
                let body = self.with_scope(vars, |g| g.body_int(d - 1, pure_));
                Expr::Letrec(binds, Box::new(body))
            }
            _ => {
                // parallel let: at most one impure init
                let impure_at = if pure_ { usize::MAX } else if self.c.chance(1, 3) { self.c.below(n) } else { usize::MAX };
                for (i, nm) in names.iter().enumerate() {
                    let p = pure_ || i != impure_at;
                    // typed extras: boxes, vectors, lists, closures over mutable state
                    let (init, ty) = if kind == 3 && self.opts.heap && !pure_ {
                        match self.c.below(5) {
                            0 => {
                                let v = self.int(d - 1, p);
                                (app("box", vec![v]), Ty::BoxInt)
                            }
                            1 => {
                                let k = 1 + self.c.below(3);
                                let items: Vec<Expr> = (0..k).map(|_| self.int(0, true)).collect();
                                (app("vector", items), Ty::VecInt(k))
                            }
                            2 => (self.list(d - 1, p), Ty::List),
                            3 => {
                                let k = 1 + self.c.below(2);
                                (self.proc_value(k, d - 1, true), Ty::Proc { n: k, rest: false, pure_: true })
                            }
                            _ => (self.int(d - 1, p), Ty::Int),
                        }
                    } else {
                        (self.int(d - 1, p), Ty::Int)
                    };
                    let mutable = !pure_ && ty == Ty::Int && self.c.chance(1, 3);
                    binds.push((nm.clone(), init));
                    vars.push(VarInfo { name: nm.clone(), ty, mutable, global: false });
                }
                // a counter closure over a mutable binding: the classic captured-and-assigned case
                let body = self.with_scope(vars.clone(), |g| {
                    let muts: Vec<VarInfo> = vars.iter().filter(|v| v.mutable).cloned().collect();
                    if !muts.is_empty() && g.c.chance(1, 2) {
                        g.feat("closure-over-assigned-variable");
                        let m = muts[g.c.below(muts.len())].clone();
                        let step = g.c.range(1, 3);
                        let bump = lambda(&[], Body { defs: vec![], exprs: vec![set(&m.name, app("+", vec![var(&m.name), int(step)])), var(&m.name)] });
                        let fname = "bump".to_string();
                        let fv = VarInfo { name: fname.clone(), ty: Ty::Proc { n: 0, rest: false, pure_: false }, mutable: false, global: false };
                        let inner = g.with_scope(vec![fv], |g| {
                            let calls = 1 + g.c.below(3);
                            let mut exprs: Vec<Expr> = (0..calls).map(|_| app(&fname, vec![])).collect();
                            exprs.push(g.int(d.saturating_sub(2), false));
                            Body { defs: vec![], exprs }
                        });
                        Body::single(Expr::Let(vec![(fname.clone(), bump)], Box::new(inner)))
                    } else {
                        g.body_int(d - 1, pure_)
                    }
                });
                Expr::Let(binds, Box::new(body))
            }
        }
    }

    /// Clusters of assignments to literal-initialised locals: reader closures created before the
    /// assignment, assignments nested in the right-hand side of another assignment, mutators
    /// installed with set!.  (What a constant folder must not fold.)
    fn set_cluster(&mut self, d: usize) -> Expr {
        self.feat("set!");
        self.feat("closure-over-assigned-variable");
        self.feat("assignment-cluster");
        let names = self.distinct_names(2);
        let (a, b) = (names[0].clone(), names[1].clone());
        let la = self.c.range(0, 12);
        let lb = self.c.range(0, 12);
        let k = self.c.range(1, 5);
        let vars = vec![
            VarInfo { name: a.clone(), ty: Ty::Int, mutable: true, global: false },
            VarInfo { name: b.clone(), ty: Ty::Int, mutable: true, global: false },
        ];
        let ea = self.with_scope(vars.clone(), |g| g.int(d.min(2) - 1, true));
        let ea = app("+", vec![ea, int(k)]);
        match self.c.below(4) {
            0 => {
                // reader closure first, then (set! b (begin (set! a ..) ..)), then read both ways
                Expr::Let(
                    vec![(a.clone(), int(la)), (b.clone(), int(lb))],
                    Box::new(Body::single(Expr::Let(
                        vec![("rd".into(), lambda(&[], Body::single(app("+", vec![var(&a), app("*", vec![int(100), var(&b)])]))))],
                        Box::new(Body {
                            defs: vec![],
                            exprs: vec![set(&b, begin(vec![set(&a, ea), int(k)])), app("+", vec![app("rd", vec![]), app("*", vec![int(10000), var(&a)])])],
                        }),
                    ))),
                )
            }
            1 => {
                // internal define reading a, nested assignment, then the call
                Expr::Let(
                    vec![(a.clone(), int(la)), (b.clone(), int(lb))],
                    Box::new(Body {
                        defs: vec![("show".into(), lambda(&[], Body::single(app("list", vec![var(&a), var(&b)]))))],
                        exprs: vec![set(&b, begin(vec![set(&a, ea), int(k)])), app("apply", vec![var("+"), app("show", vec![])])],
                    }),
                )
            }
            2 => {
                // mutator and reader installed with set!
                Expr::Let(
                    vec![(a.clone(), int(la)), ("peek".into(), boolean(false)), ("bump".into(), boolean(false))],
                    Box::new(Body {
                        defs: vec![],
                        exprs: vec![
                            set("peek", lambda(&[], Body::single(var(&a)))),
                            set("bump", lambda(&[], Body { defs: vec![], exprs: vec![set(&a, app("+", vec![var(&a), int(k)])), var(&a)] })),
                            app("bump", vec![]),
                            app("bump", vec![]),
                            app("+", vec![app("peek", vec![]), app("*", vec![int(1000), var(&a)])]),
                        ],
                    }),
                )
            }
            _ => {
                // a loop whose body reads a variable textually before an assignment nested in
                // the value of another assignment
                let n = self.c.range(1, 4);
                Expr::Let(
                    vec![(a.clone(), int(la.max(1))), (b.clone(), Expr::Quote(Datum::List(vec![])))],
                    Box::new(Body::single(Expr::NamedLet(
                        "loop".into(),
                        vec![("i".into(), int(0))],
                        Box::new(Body::single(iff(
                            app("<", vec![var("i"), int(n)]),
                            begin(vec![
                                set(&b, app("cons", vec![var(&a), begin(vec![set(&a, app("*", vec![var(&a), int(2)])), var(&b)])])),
                                app("loop", vec![app("+", vec![var("i"), int(1)])]),
                            ]),
                            app("apply", vec![var("+"), var(&b)]),
                        ))),
                    ))),
                )
            }
        }
    }

    fn cond_like(&mut self, d: usize, pure_: bool) -> Expr {
        match self.c.below(5) {
            0 => {
                let n = 1 + self.c.below(3);
                let clauses: Vec<(Expr, CondRhs)> = (0..n)
                    .map(|_| {
                        let t = self.boolean(d - 1, pure_);
                        let v = self.int(d - 1, pure_);
                        (t, CondRhs::Exprs(vec![v]))
                    })
                    .collect();
                let els = self.int(d - 1, pure_);
                self.feat("cond");
                Expr::Cond(clauses, Some(vec![els]))
            }
            1 => {
                let k = self.int(d - 1, pure_);
                let c1: Vec<Datum> = (0..1 + self.c.below(2)).map(|_| Datum::Int(self.c.range(0, 4))).collect();
                let c2: Vec<Datum> = (0..1 + self.c.below(2)).map(|_| Datum::Int(self.c.range(3, 8))).collect();
                let v1 = self.int(d - 1, pure_);
                let v2 = self.int(d - 1, pure_);
                let els = self.int(d - 1, pure_);
                self.feat("case");
                Expr::Case(Box::new(k), vec![(c1, vec![v1]), (c2, vec![v2])], Some(vec![els]))
            }
            2 => {
                // (or #f int) / (and #t int): values, not just booleans
                let b = self.boolean(d - 1, pure_);
                let v = self.int(d - 1, pure_);
                let w = self.int(d - 1, pure_);
                iff(Expr::And(vec![b, boolean(true)]), v, w)
            }
            3 => {
                // cond with => receiver
                let l = self.list(d - 1, pure_);
                let els = self.int(d - 1, pure_);
                self.feat("cond-arrow");
                Expr::Cond(
                    vec![(app("member", vec![int(2), l]), CondRhs::Arrow(var("length")))],
                    Some(vec![els]),
                )
            }
            _ => {
                let c = self.boolean(d - 1, pure_);
                let v = self.int(d - 1, pure_);
                // (let ((t (when c v))) (if (number? t) t 0))
                Expr::Let(
                    vec![("t".to_string(), Expr::When(Box::new(c), vec![v]))],
                    Box::new(Body::single(iff(app("number?", vec![var("t")]), var("t"), int(0)))),
                )
            }
        }
    }

    fn named_let(&mut self, d: usize, pure_: bool) -> Expr {
        let k = self.c.range(0, 6);
        let names = self.distinct_names(2);
        let (i, acc) = (names[0].clone(), names[1].clone());
        let init = self.int(d - 1, pure_);
        let vars = vec![
            VarInfo { name: i.clone(), ty: Ty::Int, mutable: false, global: false },
            VarInfo { name: acc.clone(), ty: Ty::Int, mutable: false, global: false },
        ];
        let lp = ["loop", "lp", "go"][self.c.below(3)].to_string();
        let step = self.with_scope(vars.clone(), |g| g.int(d.min(3) - 1, pure_));
        let op = ["+", "-", "max"][self.c.below(3)];
        self.feat("named-let");
        let recur = app(&lp, vec![app("+", vec![var(&i), int(1)]), app(op, vec![var(&acc), step])]);
        // the recursive call sits in tail position of `if`, sometimes under let / begin / cond
        let recur = match self.c.below(4) {
            0 => recur,
            1 => Expr::Let(vec![("t".to_string(), var(&acc))], Box::new(Body::single(recur))),
            2 => begin(vec![var("void"), recur]),
            _ => Expr::Cond(vec![(boolean(true), CondRhs::Exprs(vec![recur]))], None),
        };
        Expr::NamedLet(
            lp,
            vec![(i.clone(), int(0)), (acc.clone(), init)],
            Box::new(Body::single(iff(app("<", vec![var(&i), int(k)]), recur, var(&acc)))),
        )
    }

    fn callcc_escape(&mut self, d: usize) -> Expr {
        // (call/cc (lambda (k) body)) where body may call (k v) at some depth
        self.feat("call/cc");
        let kname = "k".to_string();
        let kv = VarInfo { name: kname.clone(), ty: Ty::Cont, mutable: false, global: false };
        let body = self.with_scope(vec![kv], |g| {
            let v = g.int(d - 1, false);
            match g.c.below(4) {
                0 => Body::single(v),
                1 => Body::single(app(&kname, vec![v])),
                2 => {
                    // escape from inside an argument position
                    let w = g.int(d - 1, true);
                    Body::single(app("+", vec![w, app(&kname, vec![v])]))
                }
                _ => {
                    // escape from inside a map callback
                    let l = g.list(d.min(2) - 1, true);
                    g.feat("escape-from-map");
                    let x = "x".to_string();
                    Body {
                        defs: vec![],
                        exprs: vec![
                            app("for-each", vec![lambda(&["x"], Body::single(iff(app(">", vec![var(&x), int(3)]), app(&kname, vec![var(&x)]), var("void")))), l]),
                            v,
                        ],
                    }
                }
            }
        });
        Expr::CallCC(Box::new(Expr::Lambda(Box::new(LambdaDef { params: vec![kname], opt: vec![], rest: None, body }))))
    }

    /// Control templates for C08: continuations stored in boxes and re-entered, dynamic-wind
    /// crossed by escapes / re-entries / errors, handlers.  All state that must survive a
    /// re-entry lives in boxes (DESIGN.md 2.3); every template terminates by a boxed countdown.
    pub fn control(&mut self, d: usize) -> Expr {
        let tag = self.c.range(0, 9);
        let before = lambda(&[], Body::single(app("display", vec![string(&format!("<{}", tag))])));
        let after = lambda(&[], Body::single(app("display", vec![string(&format!("{}>", tag))])));
        let n = self.c.range(1, 3);
        let step = self.c.range(1, 9);
        let pick = if self.opts.winds { self.c.below(12) } else { [0usize, 1, 6, 8, 9][self.c.below(5)] };
        match pick {
            0 => {
                // generator: the continuation of a let binding is re-entered n times
                self.feat("continuation-reentry");
                let inner = self.int(d.saturating_sub(2), true);
                Expr::Let(
                    vec![("kb".into(), app("box", vec![boolean(false)])), ("cnt".into(), app("box", vec![int(0)])), ("tr".into(), app("box", vec![Expr::Quote(Datum::List(vec![]))]))],
                    Box::new(Body::single(Expr::Let(
                        vec![("v".into(), Expr::CallCC(Box::new(lambda(&["k"], Body { defs: vec![], exprs: vec![app("set-box!", vec![var("kb"), var("k")]), inner]}))))],
                        Box::new(Body {
                            defs: vec![],
                            exprs: vec![
                                app("set-box!", vec![var("tr"), app("cons", vec![var("v"), app("unbox", vec![var("tr")])])]),
                                iff(
                                    app("<", vec![app("unbox", vec![var("cnt")]), int(n)]),
                                    begin(vec![
                                        app("set-box!", vec![var("cnt"), app("+", vec![app("unbox", vec![var("cnt")]), int(1)])]),
                                        call(app("unbox", vec![var("kb")]), vec![app("+", vec![var("v"), int(step)])]),
                                    ]),
                                    app("apply", vec![var("+"), app("unbox", vec![var("tr")])]),
                                ),
                            ],
                        }),
                    ))),
                )
            }
            1 => {
                // capture in argument position: pending (+ 100 []) is resumed on every re-entry
                self.feat("continuation-reentry");
                self.feat("capture-in-argument-position");
                Expr::Let(
                    vec![("kb".into(), app("box", vec![boolean(false)])), ("cnt".into(), app("box", vec![int(0)]))],
                    Box::new(Body::single(Expr::Let(
                        vec![("r".into(), app("+", vec![int(100), Expr::CallCC(Box::new(lambda(&["k"], Body { defs: vec![], exprs: vec![app("set-box!", vec![var("kb"), var("k")]), int(1)] })))]))],
                        Box::new(Body {
                            defs: vec![],
                            exprs: vec![
                                app("display", vec![var("r")]),
                                app("display", vec![string(" ")]),
                                iff(
                                    app("<", vec![app("unbox", vec![var("cnt")]), int(n)]),
                                    begin(vec![
                                        app("set-box!", vec![var("cnt"), app("+", vec![app("unbox", vec![var("cnt")]), int(1)])]),
                                        call(app("unbox", vec![var("kb")]), vec![app("*", vec![int(step), app("unbox", vec![var("cnt")])])]),
                                    ]),
                                    var("r"),
                                ),
                            ],
                        }),
                    ))),
                )
            }
            2 => {
                // escape out of a dynamic-wind body
                self.feat("dynamic-wind");
                self.feat("escape-through-wind");
                self.wind_depth += 1;
                let v = self.int(d.saturating_sub(2), true);
                self.wind_depth -= 1;
                Expr::CallCC(Box::new(lambda(
                    &["k"],
                    Body::single(Expr::DynamicWind(
                        Box::new(before),
                        Box::new(lambda(&[], Body { defs: vec![], exprs: vec![app("display", vec![string("body")]), call(var("k"), vec![v]), app("display", vec![string("not-reached")]), int(0)] })),
                        Box::new(after),
                    )),
                )))
            }
            3 => {
                // re-entry into a dynamic-wind body (1-3 nested extents): the before thunks run
                // again, outermost first; optionally the re-entering call sits in a sibling wind
                // which is left on the way (common-ancestor rewinding)
                self.feat("dynamic-wind");
                self.feat("reentry-into-wind");
                self.feat("continuation-reentry");
                let levels = self.c.range(1, 3);
                let sibling = self.c.chance(1, 3);
                if levels >= 2 {
                    self.feat("reentry-into-nested-winds");
                }
                if sibling {
                    self.feat("reentry-from-sibling-wind");
                }
                let mut inner = Expr::DynamicWind(
                    Box::new(before),
                    Box::new(lambda(&[], Body { defs: vec![], exprs: vec![Expr::CallCC(Box::new(lambda(&["k"], Body::single(app("set-box!", vec![var("kb"), var("k")]))))), app("display", vec![string("in")])] })),
                    Box::new(after),
                );
                for lv in 1..levels {
                    let t = format!("{}{}", ["a", "b", "c"][lv as usize % 3], tag);
                    inner = Expr::DynamicWind(
                        Box::new(lambda(&[], Body::single(app("display", vec![string(&format!("<{}", t))])))),
                        Box::new(lambda(&[], Body { defs: vec![], exprs: vec![inner, app("display", vec![string(&format!("mid{}", lv))])] })),
                        Box::new(lambda(&[], Body::single(app("display", vec![string(&format!("{}>", t))])))),
                    );
                }
                let reenter = begin(vec![
                    app("set-box!", vec![var("cnt"), app("+", vec![app("unbox", vec![var("cnt")]), int(1)])]),
                    call(app("unbox", vec![var("kb")]), vec![int(0)]),
                ]);
                let reenter = if sibling {
                    Expr::DynamicWind(
                        Box::new(lambda(&[], Body::single(app("display", vec![string("<s")])))),
                        Box::new(lambda(&[], Body::single(reenter))),
                        Box::new(lambda(&[], Body::single(app("display", vec![string("s>")])))),
                    )
                } else {
                    reenter
                };
                Expr::Let(
                    vec![("kb".into(), app("box", vec![boolean(false)])), ("cnt".into(), app("box", vec![int(0)]))],
                    Box::new(Body {
                        defs: vec![],
                        exprs: vec![inner, iff(app("<", vec![app("unbox", vec![var("cnt")]), int(n)]), reenter, app("unbox", vec![var("cnt")]))],
                    }),
                )
            }
            4 => {
                // an error crosses a wind on its way to a handler
                self.feat("dynamic-wind");
                self.feat("with-handler");
                self.feat("error-through-wind");
                let hv = self.int(0, true);
                let r = self.raising();
                Expr::WithHandler(
                    Box::new(lambda(&["e"], Body { defs: vec![], exprs: vec![app("display", vec![string("H")]), hv] })),
                    Box::new(Expr::DynamicWind(
                        Box::new(before),
                        Box::new(lambda(&[], Body { defs: vec![], exprs: vec![app("display", vec![string("body")]), r, int(0)] })),
                        Box::new(after),
                    )),
                )
            }
            5 => {
                // normal return through nested winds
                self.feat("dynamic-wind");
                self.wind_depth += 1;
                let v = self.int(d.saturating_sub(2), false);
                self.wind_depth -= 1;
                let inner = Expr::DynamicWind(
                    Box::new(lambda(&[], Body::single(app("display", vec![string("(")])))),
                    Box::new(lambda(&[], Body::single(v))),
                    Box::new(lambda(&[], Body::single(app("display", vec![string(")")])))),
                );
                Expr::DynamicWind(Box::new(before), Box::new(lambda(&[], Body::single(inner))), Box::new(after))
            }
            6 => {
                // re-entry into a map callback: earlier returns of map are not mutated
                self.feat("continuation-reentry");
                self.feat("reentry-into-map");
                Expr::Let(
                    vec![("kb".into(), app("box", vec![boolean(false)])), ("cnt".into(), app("box", vec![int(0)]))],
                    Box::new(Body::single(Expr::Let(
                        vec![(
                            "l".into(),
                            app(
                                "map",
                                vec![
                                    lambda(&["x"], Body::single(Expr::CallCC(Box::new(lambda(&["k"], Body { defs: vec![], exprs: vec![iff(app("=", vec![var("x"), int(2)]), app("set-box!", vec![var("kb"), var("k")]), var("void")), var("x")] }))))),
                                    Expr::Quote(Datum::List(vec![Datum::Int(1), Datum::Int(2), Datum::Int(3)])),
                                ],
                            ),
                        )],
                        Box::new(Body::single(iff(
                            app("<", vec![app("unbox", vec![var("cnt")]), int(n)]),
                            begin(vec![
                                app("set-box!", vec![var("cnt"), app("+", vec![app("unbox", vec![var("cnt")]), int(1)])]),
                                call(app("unbox", vec![var("kb")]), vec![app("*", vec![int(10), app("unbox", vec![var("cnt")])])]),
                            ]),
                            app("apply", vec![var("+"), var("l")]),
                        ))),
                    ))),
                )
            }
            7 => {
                // handler value and nesting: inner handles, outer untouched
                self.feat("with-handler");
                self.feat("nested-handlers");
                let r = self.raising();
                let v = self.int(0, true);
                Expr::WithHandler(
                    Box::new(lambda(&["e"], Body { defs: vec![], exprs: vec![app("display", vec![string("outer")]), int(-1)] })),
                    Box::new(app(
                        "+",
                        vec![
                            int(1),
                            Expr::WithHandler(Box::new(lambda(&["e"], Body { defs: vec![], exprs: vec![app("display", vec![string("inner")]), v] })), Box::new(begin(vec![r, int(0)]))),
                        ],
                    )),
                )
            }
            8 => {
                // re-entry into a recursion whose frames run different instances of ONE lambda, each
                // capturing its own box and reachable only through its frame (the instance is a temporary
                // that was called at once); garbage is allocated while the continuation is the only
                // holder of those frames, then it is re-entered and the boxes are read on the way out
                self.feat("call/cc");
                self.feat("continuation-reentry");
                self.feat("reentry-into-closure-instance-recursion");
                let depth = self.c.range(2, 6);
                let churn = self.c.range(20, 120);
                let visitor = lambda(
                    &["i"],
                    Body::single(iff(
                        app("=", vec![var("i"), int(0)]),
                        Expr::CallCC(Box::new(lambda(&["k"], Body { defs: vec![], exprs: vec![app("set-box!", vec![var("kb"), var("k")]), int(0)] }))),
                        // the box is read AFTER the inner call has returned (on every re-entry again)
                        Expr::Let(
                            vec![("below".into(), call(app("mk", vec![app("box", vec![app("*", vec![var("i"), int(step)])])]), vec![app("-", vec![var("i"), int(1)])]))],
                            Box::new(Body::single(app("+", vec![var("below"), app("unbox", vec![var("b")])]))),
                        ),
                    )),
                );
                let mut after: Vec<Expr> = vec![];
                if self.opts.gc_points {
                    after.push(app("#%gc-collect", vec![]));
                }
                after.push(Expr::NamedLet(
                    "churn".into(),
                    vec![("j".into(), int(0)), ("keep".into(), Expr::Quote(Datum::List(vec![])))],
                    Box::new(Body::single(iff(
                        app("<", vec![var("j"), int(churn)]),
                        app("churn", vec![app("+", vec![var("j"), int(1)]), app("cons", vec![app("box", vec![app("-", vec![int(0), var("j")])]), var("keep")])]),
                        app("length", vec![var("keep")]),
                    ))),
                ));
                after.push(iff(
                    app("<", vec![app("unbox", vec![var("cnt")]), int(n)]),
                    begin(vec![
                        app("set-box!", vec![var("cnt"), app("+", vec![app("unbox", vec![var("cnt")]), int(1)])]),
                        call(app("unbox", vec![var("kb")]), vec![app("*", vec![int(10), app("unbox", vec![var("cnt")])])]),
                    ]),
                    var("r"),
                ));
                Expr::Let(
                    vec![("kb".into(), app("box", vec![boolean(false)])), ("cnt".into(), app("box", vec![int(0)]))],
                    Box::new(Body::single(Expr::Letrec(
                        vec![("mk".into(), lambda(&["b"], Body::single(visitor)))],
                        Box::new(Body::single(Expr::Let(
                            vec![("r".into(), call(app("mk", vec![app("box", vec![int(1)])]), vec![int(depth)]))],
                            Box::new(Body { defs: vec![], exprs: after }),
                        ))),
                    ))),
                )
            }
            10 if self.opts.handlers && self.opts.errors => {
                // an error raised inside a call/cc receiver is caught by an enclosing handler; the continuation
                // captured there is invoked later and delivers its argument to the handler form's continuation
                self.feat("call/cc");
                self.feat("with-handler");
                self.feat("continuation-reentry");
                self.feat("reentry-after-caught-error");
                let r = self.raising();
                Expr::Let(
                    vec![("kb".into(), app("box", vec![boolean(false)])), ("cnt".into(), app("box", vec![int(0)]))],
                    Box::new(Body::single(Expr::Let(
                        vec![(
                            "r".into(),
                            Expr::WithHandler(
                                Box::new(lambda(&["e"], Body::single(int(100 + step)))),
                                Box::new(Expr::CallCC(Box::new(lambda(&["k"], Body { defs: vec![], exprs: vec![app("set-box!", vec![var("kb"), var("k")]), r, int(0)] })))),
                            ),
                        )],
                        Box::new(Body::single(iff(
                            app("<", vec![app("unbox", vec![var("cnt")]), int(n)]),
                            begin(vec![
                                app("set-box!", vec![var("cnt"), app("+", vec![app("unbox", vec![var("cnt")]), int(1)])]),
                                call(app("unbox", vec![var("kb")]), vec![app("*", vec![int(7), app("unbox", vec![var("cnt")])])]),
                            ]),
                            var("r"),
                        ))),
                    ))),
                )
            }
            11 if self.opts.handlers && self.opts.errors => {
                // the body of a dynamic-wind is left through a raised error and the after thunk itself does
                // control work: it escapes through a continuation captured outside (the handler never runs and
                // the after thunk runs once), or only records (then the handler runs after it)
                self.feat("dynamic-wind");
                self.feat("with-handler");
                self.feat("error-through-wind");
                self.feat("after-thunk-escapes");
                let r = self.raising();
                let escapes = self.c.chance(2, 3);
                let nested = self.c.chance(1, 2);
                let after_body = if escapes {
                    vec![app("display", vec![string(&format!("{}>", tag))]), call(var("out"), vec![int(step)])]
                } else {
                    vec![app("display", vec![string(&format!("{}>", tag))])]
                };
                let mut inner = Expr::DynamicWind(
                    Box::new(before),
                    Box::new(lambda(&[], Body { defs: vec![], exprs: vec![app("display", vec![string("body")]), r, int(0)] })),
                    Box::new(lambda(&[], Body { defs: vec![], exprs: after_body })),
                );
                if escapes && self.wind_depth > 0 {
                    self.feat("after-thunk-escapes-through-an-outer-wind");
                }
                if nested {
                    if escapes {
                        self.feat("after-thunk-escapes-through-an-outer-wind");
                    }
                    inner = Expr::DynamicWind(
                        Box::new(lambda(&[], Body::single(app("display", vec![string("<o")])))),
                        Box::new(lambda(&[], Body::single(inner))),
                        Box::new(lambda(&[], Body::single(app("display", vec![string("o>")])))),
                    );
                }
                Expr::CallCC(Box::new(lambda(
                    &["out"],
                    Body::single(Expr::WithHandler(Box::new(lambda(&["e"], Body { defs: vec![], exprs: vec![app("display", vec![string("H")]), int(-step)] })), Box::new(inner))),
                )))
            }
            _ => {
                // escape from a deep non-tail recursion
                self.feat("call/cc");
                self.feat("escape-from-depth");
                let depth = self.c.range(1, 6);
                Expr::CallCC(Box::new(lambda(
                    &["k"],
                    Body::single(Expr::Letrec(
                        vec![(
                            "down".into(),
                            lambda(&["i"], Body::single(iff(app("=", vec![var("i"), int(0)]), call(var("k"), vec![int(step)]), app("+", vec![int(1), app("down", vec![app("-", vec![var("i"), int(1)])])])))),
                        )],
                        Box::new(Body::single(app("down", vec![int(depth)]))),
                    )),
                )))
            }
        }
    }

    fn dynamic_wind(&mut self, d: usize) -> Expr {
        self.feat("dynamic-wind");
        let tag = self.c.range(0, 9);
        let before = lambda(&[], Body::single(app("display", vec![string(&format!("<{}", tag))])));
        let after = lambda(&[], Body::single(app("display", vec![string(&format!("{}>", tag))])));
        self.wind_depth += 1;
        let body = self.int(d - 1, false);
        self.wind_depth -= 1;
        Expr::DynamicWind(Box::new(before), Box::new(lambda(&[], Body::single(body))), Box::new(after))
    }

    // -----------------------------------------------------------------------------------
    // top level

    fn fresh_global(&mut self, prefix: &str) -> String {
        self.fresh += 1;
        format!("{}{}", prefix, self.fresh)
    }

    pub fn program(&mut self) -> Program {
        let mut forms = vec![];
        let n = 1 + self.c.below(self.opts.top_forms);
        let d = self.opts.max_depth;
        for _ in 0..n {
            match self.c.weighted(&[5, 5, 3, 2, 2, 3, 2]) {
                0 => {
                    // expression statement: value is observed
                    let e = match self.c.below(6) {
                        0 => self.list(d.min(3), false),
                        1 => self.string(2, false),
                        2 => self.boolean(d.min(3), false),
                        _ => self.int(d, false),
                    };
                    forms.push(Top::Expr(e));
                }
                1 => {
                    // function definition; recursion through a countdown template
                    let name = self.fresh_global("fn");
                    let np = 1 + self.c.below(3);
                    let params = self.distinct_names(np);
                    let rest = self.c.chance(1, 6);
                    let opt = !rest && self.c.chance(1, 8);
                    let mut vars: Vec<VarInfo> = params.iter().map(|p| VarInfo { name: p.clone(), ty: Ty::Int, mutable: false, global: false }).collect();
                    let mut def = LambdaDef { params: params.clone(), opt: vec![], rest: None, body: Body::single(int(0)) };
                    if rest {
                        self.feat("rest-args");
                        def.rest = Some("more".to_string());
                        vars.push(VarInfo { name: "more".to_string(), ty: Ty::List, mutable: false, global: false });
                    }
                    if opt {
                        self.feat("optional-args");
                        let dv = self.c.range(0, 9);
                        def.opt.push(("o".to_string(), int(dv)));
                        vars.push(VarInfo { name: "o".to_string(), ty: Ty::Int, mutable: false, global: false });
                    }
                    let recursive = self.c.chance(1, 3);
                    let pure_fn = self.c.chance(1, 2);
                    let body = self.with_scope(vars, |g| {
                        if recursive {
                            g.feat("recursive-define");
                            // (if (<= p0 0) base (combine (name (- p0 1) rest...)))
                            let mut base = g.int(d.min(2), true);
                            let mut rec_args = vec![app("-", vec![var(&params[0]), int(1)])];
                            for p in &params[1..] {
                                rec_args.push(var(p));
                            }
                            if rest {
                                // the rest list is observed, and the self call passes 0-2
                                // surplus arguments (each count takes a different path in the
                                // frame-reusing self tail call)
                                base = app("+", vec![base, app("*", vec![int(100), app("length", vec![var("more")])]), app("apply", vec![var("+"), var("more")])]);
                                for _ in 0..g.c.below(3) {
                                    let e = g.int(1, true);
                                    rec_args.push(e);
                                }
                            }
                            let rec = app(&name, rec_args);
                            let tail = g.c.chance(1, 2);
                            let combined = if tail {
                                g.feat("self-tail-call");
                                rec
                            } else {
                                let w = g.int(d.min(2), true);
                                app("+", vec![w, rec])
                            };
                            Body::single(iff(app("<=", vec![var(&params[0]), int(0)]), base, combined))
                        } else {
                            g.body_int(d - 1, pure_fn)
                        }
                    });
                    def.body = body;
                    forms.push(Top::Define(name.clone(), Expr::Lambda(Box::new(def))));
                    // recursive functions are called with small first arguments only: they are
                    // registered as pure-only-callable through a wrapper type with n params
                    let ty = Ty::Proc { n: np, rest, pure_: pure_fn || recursive };
                    if recursive {
                        // call it right away with a small literal count, do not expose to the
                        // general call sites (their first argument could be large)
                        let mut args = vec![int(self.c.range(0, 6))];
                        for _ in 1..np {
                            args.push(self.int(1, true));
                        }
                        if rest {
                            for _ in 0..self.c.below(3) {
                                args.push(self.int(0, true));
                            }
                        }
                        forms.push(Top::Expr(app(&name, args)));
                    } else {
                        self.scope.push(VarInfo { name, ty, mutable: false, global: true });
                    }
                }
                2 => {
                    let name = self.fresh_global("v");
                    let mutable = self.c.chance(1, 2);
                    let init = self.int(d.min(3), false);
                    forms.push(Top::Define(name.clone(), init));
                    self.scope.push(VarInfo { name, ty: Ty::Int, mutable, global: true });
                }
                3 if self.opts.heap => {
                    let name = self.fresh_global("h");
                    if self.c.chance(1, 2) {
                        let init = self.int(2, false);
                        forms.push(Top::Define(name.clone(), app("box", vec![init])));
                        self.scope.push(VarInfo { name, ty: Ty::BoxInt, mutable: false, global: true });
                    } else {
                        let k = 1 + self.c.below(3);
                        let items: Vec<Expr> = (0..k).map(|_| self.int(0, true)).collect();
                        forms.push(Top::Define(name.clone(), app("vector", items)));
                        self.scope.push(VarInfo { name, ty: Ty::VecInt(k), mutable: false, global: true });
                    }
                }
                4 => {
                    // counter factory: closure over an assigned captured variable, at top level
                    let name = self.fresh_global("mk");
                    self.feat("closure-over-assigned-variable");
                    let step = self.c.range(1, 4);
                    let def = lambda(
                        &["start"],
                        Body::single(lambda(&[], Body { defs: vec![], exprs: vec![set("start", app("+", vec![var("start"), int(step)])), var("start")] })),
                    );
                    forms.push(Top::Define(name.clone(), def));
                    let cname = self.fresh_global("ctr");
                    let s0 = self.c.range(0, 5);
                    forms.push(Top::Define(cname.clone(), app(&name, vec![int(s0)])));
                    self.scope.push(VarInfo { name: cname, ty: Ty::Proc { n: 0, rest: false, pure_: false }, mutable: false, global: true });
                }
                6 => {
                    // a global function that is assigned later in the same program: a recursive driver calls it
                    // before and after the assignment (an inliner must keep calling it through its binding)
                    let procs: Vec<VarInfo> = self.scope.iter().filter(|v| v.global && matches!(&v.ty, Ty::Proc { n, rest: false, .. } if *n >= 1 && *n <= 3)).cloned().collect();
                    if procs.is_empty() {
                        forms.push(Top::Expr(self.int(d, false)));
                        continue;
                    }
                    let f = procs[self.c.below(procs.len())].clone();
                    let Ty::Proc { n: np, .. } = f.ty.clone() else { unreachable!() };
                    self.feat("global-function-reassigned");
                    let drv = self.fresh_global("drv");
                    let mut call_args = vec![var("x")];
                    for j in 1..np {
                        call_args.push(int(j as i64));
                    }
                    forms.push(Top::Define(
                        drv.clone(),
                        lambda(&["k", "x"], Body::single(iff(app("=", vec![var("k"), int(0)]), var("x"), app(&drv, vec![app("-", vec![var("k"), int(1)]), app("modulo", vec![app(&f.name, call_args), int(1009)])])))),
                    ));
                    let k0 = self.c.range(1, 4);
                    let x0 = self.c.range(0, 9);
                    forms.push(Top::Expr(app(&drv, vec![int(k0), int(x0)])));
                    let params = self.distinct_names(np);
                    let vars: Vec<VarInfo> = params.iter().map(|p| VarInfo { name: p.clone(), ty: Ty::Int, mutable: false, global: false }).collect();
                    let saved = self.scope.clone();
                    // the new body does not call the function being assigned (no recursion through the binding)
                    self.scope.retain(|v| v.name != f.name && v.name != drv);
                    let body = self.with_scope(vars, |g| g.body_int(d.min(3), true));
                    self.scope = saved;
                    let assign = set(&f.name, Expr::Lambda(Box::new(LambdaDef { params, opt: vec![], rest: None, body })));
                    if self.c.chance(1, 2) {
                        forms.push(Top::Expr(begin(vec![assign, int(0)])));
                    } else {
                        // assigned from inside another function, after the first call
                        let rt = self.fresh_global("retarget");
                        forms.push(Top::Define(rt.clone(), lambda(&[], Body { defs: vec![], exprs: vec![assign, int(0)] })));
                        forms.push(Top::Expr(app(&rt, vec![])));
                    }
                    forms.push(Top::Expr(app(&drv, vec![int(k0), int(x0)])));
                    // later code sees an impure procedure of the same shape
                    for v in self.scope.iter_mut() {
                        if v.name == f.name {
                            v.ty = Ty::Proc { n: np, rest: false, pure_: false };
                        }
                    }
                }
                _ => {
                    if self.opts.output {
                        let e = self.effect(d.min(3));
                        forms.push(Top::Expr(e));
                    } else {
                        forms.push(Top::Expr(self.int(d, false)));
                    }
                }
            }
        }
        Program { forms }
    }
}

pub fn generate(data: &[u16], opts: GenOpts) -> (Program, Vec<&'static str>) {
    let (p, f, _) = generate_ex(data, opts);
    (p, f)
}

/// also returns the known-finding ids that were excluded by construction while generating
pub fn generate_ex(data: &[u16], opts: GenOpts) -> (Program, Vec<&'static str>, Vec<String>) {
    let mut g = Gen::new(data, opts);
    let p = g.program();
    (p, g.feats.iter().copied().collect(), g.excluded.clone())
}
