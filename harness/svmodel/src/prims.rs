//! First-order primitives of the reference interpreter (procedures that call back into
//! script code — map, fold, apply, call/cc, dynamic-wind — live in interp.rs).
//! Semantics from R7RS, with Steel's documented names; errors are `Err(ErrObj(kind))`.

use crate::interp::{err, Interp};
use crate::num::{self, Num, Op};
use crate::vals::*;
use num_traits::{Signed, ToPrimitive, Zero};
use std::cell::RefCell;
use std::collections::BTreeMap;
use std::rc::Rc;

pub const PRIM_NAMES: &[&str] = &[
    "call/cc", "call-with-current-continuation", "dynamic-wind", "apply", "map", "for-each", "filter", "foldl", "foldr", "error",
    "+", "-", "*", "/", "quotient", "remainder", "modulo", "=", "<", ">", "<=", ">=", "abs", "min", "max", "gcd", "lcm", "expt",
    "zero?", "positive?", "negative?", "even?", "odd?", "number?", "integer?", "exact->inexact", "square",
    "cons", "car", "cdr", "list", "null?", "pair?", "list?", "length", "append", "reverse", "list-ref", "list-tail", "cadr", "cddr",
    "caar", "cdar", "first", "second", "third", "last", "assoc", "member", "assq", "assv", "memq", "memv", "list->vector", "vector->list",
    "vector", "make-vector", "vector-ref", "vector-set!", "vector-length", "vector?", "vector-fill!",
    "box", "unbox", "set-box!",
    "hash", "hash-insert", "hash-ref", "hash-try-get", "hash-contains?", "hash-remove", "hash-length", "hash-empty?", "hash?",
    "string-append", "string-length", "substring", "string=?", "string<?", "string->symbol", "symbol->string", "string?", "symbol?",
    "number->string", "string->number", "string-upcase", "string-downcase", "string-ref", "string", "make-string", "string->list", "list->string",
    "char->integer", "integer->char", "char=?", "char<?", "char?", "char-upcase", "char-downcase",
    "equal?", "eqv?", "eq?", "not", "boolean?", "procedure?",
    "display", "write", "newline", "displayln", "#%gc-collect",
];

type R<'a> = Result<Val<'a>, Val<'a>>;

fn arity<'a>(args: &[Val<'a>], n: usize) -> Result<(), Val<'a>> {
    if args.len() != n {
        Err(err("ArityMismatch"))
    } else {
        Ok(())
    }
}

fn tm<'a>() -> Val<'a> {
    err("TypeMismatch")
}

fn as_num<'a>(v: &Val<'a>) -> Result<Num, Val<'a>> {
    match v {
        Val::Num(n) => Ok(n.clone()),
        _ => Err(tm()),
    }
}

fn as_index<'a>(v: &Val<'a>) -> Result<usize, Val<'a>> {
    match v {
        Val::Num(Num::Ex(r)) if r.is_integer() && !r.is_negative() => r.numer().to_usize().ok_or_else(|| err("Generic")),
        Val::Num(Num::Ex(r)) if r.is_integer() => Err(err("Generic")),
        _ => Err(tm()),
    }
}

/// numbers beyond this size put a program outside the modelled domain (cost, not semantics)
const MAX_BITS: u64 = 50_000;

fn num_op<'a>(op: Op, args: &[Val<'a>]) -> R<'a> {
    let nums: Vec<Num> = args.iter().map(as_num).collect::<Result<_, _>>()?;
    // integer-only operators reject non-integers with a type error
    match num::eval_out(op, &nums, 10) {
        None => Err(tm()),
        Some(num::Out::Err) => Err(err("Generic")),
        Some(num::Out::Bool(b)) => Ok(Val::Bool(b)),
        Some(num::Out::Text(_)) => Err(tm()),
        Some(num::Out::Nums(v)) => {
            // the first accepted value is the model's value; programs keep to operand
            // classes where the set is a singleton
            if let Num::Ex(r) = &v[0] {
                if r.numer().bits() > MAX_BITS || r.denom().bits() > MAX_BITS {
                    return Err(err("OutOfFuel"));
                }
            }
            Ok(Val::Num(v[0].clone()))
        }
    }
}

pub fn eqv<'a>(a: &Val<'a>, b: &Val<'a>) -> bool {
    match (a, b) {
        (Val::Num(_), Val::Num(_)) | (Val::Bool(_), Val::Bool(_)) | (Val::Char(_), Val::Char(_)) | (Val::Sym(_), Val::Sym(_)) | (Val::Nil, Val::Nil) => {
            equal(a, b)
        }
        (Val::Str(x), Val::Str(y)) => Rc::ptr_eq(x, y),
        (Val::Pair(x), Val::Pair(y)) => Rc::ptr_eq(x, y),
        (Val::MVec(x), Val::MVec(y)) => Rc::ptr_eq(x, y),
        (Val::Box(x), Val::Box(y)) => Rc::ptr_eq(x, y),
        (Val::Closure(x), Val::Closure(y)) => Rc::ptr_eq(x, y),
        (Val::Void, Val::Void) => true,
        _ => false,
    }
}

fn car<'a>(v: &Val<'a>) -> R<'a> {
    match v {
        Val::Pair(p) => Ok(p.0.clone()),
        _ => Err(tm()),
    }
}
fn cdr<'a>(v: &Val<'a>) -> R<'a> {
    match v {
        Val::Pair(p) => Ok(p.1.clone()),
        _ => Err(tm()),
    }
}

fn as_str<'a>(v: &Val<'a>) -> Result<Rc<str>, Val<'a>> {
    match v {
        Val::Str(s) => Ok(s.clone()),
        _ => Err(tm()),
    }
}

fn hash_key(v: &Val) -> String {
    canon(v)
}

fn print_out<'a>(it: &mut Interp<'a>, v: &Val<'a>, write: bool) {
    match print(v, write) {
        Some(s) => it.stdout.push_str(&s),
        None => {
            it.unmodelled_print = true;
            it.stdout.push_str("#<unmodelled>");
        }
    }
}

pub fn call<'a>(it: &mut Interp<'a>, name: &'static str, args: Vec<Val<'a>>) -> R<'a> {
    let a = &args;
    match name {
        "+" => num_op(Op::Add, a),
        "*" => num_op(Op::Mul, a),
        "-" => {
            if a.is_empty() {
                return Err(err("ArityMismatch"));
            }
            num_op(Op::Sub, a)
        }
        "/" => {
            if a.is_empty() {
                return Err(err("ArityMismatch"));
            }
            num_op(Op::Div, a)
        }
        "quotient" | "remainder" | "modulo" | "gcd" | "lcm" | "expt" => {
            arity(a, 2)?;
            num_op(
                match name {
                    "quotient" => Op::Quotient,
                    "remainder" => Op::Remainder,
                    "modulo" => Op::Modulo,
                    "gcd" => Op::Gcd,
                    "lcm" => Op::Lcm,
                    _ => Op::Expt,
                },
                a,
            )
        }
        "=" => {
            arity(a, 2)?;
            num_op(Op::NumEq, a)
        }
        "<" | ">" | "<=" | ">=" => {
            if a.is_empty() {
                return Err(err("ArityMismatch"));
            }
            num_op(
                match name {
                    "<" => Op::Lt,
                    ">" => Op::Gt,
                    "<=" => Op::Le,
                    _ => Op::Ge,
                },
                a,
            )
        }
        "abs" => {
            arity(a, 1)?;
            num_op(Op::Abs, a)
        }
        "square" => {
            arity(a, 1)?;
            num_op(Op::Square, a)
        }
        "exact->inexact" => {
            arity(a, 1)?;
            num_op(Op::ExactToInexact, a)
        }
        "min" | "max" => {
            if a.is_empty() {
                return Err(err("ArityMismatch"));
            }
            num_op(if name == "min" { Op::Min } else { Op::Max }, a)
        }
        "zero?" | "positive?" | "negative?" => {
            arity(a, 1)?;
            let n = as_num(&a[0])?;
            let c = num::cmp_exact(&n, &num::int(0));
            use std::cmp::Ordering::*;
            Ok(Val::Bool(match name {
                "zero?" => c == Some(Equal),
                "positive?" => c == Some(Greater),
                _ => c == Some(Less),
            }))
        }
        "even?" | "odd?" => {
            arity(a, 1)?;
            match as_num(&a[0])? {
                Num::Ex(r) if r.is_integer() => {
                    let even = (r.numer() % num_bigint::BigInt::from(2)).is_zero();
                    Ok(Val::Bool(if name == "even?" { even } else { !even }))
                }
                _ => Err(tm()),
            }
        }
        "number?" => {
            arity(a, 1)?;
            Ok(Val::Bool(matches!(a[0], Val::Num(_))))
        }
        "integer?" => {
            arity(a, 1)?;
            Ok(Val::Bool(match &a[0] {
                Val::Num(Num::Ex(r)) => r.is_integer(),
                Val::Num(Num::Fl(f)) => f.is_finite() && f.fract() == 0.0,
                _ => false,
            }))
        }
        "cons" => {
            arity(a, 2)?;
            Ok(Val::cons(a[0].clone(), a[1].clone()))
        }
        "car" | "first" => {
            arity(a, 1)?;
            car(&a[0])
        }
        "cdr" => {
            arity(a, 1)?;
            cdr(&a[0])
        }
        "cadr" | "second" => {
            arity(a, 1)?;
            car(&cdr(&a[0])?)
        }
        "cddr" => {
            arity(a, 1)?;
            cdr(&cdr(&a[0])?)
        }
        "caar" => {
            arity(a, 1)?;
            car(&car(&a[0])?)
        }
        "cdar" => {
            arity(a, 1)?;
            cdr(&car(&a[0])?)
        }
        "third" => {
            arity(a, 1)?;
            car(&cdr(&cdr(&a[0])?)?)
        }
        "last" => {
            arity(a, 1)?;
            let v = a[0].list_to_vec().ok_or_else(tm)?;
            v.last().cloned().ok_or_else(|| err("Generic"))
        }
        "list" => Ok(Val::list(args.clone())),
        "null?" => {
            arity(a, 1)?;
            Ok(Val::Bool(matches!(a[0], Val::Nil)))
        }
        "pair?" => {
            arity(a, 1)?;
            Ok(Val::Bool(matches!(a[0], Val::Pair(_))))
        }
        "list?" => {
            arity(a, 1)?;
            Ok(Val::Bool(a[0].list_to_vec().is_some()))
        }
        "length" => {
            arity(a, 1)?;
            Ok(Val::int(a[0].list_to_vec().ok_or_else(tm)?.len() as i64))
        }
        "append" => {
            if a.is_empty() {
                return Ok(Val::Nil);
            }
            let mut acc = a[a.len() - 1].clone();
            for l in a[..a.len() - 1].iter().rev() {
                let items = l.list_to_vec().ok_or_else(tm)?;
                acc = Val::list_with_tail(items, acc);
            }
            Ok(acc)
        }
        "reverse" => {
            arity(a, 1)?;
            let mut v = a[0].list_to_vec().ok_or_else(tm)?;
            v.reverse();
            Ok(Val::list(v))
        }
        "list-ref" => {
            arity(a, 2)?;
            let v = a[0].list_to_vec().ok_or_else(tm)?;
            let i = as_index(&a[1])?;
            v.get(i).cloned().ok_or_else(|| err("Generic"))
        }
        "list-tail" => {
            arity(a, 2)?;
            let mut cur = a[0].clone();
            for _ in 0..as_index(&a[1])? {
                cur = match cur {
                    Val::Pair(p) => p.1.clone(),
                    _ => return Err(err("Generic")),
                };
            }
            Ok(cur)
        }
        "assoc" | "assq" | "assv" => {
            arity(a, 2)?;
            let items = a[1].list_to_vec().ok_or_else(tm)?;
            for it in items {
                let k = car(&it)?;
                let hit = if name == "assoc" { equal(&k, &a[0]) } else { eqv(&k, &a[0]) };
                if hit {
                    return Ok(it);
                }
            }
            Ok(Val::Bool(false))
        }
        "member" | "memq" | "memv" => {
            arity(a, 2)?;
            let mut cur = a[1].clone();
            loop {
                match &cur {
                    Val::Pair(p) => {
                        let hit = if name == "member" { equal(&p.0, &a[0]) } else { eqv(&p.0, &a[0]) };
                        if hit {
                            return Ok(cur.clone());
                        }
                        let n = p.1.clone();
                        cur = n;
                    }
                    Val::Nil => return Ok(Val::Bool(false)),
                    _ => return Err(tm()),
                }
            }
        }
        "list->vector" => {
            arity(a, 1)?;
            Ok(Val::IVec(Rc::new(a[0].list_to_vec().ok_or_else(tm)?)))
        }
        "vector->list" => {
            arity(a, 1)?;
            match &a[0] {
                Val::MVec(m) => Ok(Val::list(m.borrow().clone())),
                Val::IVec(m) => Ok(Val::list((**m).clone())),
                _ => Err(tm()),
            }
        }
        "vector" => Ok(Val::MVec(Rc::new(RefCell::new(args.clone())))),
        "make-vector" => {
            arity(a, 2)?;
            let n = as_index(&a[0])?;
            Ok(Val::MVec(Rc::new(RefCell::new(vec![a[1].clone(); n]))))
        }
        "vector-ref" => {
            arity(a, 2)?;
            let i = as_index(&a[1]);
            match &a[0] {
                Val::MVec(m) => m.borrow().get(i?).cloned().ok_or_else(|| err("Generic")),
                Val::IVec(m) => m.get(i?).cloned().ok_or_else(|| err("Generic")),
                _ => Err(tm()),
            }
        }
        "vector-set!" => {
            arity(a, 3)?;
            match &a[0] {
                Val::MVec(m) => {
                    let i = as_index(&a[1])?;
                    let mut g = m.borrow_mut();
                    if i >= g.len() {
                        return Err(err("Generic"));
                    }
                    g[i] = a[2].clone();
                    Ok(Val::Void)
                }
                _ => Err(tm()),
            }
        }
        "vector-fill!" => {
            arity(a, 2)?;
            match &a[0] {
                Val::MVec(m) => {
                    for x in m.borrow_mut().iter_mut() {
                        *x = a[1].clone();
                    }
                    Ok(Val::Void)
                }
                _ => Err(tm()),
            }
        }
        "vector-length" => {
            arity(a, 1)?;
            match &a[0] {
                Val::MVec(m) => Ok(Val::int(m.borrow().len() as i64)),
                Val::IVec(m) => Ok(Val::int(m.len() as i64)),
                _ => Err(tm()),
            }
        }
        "vector?" => {
            arity(a, 1)?;
            Ok(Val::Bool(matches!(a[0], Val::MVec(_) | Val::IVec(_))))
        }
        "box" => {
            arity(a, 1)?;
            Ok(Val::Box(Rc::new(RefCell::new(a[0].clone()))))
        }
        "unbox" => {
            arity(a, 1)?;
            match &a[0] {
                Val::Box(b) => Ok(b.borrow().clone()),
                _ => Err(tm()),
            }
        }
        "set-box!" => {
            arity(a, 2)?;
            match &a[0] {
                // Steel: returns the previous contents
                Val::Box(b) => Ok(b.replace(a[1].clone())),
                _ => Err(tm()),
            }
        }
        "hash" => {
            if a.len() % 2 != 0 {
                return Err(err("ArityMismatch"));
            }
            let mut m = BTreeMap::new();
            for kv in a.chunks(2) {
                m.insert(hash_key(&kv[0]), (kv[0].clone(), kv[1].clone()));
            }
            Ok(Val::Hash(Rc::new(m)))
        }
        "hash-insert" => {
            arity(a, 3)?;
            match &a[0] {
                Val::Hash(h) => {
                    let mut m = (**h).clone();
                    m.insert(hash_key(&a[1]), (a[1].clone(), a[2].clone()));
                    Ok(Val::Hash(Rc::new(m)))
                }
                _ => Err(tm()),
            }
        }
        "hash-remove" => {
            arity(a, 2)?;
            match &a[0] {
                Val::Hash(h) => {
                    let mut m = (**h).clone();
                    m.remove(&hash_key(&a[1]));
                    Ok(Val::Hash(Rc::new(m)))
                }
                _ => Err(tm()),
            }
        }
        "hash-ref" => {
            arity(a, 2)?;
            match &a[0] {
                Val::Hash(h) => h.get(&hash_key(&a[1])).map(|(_, v)| v.clone()).ok_or_else(|| err("Generic")),
                _ => Err(tm()),
            }
        }
        "hash-try-get" => {
            arity(a, 2)?;
            match &a[0] {
                Val::Hash(h) => Ok(h.get(&hash_key(&a[1])).map(|(_, v)| v.clone()).unwrap_or(Val::Bool(false))),
                _ => Err(tm()),
            }
        }
        "hash-contains?" => {
            arity(a, 2)?;
            match &a[0] {
                Val::Hash(h) => Ok(Val::Bool(h.contains_key(&hash_key(&a[1])))),
                _ => Err(tm()),
            }
        }
        "hash-length" => {
            arity(a, 1)?;
            match &a[0] {
                Val::Hash(h) => Ok(Val::int(h.len() as i64)),
                _ => Err(tm()),
            }
        }
        "hash-empty?" => {
            arity(a, 1)?;
            match &a[0] {
                Val::Hash(h) => Ok(Val::Bool(h.is_empty())),
                _ => Err(tm()),
            }
        }
        "hash?" => {
            arity(a, 1)?;
            Ok(Val::Bool(matches!(a[0], Val::Hash(_))))
        }
        "string-append" => {
            let mut s = String::new();
            for x in a {
                s.push_str(&as_str(x)?);
            }
            Ok(Val::str(&s))
        }
        "string-length" => {
            arity(a, 1)?;
            Ok(Val::int(as_str(&a[0])?.chars().count() as i64))
        }
        "substring" => {
            arity(a, 3)?;
            let s: Vec<char> = as_str(&a[0])?.chars().collect();
            let i = as_index(&a[1])?;
            let j = as_index(&a[2])?;
            if i > j || j > s.len() {
                return Err(err("Generic"));
            }
            Ok(Val::str(&s[i..j].iter().collect::<String>()))
        }
        "string-ref" => {
            arity(a, 2)?;
            let s: Vec<char> = as_str(&a[0])?.chars().collect();
            s.get(as_index(&a[1])?).map(|c| Val::Char(*c)).ok_or_else(|| err("Generic"))
        }
        "string=?" | "string<?" => {
            arity(a, 2)?;
            let x = as_str(&a[0])?;
            let y = as_str(&a[1])?;
            Ok(Val::Bool(if name == "string=?" { x == y } else { *x < *y }))
        }
        "string->symbol" => {
            arity(a, 1)?;
            Ok(Val::Sym(as_str(&a[0])?))
        }
        "symbol->string" => {
            arity(a, 1)?;
            match &a[0] {
                Val::Sym(s) => Ok(Val::Str(s.clone())),
                _ => Err(tm()),
            }
        }
        "string?" => {
            arity(a, 1)?;
            Ok(Val::Bool(matches!(a[0], Val::Str(_))))
        }
        "symbol?" => {
            arity(a, 1)?;
            Ok(Val::Bool(matches!(a[0], Val::Sym(_))))
        }
        "number->string" => {
            arity(a, 1)?;
            Ok(Val::str(&num_to_string(&as_num(&a[0])?)))
        }
        "string->number" => {
            arity(a, 1)?;
            let s = as_str(&a[0])?;
            Ok(match s.parse::<num_bigint::BigInt>() {
                Ok(b) => Val::Num(num::big(b)),
                Err(_) => Val::Bool(false), // generators only pass integer text or clear non-numbers
            })
        }
        "string-upcase" | "string-downcase" => {
            arity(a, 1)?;
            let s = as_str(&a[0])?;
            Ok(Val::str(&if name == "string-upcase" { s.to_uppercase() } else { s.to_lowercase() }))
        }
        "string" => {
            let mut s = String::new();
            for x in a {
                match x {
                    Val::Char(c) => s.push(*c),
                    _ => return Err(tm()),
                }
            }
            Ok(Val::str(&s))
        }
        "make-string" => {
            arity(a, 2)?;
            match &a[1] {
                Val::Char(c) => Ok(Val::str(&std::iter::repeat(*c).take(as_index(&a[0])?).collect::<String>())),
                _ => Err(tm()),
            }
        }
        "string->list" => {
            arity(a, 1)?;
            Ok(Val::list(as_str(&a[0])?.chars().map(Val::Char).collect()))
        }
        "list->string" => {
            arity(a, 1)?;
            let mut s = String::new();
            for x in a[0].list_to_vec().ok_or_else(tm)? {
                match x {
                    Val::Char(c) => s.push(c),
                    _ => return Err(tm()),
                }
            }
            Ok(Val::str(&s))
        }
        "char->integer" => {
            arity(a, 1)?;
            match &a[0] {
                Val::Char(c) => Ok(Val::int(*c as i64)),
                _ => Err(tm()),
            }
        }
        "integer->char" => {
            arity(a, 1)?;
            let i = as_index(&a[0])?;
            char::from_u32(i as u32).map(Val::Char).ok_or_else(|| err("Generic"))
        }
        "char=?" | "char<?" => {
            arity(a, 2)?;
            match (&a[0], &a[1]) {
                (Val::Char(x), Val::Char(y)) => Ok(Val::Bool(if name == "char=?" { x == y } else { x < y })),
                _ => Err(tm()),
            }
        }
        "char?" => {
            arity(a, 1)?;
            Ok(Val::Bool(matches!(a[0], Val::Char(_))))
        }
        "char-upcase" | "char-downcase" => {
            arity(a, 1)?;
            match &a[0] {
                Val::Char(c) => Ok(Val::Char(if name == "char-upcase" { c.to_ascii_uppercase() } else { c.to_ascii_lowercase() })),
                _ => Err(tm()),
            }
        }
        "equal?" => {
            arity(a, 2)?;
            Ok(Val::Bool(equal(&a[0], &a[1])))
        }
        "eqv?" | "eq?" => {
            arity(a, 2)?;
            Ok(Val::Bool(eqv(&a[0], &a[1])))
        }
        "not" => {
            arity(a, 1)?;
            Ok(Val::Bool(!a[0].truthy()))
        }
        "boolean?" => {
            arity(a, 1)?;
            Ok(Val::Bool(matches!(a[0], Val::Bool(_))))
        }
        "procedure?" => {
            arity(a, 1)?;
            Ok(Val::Bool(a[0].is_procedure()))
        }
        "display" | "write" => {
            arity(a, 1)?;
            print_out(it, &a[0], name == "write");
            Ok(Val::Void)
        }
        "displayln" => {
            for x in a {
                print_out(it, x, false);
            }
            it.stdout.push('\n');
            Ok(Val::Void)
        }
        // a collection request has no semantic effect
        "#%gc-collect" => {
            arity(a, 0)?;
            Ok(Val::Void)
        }
        "newline" => {
            arity(a, 0)?;
            it.stdout.push('\n');
            Ok(Val::Void)
        }
        _ => Err(err("UnknownPrimitive")),
    }
}
