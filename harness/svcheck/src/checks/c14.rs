//! C14 — modules expose exactly what they provide and are instantiated once.
//! Generated acyclic module graphs (svmodel::modgraph) and histories of evaluations requiring
//! subsets of them with only-in / rename / prefix-in modifiers; values reveal which binding every
//! reference resolved to; private and unselected names must be rejected; module bodies print a
//! marker, which must appear exactly once per engine for every module that was (transitively)
//! required and never for the others; contract/out is enforced at the boundary only.

use crate::runner::*;
use crate::worker::{Config, Workers};
use proptest::prelude::*;
use serde::{Deserialize, Serialize};
use svmodel::modgraph::{Expect, Script};
use svproto::*;

#[derive(Clone, Debug, Serialize, Deserialize)]
pub struct Case14 {
    pub script: Script,
}

fn text(c: &Case14, upto: usize) -> String {
    let mut s = String::new();
    for (n, src) in &c.script.modules {
        s.push_str(&format!(";; module {}\n{}\n", n, src));
    }
    for (i, p) in c.script.pieces.iter().enumerate() {
        if i > upto {
            break;
        }
        s.push_str(&format!(";; piece {} [{}]\n{}\n", i, p.what, p.src));
    }
    s
}

pub fn check(ctx: &Ctx, ws: &mut Workers, c: &Case14, counting: bool) -> PropResult {
    for cfg in [Config::jit_off(), Config::default_cfg()] {
        let mut steps: Vec<Step> = c.script.modules.iter().map(|(n, s)| Step::Module { name: n.clone(), src: s.clone() }).collect();
        let nm = steps.len();
        for p in &c.script.pieces {
            steps.push(Step::Eval { src: p.src.clone() });
        }
        let mut case = Case::new(steps);
        case.timeout_ms = 30_000;
        let r = ws.run(&cfg, &case);
        ctx.stats.engine_runs.fetch_add(1, std::sync::atomic::Ordering::Relaxed);
        let mk = |kind: &str, what: &str, upto: usize, msg: String| Failure::new(format!("c14:{}:{}", kind, what), format!("config: {}\n{}\n{}", cfg.label(), msg, text(c, upto)));
        match r.end {
            End::Done => {}
            End::Watchdog | End::Oom => {
                if counting {
                    ctx.stats.inconclusive.fetch_add(1, std::sync::atomic::Ordering::Relaxed);
                }
                return Ok(());
            }
            End::Signal(s) => return Err(mk("signal", "", usize::MAX, format!("engine process died with signal {}\nstderr: {}", s, r.stderr_tail))),
            End::Exit(x) => return Err(mk("exit", "", usize::MAX, format!("engine process exited with status {}", x))),
        }
        let mut out = String::new();
        for (i, p) in c.script.pieces.iter().enumerate() {
            let Some(st) = r.steps.get(nm + i) else {
                return Err(mk("missing-step", &p.what, i, format!("piece {} was not executed", i)));
            };
            out.push_str(&st.stdout);
            if st.outcome == Outcome::Panic {
                return Err(mk("panic", &p.what, i, format!("piece {} panicked: {}", i, st.err_msg)));
            }
            let got = st.values.iter().rev().find(|v| *v != "#void").cloned().unwrap_or_default();
            match &p.expect {
                Expect::Value(v) => {
                    if st.outcome != Outcome::Ok {
                        return Err(mk("unexpected-error", &p.what, i, format!("piece {} [{}]\nexpected: {}\nactual: error {}: {}", i, p.what, v, st.err_kind, st.err_msg)));
                    }
                    if got != *v {
                        return Err(mk("wrong-binding", &p.what, i, format!("piece {} [{}]\nexpected: {}\nactual:   {}", i, p.what, v, got)));
                    }
                }
                Expect::Error => {
                    if st.outcome != Outcome::Err {
                        return Err(mk("visible-but-must-not-be", &p.what, i, format!("piece {} [{}] must be rejected\nactual: {}", i, p.what, got)));
                    }
                }
                Expect::Any => {}
            }
        }
        for (m, n) in &c.script.init_counts {
            let seen = out.matches(&format!("<init {}>", m)).count();
            if seen != *n {
                return Err(mk(
                    "instantiation-count",
                    if seen > *n { "more-than-once" } else { "missing" },
                    usize::MAX,
                    format!("the body of module {} ran {} time(s), expected {}\noutput of the whole history: {:?}", m, seen, n, out),
                ));
            }
        }
    }
    if counting {
        let s = &c.script.stats;
        ctx.stats.eval();
        ctx.stats.class_n("modules", s.modules as u64);
        ctx.stats.class_n("requires-with-modifiers", s.requires_with_modifiers as u64);
        ctx.stats.class_n("excluded-by-construction:KF-C14-contract-import-same-alias", s.excluded_contract_alias as u64);
        ctx.stats.class_n("private-name-probes", s.private_probes as u64);
        ctx.stats.class_n("provided-but-not-selected-probes", s.unimported_probes as u64);
        ctx.stats.class_n("main-defines-a-name-modules-use", s.main_defines_clashing as u64);
        ctx.stats.class_n("re-requires", s.re_requires as u64);
        ctx.stats.class_n("failing-pieces", s.failing_pieces as u64);
        ctx.stats.class_n("contract-violations-at-boundary", s.contract_checks as u64);
        ctx.stats.class_n("names-shared-between-modules", s.name_overlaps as u64);
        if s.requires_with_modifiers >= 1 && (s.re_requires >= 1 || s.private_probes + s.unimported_probes >= 1) && s.name_overlaps >= 1 {
            ctx.stats.nontrivial(&text(c, usize::MAX));
        }
        if ctx.stats.want_sample() && c.script.pieces.len() >= 5 {
            ctx.stats.sample(serde_json::json!({"history": text(c, usize::MAX)}));
        }
    }
    Ok(())
}

pub fn run(ctx: &Ctx, replay: Option<&str>) -> i32 {
    ctx.set_rule(
        "graphs of 2-5 in-memory modules; every module requires a random subset of the earlier ones with a random modifier \
         (plain, only-in with 1/3 renames, prefix-in, prefix-in around only-in), defines 2-5 names from a pool of 8 shared \
         spellings (so private and provided names of different modules and of the main program overlap), as values or \
         procedures, provided or private, one in six provided through contract/out (and also called with a violating argument \
         inside the module); its body prints an instantiation marker. The main program is a history of 3-14 (thorough 30) \
         evaluations: require a module under a fresh modifier and list everything it binds; name a private or an unselected \
         provided name (must be rejected); define a pool name; re-observe every binding; violate a contract at the boundary \
         (must raise); a free-identifier typo. Expected values by substitution; instantiation markers counted over the whole \
         history (exactly once for every transitively required module). Non-trivial = distinct history with a modifier, a \
         re-require or rejection probe, and a name shared between modules.",
    );
    ctx.assume("modules are registered in memory under their names (Engine module table), which is how the harness provides files; the main program is evaluated piece by piece on one engine");
    if let Some(path) = replay {
        let Some(rf) = load_replay::<Case14>(std::path::Path::new(path)) else {
            eprintln!("cannot read replay file {}", path);
            return 2;
        };
        let mut ws = Workers::new();
        return match check(ctx, &mut ws, &rf.case, false) {
            Ok(()) => {
                println!("replay {}: property holds", path);
                0
            }
            Err(f) => {
                println!("VIOLATION property={} replay={}", ctx.prop, path);
                println!("  sig: {}\n{}", f.sig, f.detail);
                1
            }
        };
    }
    {
        let mut ws = Workers::new();
        replay_tier::<Case14>(ctx, "mods", &mut |c| check(ctx, &mut ws, c, false));
    }
    let max_pieces = if ctx.quick() { 14 } else { 30 };
    let fails = run_prop(
        ctx,
        "mods",
        || prop::collection::vec(any::<u16>(), 0..500).prop_map(move |d| Case14 { script: svmodel::modgraph::generate(&d, max_pieces) }),
        ctx.n(3000, 100_000),
        |ws, c, counting| match check(ctx, ws, c, counting) {
            Err(f) => {
                if let Some(k) = ctx.match_known(&f) {
                    if counting {
                        ctx.note_known_hit(&k.id);
                        ctx.dump_known_case(k, "mods", c, &f);
                    }
                    Ok(())
                } else if ctx.survey_case("mods", c, &f) {
                    Ok(())
                } else {
                    Err(f)
                }
            }
            ok => ok,
        },
    );
    report_failures(ctx, "mods", fails);
    ctx.finish()
}
