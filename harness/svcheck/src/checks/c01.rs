//! C01 — compiled execution agrees with the reference semantics.
//! Oracle 1: RefScheme (svmodel::interp).  Oracle 2 (metamorphic, model independent):
//! semantics-preserving rewrites of the same program must give the same observable result.

use crate::progcheck::*;
use crate::runner::*;
use crate::worker::{Config, Workers};
use proptest::prelude::*;
use serde::{Deserialize, Serialize};
use svmodel::ast::*;
use svmodel::gen::{self, GenOpts};

#[derive(Clone, Debug, Serialize, Deserialize)]
pub struct ProgCase {
    /// the program under test (replay uses this, not the choice sequence)
    pub program: Program,
    #[serde(default)]
    pub text: String,
    #[serde(default)]
    pub features: Vec<String>,
    #[serde(default)]
    pub excluded: Vec<String>,
}

/// known findings whose trigger shapes the program generators avoid while they are listed
pub const PROGRAM_KNOWN: &[&str] = &["KF-C01-variadic-lambda-application", "KF-C01-define-shadows-constant"];

/// module code + JIT: an error raised in a closure called through map/apply/fold is swallowed
pub const KF_SWALLOW: &str = "KF-C02-jit-swallows-error-under-hof";

pub fn avoid_list(ctx: &Ctx) -> Vec<String> {
    PROGRAM_KNOWN.iter().filter(|id| ctx.is_known_active(id)).map(|s| s.to_string()).collect()
}

pub fn opts(avoid: Vec<String>) -> GenOpts {
    GenOpts { winds: false, avoid, ..GenOpts::default() }
}

pub fn case_from_choices(data: &[u16], o: GenOpts) -> ProgCase {
    let (program, feats, excluded) = gen::generate_ex(data, o);
    let text = render_program(&program);
    ProgCase { program, text, features: feats.iter().map(|s| s.to_string()).collect(), excluded }
}

pub fn choices(max: usize) -> impl Strategy<Value = Vec<u16>> {
    prop::collection::vec(any::<u16>(), 0..max)
}

// ---------------------------------------------------------------------------------------
// metamorphic rewrites (oracle 2)

/// wrap every top-level expression statement: e  =>  ((lambda () e))
fn rw_thunk(p: &Program) -> Program {
    Program {
        forms: p
            .forms
            .iter()
            .map(|t| match t {
                Top::Expr(e) => Top::Expr(call(lambda(&[], Body::single(e.clone())), vec![])),
                d => d.clone(),
            })
            .collect(),
    }
}

/// e => (let ((zz 0)) e): introduces a local frame around every expression statement
fn rw_let(p: &Program) -> Program {
    Program {
        forms: p
            .forms
            .iter()
            .map(|t| match t {
                Top::Expr(e) => Top::Expr(Expr::Let(vec![("zz".into(), int(0))], Box::new(Body::single(e.clone())))),
                d => d.clone(),
            })
            .collect(),
    }
}

/// e => (if #f (car 5) e): dead raising code in front of every expression statement
fn rw_dead(p: &Program) -> Program {
    Program {
        forms: p
            .forms
            .iter()
            .map(|t| match t {
                Top::Expr(e) => Top::Expr(iff(boolean(false), app("car", vec![int(5)]), e.clone())),
                d => d.clone(),
            })
            .collect(),
    }
}

fn rewrites() -> Vec<(&'static str, fn(&Program) -> Program)> {
    vec![("thunk", rw_thunk), ("let", rw_let), ("dead", rw_dead)]
}

fn is_nontrivial(c: &ProgCase, steps: u64) -> bool {
    let interesting = [
        "closure-over-assigned-variable",
        "shadowing",
        "internal-define",
        "rest-args",
        "optional-args",
        "self-tail-call",
        "live-error",
        "dead-raising-code",
        "call/cc",
        "with-handler",
        "set!-global",
        "letrec",
        "named-let",
    ];
    let n = c.features.iter().filter(|f| interesting.contains(&f.as_str())).count();
    n >= 2 && steps >= 30
}

pub fn check_case(ctx: &Ctx, ws: &mut Workers, c: &ProgCase, counting: bool, cfgs: &[Config]) -> PropResult {
    check_case_ex(ctx, ws, c, counting, cfgs, false)
}

/// `strict`: no exclusion of known findings (used when replaying stored cases)
pub fn check_case_ex(ctx: &Ctx, ws: &mut Workers, c: &ProgCase, counting: bool, cfgs: &[Config], strict: bool) -> PropResult {
    check_case_with(ctx, ws, c, counting, cfgs, strict, "c01", &[Entry::Repl, Entry::Module], true, &is_nontrivial)
}

/// The program check shared by C01 / C08: `tag` prefixes failure signatures, `entries` selects
/// how programs enter the engine, `rewrites` enables the metamorphic oracle.
#[allow(clippy::too_many_arguments)]
pub fn check_case_with(
    ctx: &Ctx,
    ws: &mut Workers,
    c: &ProgCase,
    counting: bool,
    cfgs: &[Config],
    strict: bool,
    tag: &str,
    entries: &[Entry],
    rewrites_on: bool,
    nontrivial: &dyn Fn(&ProgCase, u64) -> bool,
) -> PropResult {
    let Some(m) = model_run(&c.program) else {
        if counting {
            ctx.stats.class("outside-model-domain");
        }
        return Ok(());
    };
    // JIT-off first: a failure there is a plain C01 failure.  A failure that only the JIT
    // configuration shows is a divergence between configurations (C02): it gets its own
    // signature class `c01:jitdiv:...` so that it is attributed and listed separately.
    let jit_off = Config::jit_off();
    let jit_on = Config::default_cfg();
    for entry in entries.iter().copied() {
        let mut off_ok = true;
        if cfgs.contains(&jit_off) {
            match check_program_entry(tag, ws, &jit_off, &c.program, &m.result, &[], entry) {
                RunVerdict::Inconclusive => {
                    off_ok = false;
                    if counting {
                        ctx.stats.inconclusive.fetch_add(1, std::sync::atomic::Ordering::Relaxed);
                    }
                }
                RunVerdict::Done(r) => r?,
            }
            ctx.stats.engine_runs.fetch_add(1, std::sync::atomic::Ordering::Relaxed);
        }
        if cfgs.contains(&jit_on) {
            if entry == Entry::Module
                && m.trace.get("raise-under-higher-order-builtin").copied().unwrap_or(0) > 0
                && ctx.is_known_active(KF_SWALLOW)
                && !strict
            {
                if counting {
                    ctx.stats.excluded(KF_SWALLOW);
                }
                continue;
            }
            match check_program_entry(tag, ws, &jit_on, &c.program, &m.result, &[], entry) {
                RunVerdict::Inconclusive => {
                    if counting {
                        ctx.stats.inconclusive.fetch_add(1, std::sync::atomic::Ordering::Relaxed);
                    }
                }
                RunVerdict::Done(Err(f)) if off_ok && cfgs.contains(&jit_off) => {
                    let sub = f.sig.split_once(':').map(|x| x.1).unwrap_or(&f.sig).to_string();
                    return Err(Failure::new(format!("{}:jitdiv:{}", tag, sub), format!("(the same program agrees with the model under STEEL_JIT=false)\n{}", f.detail)));
                }
                RunVerdict::Done(r) => r?,
            }
            ctx.stats.engine_runs.fetch_add(1, std::sync::atomic::Ordering::Relaxed);
        }
    }
    // oracle 2: one rewrite per program (chosen by a hash of the text), default configuration
    let rws = rewrites();
    let (name, f) = rws[(hash_str(&c.text) % rws.len() as u64) as usize];
    let p2 = f(&c.program);
    if !rewrites_on {
        // nothing
    } else if let Some(m2) = model_run(&p2) {
        // the rewrite is semantics preserving in the model too (sanity of the rewrite itself)
        if nonvoid(&m2.result.values) == nonvoid(&m.result.values) && m2.result.stdout == m.result.stdout && m2.result.outcome == m.result.outcome {
            match check_program(&format!("{}-rewrite-{}", tag, name), ws, &cfgs[0], &p2, &m.result, &[]) {
                RunVerdict::Inconclusive => {}
                RunVerdict::Done(r) => r?,
            }
            ctx.stats.engine_runs.fetch_add(1, std::sync::atomic::Ordering::Relaxed);
        }
    }
    if counting {
        ctx.stats.eval();
        for f in &c.features {
            ctx.stats.class(&format!("feature:{}", f));
        }
        for x in &c.excluded {
            ctx.stats.excluded(x);
        }
        for (k, v) in &m.trace {
            if *v > 0 {
                ctx.stats.class(&format!("dynamic:{}", k));
            }
        }
        match &m.result.outcome {
            svmodel::interp::PieceOutcome::Ok => ctx.stats.class("outcome:ok"),
            _ => ctx.stats.class("outcome:error"),
        }
        if nontrivial(c, m.result.steps) {
            ctx.stats.nontrivial(&c.text);
        }
        if ctx.stats.want_sample() && c.text.len() > 120 {
            ctx.stats.sample(serde_json::json!({"program": c.text, "model_values": m.result.values, "model_stdout": m.result.stdout, "model_outcome": format!("{:?}", m.result.outcome)}));
        }
    }
    Ok(())
}

static SURVEY_CASES: std::sync::Mutex<std::collections::BTreeMap<String, ProgCase>> = std::sync::Mutex::new(std::collections::BTreeMap::new());

/// Reduce a failing case on the AST, keeping the failure's signature.
pub fn reduce_case(ctx: &Ctx, ws: &mut Workers, c: &ProgCase, f: &Failure, cfgs: &[Config]) -> (ProgCase, Failure) {
    let mut last = f.clone();
    // the reduction has a wall-clock budget: past it every further candidate is rejected
    let reduce_deadline = std::time::Instant::now() + std::time::Duration::from_secs(if ctx.quick() { 150 } else { 900 });
    let reduced = svmodel::shrink::reduce(&c.program, 1500, &mut |p| {
        if std::time::Instant::now() > reduce_deadline {
            return false;
        }
        let cand = ProgCase { program: p.clone(), text: render_program(p), features: vec![], excluded: vec![] };
        match check_case(ctx, ws, &cand, false, cfgs) {
            Err(g) if g.sig == f.sig => {
                last = g;
                true
            }
            _ => false,
        }
    });
    let text = render_program(&reduced);
    (ProgCase { program: reduced, text, features: c.features.clone(), excluded: vec![] }, last)
}

pub fn run(ctx: &Ctx, replay: Option<&str>) -> i32 {
    ctx.set_rule(
        "programs are built by construction from a proptest choice sequence (svmodel::gen): defines with fixed/rest/optional \
         parameters, closures over assigned variables, let/let*/letrec/named let/do, internal defines, cond/case/when/and/or, \
         set! on locals/captured/global variables, lists/vectors/boxes/hashes/strings, map/filter/foldl/apply, call/cc escapes, \
         with-handler, live and dead raising code. Each program runs on the engine (JIT on and off) and on the reference \
         interpreter; plus one semantics-preserving rewrite (oracle 2). Non-trivial = distinct program text with >=2 of \
         {closure over assigned variable, shadowing, internal define, rest/optional args, self tail call, live error, dead \
         raising code, call/cc, with-handler, set! of a global, letrec, named let} and >=30 model evaluation steps.",
    );
    ctx.assume("the reference interpreter (svmodel::interp) implements R7RS semantics with Steel's documented deviations (DESIGN.md 2.3)");
    ctx.assume("argument evaluation order is left unspecified: generated programs have at most one effectful operand per application / let group");
    let cfgs = vec![Config::default_cfg(), Config::jit_off()];
    if let Some(path) = replay {
        let Some(rf) = load_replay::<ProgCase>(std::path::Path::new(path)) else {
            eprintln!("cannot read replay file {}", path);
            return 2;
        };
        let mut ws = Workers::new();
        let mut c = rf.case;
        c.text = render_program(&c.program);
        return match check_case_ex(ctx, &mut ws, &c, false, &cfgs, true) {
            Ok(()) => {
                println!("replay {}: property holds", path);
                0
            }
            Err(f) => {
                println!("VIOLATION property={} replay={}", ctx.prop, path);
                println!("  sig: {}\n{}", f.sig, f.detail);
                1
            }
        };
    }
    {
        let mut ws = Workers::new();
        replay_tier::<ProgCase>(ctx, "prog", &mut |c| {
            let mut c = c.clone();
            c.text = render_program(&c.program);
            check_case_ex(ctx, &mut ws, &c, false, &cfgs, true)
        });
    }
    let total = ctx.n(15_000, 600_000);
    let avoid = avoid_list(ctx);
    let fails = run_prop(
        ctx,
        "prog",
        || {
            let avoid = avoid.clone();
            choices(400).prop_map(move |d| case_from_choices(&d, opts(avoid.clone())))
        },
        total,
        |ws, c, counting| match check_case(ctx, ws, c, counting, &cfgs) {
            Err(f) => {
                let f = f.with_features(&c.features);
                if let Some(k) = ctx.match_known(&f) {
                    if counting {
                        ctx.note_known_hit(&k.id);
                        ctx.dump_known_case(k, "prog", c, &f);
                    }
                    Ok(())
                } else if ctx.survey(&f) {
                    let mut g = SURVEY_CASES.lock().unwrap();
                    let e = g.entry(f.sig.clone()).or_insert_with(|| c.clone());
                    if c.text.len() < e.text.len() {
                        *e = c.clone();
                    }
                    Ok(())
                } else {
                    Err(f)
                }
            }
            ok => ok,
        },
    );
    // AST-level reduction of what proptest's choice-sequence shrinking left
    let mut ws = Workers::new();
    let fails: Vec<(ProgCase, Failure)> = fails.into_iter().map(|(c, f)| reduce_case(ctx, &mut ws, &c, &f, &cfgs)).collect();
    report_failures(ctx, "prog", fails);
    if std::env::var("VERIF_SURVEY").is_ok() {
        let cases: Vec<(String, ProgCase)> = SURVEY_CASES.lock().unwrap().iter().map(|(k, v)| (k.clone(), v.clone())).collect();
        for (sig, c) in cases {
            let f = Failure::new(sig.clone(), String::new());
            let (rc, rf) = reduce_case(ctx, &mut ws, &c, &f, &cfgs);
            println!("SURVEY-REDUCED {}\n{}\n  --> {}", sig, rc.text, rf.detail.lines().rev().take(3).collect::<Vec<_>>().join(" | "));
        }
    }
    ctx.finish()
}
