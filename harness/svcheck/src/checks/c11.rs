//! C11 — equal? is structural, hashing agrees with it, collections behave as their models.
//! Generated collection scripts (svmodel::coll): values of all immutable kinds with arbitrary
//! nesting and internal sharing, collections as hash keys and set members, operation sequences
//! on lists, immutable vectors, hash maps, hash sets, strings and byte vectors with boundary
//! indices, against a purely functional Rust model.

use crate::checks::collcheck::{self, Mode};
use crate::runner::*;

pub fn run(ctx: &Ctx, replay: Option<&str>) -> i32 {
    ctx.set_rule(
        "scripts of 4-24 (thorough 60) steps over variables holding lists, immutable vectors, hash maps, hash sets, strings, byte \
         vectors and scalars (fixnums incl. the extremes, ratios, strings with unicode and escapes, symbols, chars, booleans) nested \
         up to depth 3, built either from scratch or with repeated sub-values shared through let bindings; hash keys and set \
         members are collections one time in three. Steps: construct, apply one of ~60 operations (boundary and out-of-range \
         indices included, expecting an error), check equal? (reflexive, symmetric, a differently built copy is equal, a copy \
         differing in one leaf is not) together with hash-ref / hash-contains? / hashset-contains? / member agreement, observe all \
         live variables. Oracle: a purely functional model (Rust trees; maps and sets keyed by canonical form). Non-trivial = \
         distinct script with >=3 different operations and an equality check or an expected error.",
    );
    ctx.assume("operation semantics as documented in steel-core's primitives (doc comments); hash-union is left biased; floats are left to C10");
    collcheck::run(ctx, replay, "c11", Mode::Model, 20_000, 600_000, false)
}
