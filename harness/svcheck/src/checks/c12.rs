//! C12 — reading is total and inverse to writing.
//! (a) round trip: generated data (svmodel::datum) are built from constructors, written by the
//!     engine, read back by the engine; the re-read datum must have the model's canonical form and
//!     the written text must be accepted by the parser;
//! (b) totality: generated texts (character soup over the delimiter / quote / escape alphabet,
//!     mutated well formed data) go through `Parser::parse` and through the run time `read`: no
//!     panic, no abort, and a reported span lies inside the text;
//! (c) print / parse fixpoint: printing the forms the reader produces for a program (before special
//!     forms are lowered, which introduces unreadable generated names) and parsing the print
//!     again gives the same printed forms.

use crate::runner::*;
use crate::worker::{Config, Workers};
use proptest::prelude::*;
use serde::{Deserialize, Serialize};
use svmodel::datum::{self, DatumOpts, D};
use svmodel::gen::Chooser;
use svproto::*;

#[derive(Clone, Debug, Serialize, Deserialize)]
pub struct RoundItem {
    pub expr: String,
    pub canon: String,
    pub label: String,
    pub kinds: Vec<String>,
    /// the datum contains a complex number: the round trip is judged with equal? in the engine
    #[serde(default)]
    pub by_equal: bool,
}

#[derive(Clone, Debug, Serialize, Deserialize)]
pub enum Case12 {
    Round(Vec<RoundItem>),
    Text(String),
    Program(String),
}

const PRELUDE: &str = "(define (c12-wr d) (let ((p (open-output-string))) (write d p) (get-output-string p)))\n(define (c12-rd s) (read (open-input-string s)))";

const PRIORITY: &[&str] = &[
    "complex",
    "symbol-needing-bars",
    "float-special",
    "char-other",
    "string-escapes-or-unicode",
    "improper-list",
    "quotation-form",
    "bytevector",
    "vector",
    "bignum",
    "ratio",
    "float",
    "char-ascii",
    "empty-list",
    "string-plain",
    "symbol-plain",
    "boolean",
    "fixnum",
    "list",
];

fn item(d: &D) -> RoundItem {
    // a datum with a complex number is judged with equal?, which NaN never satisfies
    if d.has_complex() && d.canon().contains("f:nan") {
        return item(&D::Int(0));
    }
    let mut ks = std::collections::BTreeSet::new();
    d.kinds(&mut ks);
    let label = PRIORITY.iter().find(|p| ks.contains(**p)).unwrap_or(&"other").to_string();
    RoundItem { expr: d.expr(), canon: d.canon(), label, kinds: ks.iter().map(|s| s.to_string()).collect(), by_equal: d.has_complex() }
}

fn avoid(ctx: &Ctx) -> Vec<String> {
    ["KF-C12-unquote-rename"].iter().filter(|k| ctx.is_known_active(k)).map(|k| k.to_string()).collect()
}

fn opts(ctx: &Ctx) -> DatumOpts {
    DatumOpts { plain_symbols_only: ctx.is_known_active("KF-C12-symbol-bars"), avoid: avoid(ctx) }
}

const SOUP: &[&str] = &[
    "(", ")", "[", "]", "{", "}", "'", "`", ",", ",@", "#", "#(", "#u8(", "#\\", "#\\a", "#\\space", "#\\x41", "#t", "#f", "#true", "#;", "#|", "|#", ";", "\n", " ", "\"", "\\", "\\x41;", "\\n", "|", ".", "...",
    "quote", "quasiquote", "unquote", "define", "lambda", "let", "1", "-1", "1.5", "1e400", "-0.0", "1/2", "1/0", "+inf.0", "+nan.0", "#xff", "#b102", "#e1.5", "1+2i", "+i", "9223372036854775808", "a", "foo", "λ", "\u{FEFF}",
    "\u{1F600}", "\0", "\t", "\r", "#!eof", "#<void>", "#:kw", "&rest", "@", "'()", "#'x", "#`x", "#,x", "'#(", "'[", "\\u{41}", "\\x;", "\\xZZ;", "#\\x110000", "#\\xD800",
];

fn text_strategy(ctx: &Ctx) -> impl Strategy<Value = String> {
    let plain = ctx.is_known_active("KF-C12-symbol-bars");
    prop_oneof![
        // token soup
        3 => prop::collection::vec((0..SOUP.len(), any::<bool>()), 0..24).prop_map(|v| v.into_iter().map(|(i, sp)| format!("{}{}", SOUP[i], if sp { " " } else { "" })).collect::<String>()),
        // a well formed datum with character level mutations
        3 => (prop::collection::vec(any::<u16>(), 0..60), prop::collection::vec((any::<u16>(), 0u8..4, 0..SOUP.len()), 0..4)).prop_map(move |(d, muts)| {
            let mut c = Chooser::new(&d);
            let dat = datum::datum(&mut c, 3, &DatumOpts { plain_symbols_only: plain, avoid: vec![] });
            let mut chars: Vec<char> = dat.write().chars().collect();
            for (pos, kind, tok) in muts {
                if chars.is_empty() {
                    break;
                }
                let i = (pos as usize * chars.len()) >> 16;
                match kind {
                    0 => {
                        chars.remove(i);
                    }
                    1 => {
                        let ch = chars[i];
                        chars.insert(i, ch);
                    }
                    2 => {
                        for (k, ch) in SOUP[tok].chars().enumerate() {
                            chars.insert(i + k, ch);
                        }
                    }
                    _ => chars.truncate(i),
                }
            }
            chars.into_iter().collect::<String>()
        }),
        // arbitrary unicode
        1 => "\\PC{0,40}".prop_map(|s| s),
    ]
}

fn str_expr(s: &str) -> String {
    if s.is_empty() {
        "(string)".into()
    } else {
        format!("(list->string (list{}))", s.chars().map(|c| format!(" (integer->char {})", c as u32)).collect::<String>())
    }
}

fn run_case(ws: &mut Workers, cfg: &Config, steps: Vec<Step>) -> CaseResult {
    let mut case = Case::new(steps);
    case.timeout_ms = 15_000;
    case.continue_after_panic = true;
    ws.run(cfg, &case)
}

fn fatal(tag: &str, r: &CaseResult, shown: &str) -> Option<Failure> {
    match r.end {
        End::Done | End::Watchdog | End::Oom => None,
        End::Signal(s) => Some(Failure::new(format!("{}:signal", tag), format!("{}\nengine process died with signal {}\nstderr: {}", shown, s, r.stderr_tail))),
        End::Exit(x) => Some(Failure::new(format!("{}:exit", tag), format!("{}\nengine process exited with status {}", shown, x))),
    }
}

fn site(msg: &str) -> String {
    match msg.rsplit_once(" @ ") {
        Some((_, loc)) => loc.lines().next().unwrap_or("").rsplit('/').take(2).collect::<Vec<_>>().into_iter().rev().collect::<Vec<_>>().join("/"),
        None => "unknown".into(),
    }
}

pub fn check(ctx: &Ctx, ws: &mut Workers, c: &Case12, counting: bool) -> PropResult {
    let cfg = Config::default_cfg();
    match c {
        Case12::Round(items) => {
            let mut steps = vec![Step::Eval { src: PRELUDE.to_string() }];
            for it in items {
                if it.by_equal {
                    steps.push(Step::Eval { src: format!("(let* ((d {}) (s (c12-wr d))) (list s (if (equal? d (c12-rd s)) 'c12-equal (c12-rd s))))", it.expr) });
                } else {
                    steps.push(Step::Eval { src: format!("(let* ((d {}) (s (c12-wr d))) (list s (c12-rd s)))", it.expr) });
                }
            }
            let r = run_case(ws, &cfg, steps);
            ctx.stats.engine_runs.fetch_add(1, std::sync::atomic::Ordering::Relaxed);
            if let Some(f) = fatal("c12:roundtrip", &r, &format!("data: {:?}", items.iter().map(|i| &i.expr).collect::<Vec<_>>())) {
                return Err(f);
            }
            if r.end != End::Done {
                if counting {
                    ctx.stats.inconclusive.fetch_add(1, std::sync::atomic::Ordering::Relaxed);
                }
                return Ok(());
            }
            let mut texts = vec![];
            for (i, it) in items.iter().enumerate() {
                let Some(st) = r.steps.get(i + 1) else {
                    return Err(Failure::new("c12:roundtrip:missing-step", format!("datum {} was not evaluated", it.expr)));
                };
                let shown = format!("datum (constructor): {}\nmodel canonical form: {}", it.expr, it.canon);
                match st.outcome {
                    Outcome::Panic => return Err(Failure::new(format!("c12:roundtrip:panic:{}", site(&st.err_msg)), format!("{}\npanic: {}", shown, st.err_msg))),
                    Outcome::Err => return Err(Failure::new(format!("c12:roundtrip:error:{}", it.label), format!("{}\nwrite/read raised {}: {}", shown, st.err_kind, st.err_msg))),
                    Outcome::Ok => {}
                }
                let v = st.values.iter().rev().find(|v| *v != "#void").cloned().unwrap_or_default();
                // (s:"text" <datum>)
                let want_suffix = if it.by_equal { " y:\"c12-equal\")".to_string() } else { format!(" {})", it.canon) };
                if !(v.starts_with("(s:\"") && v.ends_with(&want_suffix)) {
                    return Err(Failure::new(format!("c12:roundtrip:differs:{}", it.label), format!("{}\n(written text, datum read back): {}", shown, v)));
                }
                // recover the written text from the canonical string: s:"..." with \" \\ \xN; escapes
                let body = &v[4..v.len() - want_suffix.len()];
                let body = body.strip_suffix('"').unwrap_or(body);
                let mut text = String::new();
                let mut it2 = body.chars().peekable();
                while let Some(ch) = it2.next() {
                    if ch == '\\' {
                        match it2.next() {
                            Some('x') => {
                                let mut hex = String::new();
                                for h in it2.by_ref() {
                                    if h == ';' {
                                        break;
                                    }
                                    hex.push(h);
                                }
                                if let Some(c) = u32::from_str_radix(&hex, 16).ok().and_then(char::from_u32) {
                                    text.push(c);
                                }
                            }
                            Some(o) => text.push(o),
                            None => {}
                        }
                    } else {
                        text.push(ch);
                    }
                }
                texts.push((it, text));
            }
            // the writer's output must be accepted by the parser as exactly one form
            let steps: Vec<Step> = texts.iter().map(|(_, t)| Step::Special { name: "parse-raw".into(), args: vec![t.clone()] }).collect();
            let r2 = run_case(ws, &cfg, steps);
            if let Some(f) = fatal("c12:parse-written", &r2, "parsing the writer's output") {
                return Err(f);
            }
            for (i, (it, t)) in texts.iter().enumerate() {
                if let Some(st) = r2.steps.get(i) {
                    let head = st.values.first().cloned().unwrap_or_default();
                    if st.outcome == Outcome::Panic {
                        return Err(Failure::new(format!("c12:parse-written:panic:{}", site(&st.err_msg)), format!("written text: {:?}\npanic: {}", t, st.err_msg)));
                    }
                    if head != "ok 1" {
                        return Err(Failure::new(format!("c12:parse-written:rejected:{}", it.label), format!("datum: {}\nwritten text: {:?}\nParser::parse: {}", it.expr, t, head)));
                    }
                }
            }
            if counting {
                ctx.stats.eval();
                let mut any_rich = false;
                for it in items {
                    ctx.stats.class(&format!("roundtrip:{}", it.label));
                    if it.kinds.len() >= 3 {
                        any_rich = true;
                    }
                    for k in &it.kinds {
                        ctx.stats.class(&format!("kind:{}", k));
                    }
                }
                if any_rich {
                    ctx.stats.nontrivial(&format!("{:?}", items.iter().map(|i| &i.expr).collect::<Vec<_>>()));
                }
                if ctx.stats.want_sample() {
                    ctx.stats.sample(serde_json::json!({"written_texts": texts.iter().map(|(_, t)| t.clone()).collect::<Vec<_>>()}));
                }
            }
            Ok(())
        }
        Case12::Text(text) => {
            let steps = vec![
                Step::Special { name: "parse".into(), args: vec![text.clone()] },
                Step::Special { name: "parse-raw".into(), args: vec![text.clone()] },
                Step::Eval { src: PRELUDE.to_string() },
                Step::Eval { src: format!("(with-handler (lambda (e) 'c12-reader-error) (c12-rd {}))", str_expr(text)) },
            ];
            let r = run_case(ws, &cfg, steps);
            ctx.stats.engine_runs.fetch_add(1, std::sync::atomic::Ordering::Relaxed);
            let shown = format!("text: {:?}", text);
            if let Some(f) = fatal("c12:reader", &r, &shown) {
                return Err(f);
            }
            if r.end != End::Done {
                if counting {
                    ctx.stats.inconclusive.fetch_add(1, std::sync::atomic::Ordering::Relaxed);
                }
                return Ok(());
            }
            for (i, st) in r.steps.iter().enumerate() {
                if st.outcome == Outcome::Panic {
                    let which = if i <= 1 { "parser" } else { "read" };
                    return Err(Failure::new(format!("c12:reader:{}-panic:{}", which, site(&st.err_msg)), format!("{}\npanic: {}", shown, st.err_msg)));
                }
            }
            let mut rejected = false;
            let mut head = String::new();
            for st in r.steps.iter().take(2) {
              head = st.values.first().cloned().unwrap_or_default();
              if let Some(rest) = head.strip_prefix("err ") {
                rejected = true;
                let mut p = rest.split(' ');
                let s: i64 = p.next().and_then(|x| x.parse().ok()).unwrap_or(-1);
                let e: i64 = p.next().and_then(|x| x.parse().ok()).unwrap_or(-1);
                if s < 0 || e < s || e as usize > text.len() {
                    return Err(Failure::new("c12:reader:span-outside-text", format!("{}\ntext length {} bytes, reported span {}..{}\n{}", shown, text.len(), s, e, head)));
                }
              }
            }
            if counting {
                ctx.stats.eval();
                ctx.stats.class(if rejected { "text:rejected-with-span" } else { "text:accepted" });
                if text.chars().count() >= 6 {
                    ctx.stats.nontrivial(text);
                }
                if ctx.stats.want_sample() && rejected {
                    ctx.stats.sample(serde_json::json!({"text": text, "parser": head}));
                }
            }
            Ok(())
        }
        Case12::Program(text) => {
            let r = run_case(ws, &cfg, vec![Step::Special { name: "parse-raw".into(), args: vec![text.clone()] }]);
            ctx.stats.engine_runs.fetch_add(1, std::sync::atomic::Ordering::Relaxed);
            let shown = format!("program text:\n{}", text);
            if let Some(f) = fatal("c12:print-parse", &r, &shown) {
                return Err(f);
            }
            let Some(st) = r.steps.first() else { return Ok(()) };
            if st.outcome == Outcome::Panic {
                return Err(Failure::new(format!("c12:print-parse:panic:{}", site(&st.err_msg)), format!("{}\npanic: {}", shown, st.err_msg)));
            }
            if !st.values.first().map(|h| h.starts_with("ok ")).unwrap_or(false) {
                if counting {
                    ctx.stats.class("program:rejected");
                }
                return Ok(());
            }
            let p1: Vec<String> = st.values[1..].to_vec();
            let r2 = run_case(ws, &cfg, vec![Step::Special { name: "parse-raw".into(), args: vec![p1.join("\n")] }]);
            if let Some(f) = fatal("c12:print-parse", &r2, &shown) {
                return Err(f);
            }
            let Some(st2) = r2.steps.first() else { return Ok(()) };
            if st2.outcome == Outcome::Panic {
                return Err(Failure::new(format!("c12:print-parse:panic:{}", site(&st2.err_msg)), format!("{}\nprinted: {:?}\npanic: {}", shown, p1, st2.err_msg)));
            }
            let head = st2.values.first().cloned().unwrap_or_default();
            if !head.starts_with("ok ") {
                return Err(Failure::new("c12:print-parse:print-not-readable", format!("{}\nprinted forms: {:?}\nparsing the print: {}", shown, p1, head)));
            }
            let p2: Vec<String> = st2.values[1..].to_vec();
            if p1 != p2 {
                return Err(Failure::new("c12:print-parse:tree-changed", format!("{}\nprint of parse:          {:?}\nprint of parse of print: {:?}", shown, p1, p2)));
            }
            if counting {
                ctx.stats.eval();
                ctx.stats.class("program:print-parse-fixpoint");
                if p1.len() >= 2 {
                    ctx.stats.nontrivial(text);
                }
            }
            Ok(())
        }
    }
}

/// thorough tier: a coverage-guided libFuzzer campaign against the reader (fuzz/fuzz_targets/parser.rs,
/// oracle inside the target).  A crash artifact is re-checked as a `Text` case and reported.
fn fuzz_campaign(ctx: &Ctx) {
    let dir = ctx.verif_dir.join("fuzz");
    let art = dir.join("artifacts").join("parser");
    let _ = std::fs::remove_dir_all(&art);
    let runs = ctx.n(0, 4_000_000).to_string();
    let out = std::process::Command::new("cargo")
        .args(["+nightly", "fuzz", "run", "--fuzz-dir"])
        .arg(&dir)
        .args(["parser"])
        .arg(dir.join("corpus").join("parser"))
        .args(["--", &format!("-runs={}", runs), "-max_len=120", &format!("-seed={}", ctx.seed.max(1)), "-rss_limit_mb=3000"])
        .env("CARGO_NET_OFFLINE", "true")
        .current_dir(&dir)
        .output();
    let Ok(out) = out else {
        eprintln!("INFRA: cargo fuzz could not be started");
        return;
    };
    let log = String::from_utf8_lossy(&out.stderr).to_string();
    ctx.extra("libfuzzer_runs_requested", serde_json::json!(runs));
    ctx.extra("libfuzzer_last_lines", serde_json::json!(log.lines().rev().take(3).collect::<Vec<_>>()));
    let mut found = false;
    if let Ok(rd) = std::fs::read_dir(&art) {
        for e in rd.flatten() {
            let bytes = std::fs::read(e.path()).unwrap_or_default();
            let text = String::from_utf8_lossy(&bytes).to_string();
            let msg = log.lines().skip_while(|l| !l.contains("C12 VIOLATION")).take(4).collect::<Vec<_>>().join("\n");
            let kind = if e.file_name().to_string_lossy().starts_with("oom") { "out-of-memory" } else if e.file_name().to_string_lossy().starts_with("timeout") { "timeout" } else { "oracle" };
            if kind == "timeout" {
                continue;
            }
            found = true;
            let f = Failure::new(format!("c12:libfuzzer:{}", kind), format!("libFuzzer artifact {}\ninput: {:?}\n{}", e.path().display(), text, msg));
            ctx.violation("text", &Case12::Text(text), &f);
        }
    }
    if !found {
        ctx.stats.class_n("libfuzzer-executions-without-finding", runs.parse().unwrap_or(0));
    }
}

pub fn run(ctx: &Ctx, replay: Option<&str>) -> i32 {
    ctx.set_rule(
        "(a) round trip: batches of 8 data of depth <=3 from fixnums (incl. extremes), bignums, ratios, doubles (incl. -0.0, \
         subnormal, 1e21, inf, nan), booleans, 28 characters (controls, delimiters, BOM, astral), strings over them, plain and odd \
         symbols (spaces, empty, bars, number-like, dots), proper / improper lists, vectors, byte vectors, quotation forms; built \
         from constructors, written with write, read back with read; the datum read back must have the model's canonical form \
         and the written text must parse as one form. (b) totality: token soup over 80 lexical fragments, well formed data with \
         1-4 character level mutations (delete, duplicate, insert fragment, truncate), arbitrary unicode; Parser::parse and \
         the run time read must not panic and an error span must lie inside the text. (c) print/parse fixpoint on generated \
         programs (the C01 generator) and data. Non-trivial = distinct batch containing a datum of >=3 kinds / text of >=6 \
         characters / program of >=2 forms.",
    );
    ctx.assume("data are built with constructors, so the round trip does not depend on the reader for anything but plain numbers; a watchdog timeout is inconclusive");
    let o = opts(ctx);
    if let Some(path) = replay {
        let Some(rf) = load_replay::<Case12>(std::path::Path::new(path)) else {
            eprintln!("cannot read replay file {}", path);
            return 2;
        };
        let mut ws = Workers::new();
        return match check(ctx, &mut ws, &rf.case, false) {
            Ok(()) => {
                println!("replay {}: property holds", path);
                0
            }
            Err(f) => {
                println!("VIOLATION property={} replay={}", ctx.prop, path);
                println!("  sig: {}\n{}", f.sig, f.detail);
                1
            }
        };
    }
    {
        let mut ws = Workers::new();
        for sub in ["round", "text", "program"] {
            replay_tier::<Case12>(ctx, sub, &mut |c| check(ctx, &mut ws, c, false));
        }
    }
    let handle = |ctx: &Ctx, sub: &str, c: &Case12, r: PropResult, counting: bool| -> PropResult {
        match r {
            Err(f) => {
                if let Some(k) = ctx.match_known(&f) {
                    if counting {
                        ctx.note_known_hit(&k.id);
                        ctx.dump_known_case(k, sub, c, &f);
                    }
                    Ok(())
                } else if ctx.survey_case(sub, c, &f) {
                    Ok(())
                } else {
                    Err(f)
                }
            }
            ok => ok,
        }
    };
    let plain = o.plain_symbols_only;
    let av = o.avoid.clone();
    for k in &av {
        ctx.stats.excluded(k);
    }
    if plain {
        ctx.stats.excluded("KF-C12-symbol-bars");
    }
    let fails = run_prop(
        ctx,
        "round",
        || {
            let av = av.clone();
            prop::collection::vec(prop::collection::vec(any::<u16>(), 0..80), 8).prop_map(move |ds| {
                Case12::Round(
                    ds.iter()
                        .map(|d| {
                            let mut c = Chooser::new(d);
                            item(&datum::datum(&mut c, 3, &DatumOpts { plain_symbols_only: plain, avoid: av.clone() }))
                        })
                        .collect(),
                )
            })
        },
        ctx.n(4000, 150_000),
        |ws, c, counting| {
            let r = check(ctx, ws, c, counting);
            handle(ctx, "round", c, r, counting)
        },
    );
    // reduce a failing batch to its failing datum
    let mut ws = Workers::new();
    let fails: Vec<(Case12, Failure)> = fails
        .into_iter()
        .map(|(c, f)| {
            if let Case12::Round(items) = &c {
                for it in items {
                    let one = Case12::Round(vec![it.clone()]);
                    if let Err(g) = check(ctx, &mut ws, &one, false) {
                        if g.sig == f.sig {
                            return (one, g);
                        }
                    }
                }
            }
            (c, f)
        })
        .collect();
    report_failures(ctx, "round", fails);
    let fails = run_prop(ctx, "text", || text_strategy(ctx).prop_map(Case12::Text), ctx.n(12_000, 600_000), |ws, c, counting| {
        let r = check(ctx, ws, c, counting);
        handle(ctx, "text", c, r, counting)
    });
    report_failures(ctx, "text", fails);
    let avoid = crate::checks::c01::avoid_list(ctx);
    let fails = run_prop(
        ctx,
        "program",
        || {
            let avoid = avoid.clone();
            prop_oneof![
                2 => crate::checks::c01::choices(300).prop_map(move |d| Case12::Program(crate::checks::c01::case_from_choices(&d, crate::checks::c01::opts(avoid.clone())).text)),
                1 => prop::collection::vec(any::<u16>(), 0..80).prop_map(move |d| {
                    let mut c = Chooser::new(&d);
                    Case12::Program(format!("(quote {})", datum::datum(&mut c, 3, &DatumOpts { plain_symbols_only: true, avoid: vec![] }).write()))
                }),
            ]
        },
        ctx.n(4000, 150_000),
        |ws, c, counting| {
            let r = check(ctx, ws, c, counting);
            handle(ctx, "program", c, r, counting)
        },
    );
    report_failures(ctx, "program", fails);
    if !ctx.quick() {
        fuzz_campaign(ctx);
    }
    ctx.finish()
}
