//! C20 — the host boundary converts faithfully and never exposes dangling host references.
//! The worker registers identity functions at every supported parameter type, multi-argument
//! functions, host-made values, a registered struct and a host object that is lent by reference
//! for the duration of one evaluation (svworker/src/host.rs).
//! (a) conversions: generated (function, argument) pairs incl. boundary magnitudes and wrong kinds;
//!     oracle: in-range well-typed arguments come back unchanged, out-of-range or mistyped ones are
//!     errors, and nothing ever comes back as a *different* value;
//! (b) arity: every registered function with 0..5 arguments;
//! (c) lent references: scripts stash the lent reference in globals, boxes, vectors, hash maps,
//!     lists, closures and continuations; every use after the call must be an error, also during a
//!     later lend of another object.

use crate::runner::*;
use crate::worker::{Config, Workers};
use proptest::prelude::*;
use serde::{Deserialize, Serialize};
use svproto::*;

#[derive(Clone, Debug, Serialize, Deserialize)]
pub enum Case20 {
    /// (expression, expectation)
    Conv { expr: String, expect: Expect, label: String },
    Lent {
        stash: u8,
        uses: Vec<u8>,
        second_lend: bool,
        set_to: u32,
        /// the lending call ends by a panic of a host function which the embedder catches
        #[serde(default)]
        panic_during: bool,
    },
}

#[derive(Clone, Debug, Serialize, Deserialize, PartialEq)]
pub enum Expect {
    /// must evaluate to exactly this canonical value
    Value(String),
    /// must raise
    Error,
    /// must raise or evaluate to exactly this canonical value (a lenient but faithful conversion)
    ErrorOr(String),
}

// ---------------------------------------------------------------------------------------
// (a) + (b)

const INTS: &[&str] = &[
    "0", "1", "-1", "127", "128", "255", "256", "-128", "-129", "32767", "32768", "-32768", "-32769", "65535", "65536", "2147483647", "2147483648", "-2147483648", "-2147483649", "4294967295", "4294967296",
    "9223372036854775807", "9223372036854775808", "-9223372036854775808", "-9223372036854775809", "18446744073709551615", "18446744073709551616", "340282366920938463463374607431768211456",
];

fn int_range(f: &str) -> Option<(i128, i128)> {
    Some(match f {
        "host-i16" => (i16::MIN as i128, i16::MAX as i128),
        "host-i32" => (i32::MIN as i128, i32::MAX as i128),
        "host-u8" => (0, u8::MAX as i128),
        "host-u16" => (0, u16::MAX as i128),
        "host-u32" => (0, u32::MAX as i128),
        "host-u64" => (0, u64::MAX as i128),
        "host-usize" => (0, usize::MAX as i128),
        "host-isize" => (isize::MIN as i128, isize::MAX as i128),
        _ => return None,
    })
}

fn canon_int(v: i128) -> String {
    if v >= i64::MIN as i128 && v <= i64::MAX as i128 {
        format!("i:{}", v)
    } else {
        format!("B:{}", v)
    }
}

const INT_FNS: &[&str] = &["host-i16", "host-i32", "host-u8", "host-u16", "host-u32", "host-u64", "host-usize", "host-isize"];
const WRONG_KINDS: &[&str] = &["\"12\"", "'sym", "(list 1)", "(vector 1)", "#t", "#\\a", "(hash)", "1/2", "(lambda (x) x)", "(void)"];

fn conv_case() -> impl Strategy<Value = Case20> {
    let ints = (prop::sample::select(INT_FNS.to_vec()), prop::sample::select(INTS.to_vec())).prop_map(|(f, v)| {
        let (lo, hi) = int_range(f).unwrap();
        let n: i128 = v.parse().unwrap_or(i128::MAX);
        let in_range = v.len() < 30 && n >= lo && n <= hi;
        let expect = if in_range {
            // u64 / usize come back as decimal strings
            if f == "host-u64" || f == "host-usize" {
                Expect::Value(format!("s:\"{}\"", n))
            } else {
                Expect::Value(canon_int(n))
            }
        } else {
            Expect::Error
        };
        Case20::Conv { expr: format!("({} {})", f, v), expect, label: format!("{}:{}", f, if in_range { "in-range" } else { "out-of-range" }) }
    });
    let int_floats = (prop::sample::select(INT_FNS.to_vec()), prop::sample::select(vec!["1.5", "1.0", "-0.0", "1e30", "+inf.0", "+nan.0"])).prop_map(|(f, v)| {
        let expect = match v {
            "1.0" => {
                if f == "host-u64" || f == "host-usize" {
                    Expect::ErrorOr("s:\"1\"".into())
                } else {
                    Expect::ErrorOr("i:1".into())
                }
            }
            "-0.0" => {
                if f == "host-u64" || f == "host-usize" {
                    Expect::ErrorOr("s:\"0\"".into())
                } else {
                    Expect::ErrorOr("i:0".into())
                }
            }
            _ => Expect::Error,
        };
        Case20::Conv { expr: format!("({} {})", f, v), expect, label: format!("{}:float-argument", f) }
    });
    let wrong = (
        prop::sample::select(vec![
            "host-i16", "host-i32", "host-u8", "host-u16", "host-u32", "host-u64", "host-usize", "host-isize", "host-f64", "host-char", "host-string", "host-opt-int", "host-result", "host-vec-int", "host-vec-string", "host-hashmap",
            "host-hashset", "HostPoint-x",
        ]),
        prop::sample::select(WRONG_KINDS.to_vec()),
    )
        .prop_filter_map("well typed by accident", |(f, v)| {
            // combinations that are well typed or faithfully convertible are left to the other generators
            let ok = match (f, v) {
                ("host-char", "#\\a") => true,
                ("host-string", "\"12\"") | ("host-string", "'sym") => true,
                ("host-opt-int", "#t") => false,
                ("host-vec-int", "(list 1)") | ("host-vec-int", "(vector 1)") => true,
                ("host-vec-string", "(list 1)") | ("host-vec-string", "(vector 1)") => false,
                ("host-hashmap", "(hash)") => true,
                ("host-f64", "1/2") => true,
                _ => false,
            };
            if ok {
                None
            } else {
                Some(Case20::Conv { expr: format!("({} {})", f, v), expect: Expect::Error, label: format!("{}:wrong-kind", f) })
            }
        });
    let exact = prop::sample::select(vec![
        ("(host-f64 1.5)", "f:1.5"),
        ("(host-f64 -0.0)", "f:-0.0"),
        ("(host-f64 5e-324)", "f:5e-324"),
        ("(host-f64 1.7976931348623157e308)", "f:1.7976931348623157e308"),
        ("(host-f64 +inf.0)", "f:inf"),
        ("(host-f64 +nan.0)", "f:nan"),
        ("(host-bool #t)", "#t"),
        ("(host-bool #f)", "#f"),
        ("(host-char #\\a)", "c:61"),
        ("(host-char (integer->char 955))", "c:3bb"),
        ("(host-char (integer->char 128512))", "c:1f600"),
        ("(host-char (integer->char 0))", "c:0"),
        ("(host-string \"\")", "s:\"\""),
        ("(host-string \"h\\u{e9}\\n\\\"q\\\"\")", "s:\"h\u{e9}\\xa;\\\"q\\\"\""),
        ("(host-string (list->string (list (integer->char 0) (integer->char 128512))))", "s:\"\\x0;\u{1F600}\""),
        ("(host-opt-int 5)", "i:5"),
        ("(host-opt-int #f)", "#f"),
        ("(host-opt-int -9223372036854775808)", "i:-9223372036854775808"),
        ("(host-result 0)", "i:0"),
        ("(host-result 9223372036854775807)", "i:9223372036854775807"),
        ("(host-vec-int (list))", "()"),
        ("(host-vec-int (list 1 -2 9223372036854775807))", "(i:1 i:-2 i:9223372036854775807)"),
        ("(host-vec-string (list \"a\" \"\"))", "(s:\"a\" s:\"\")"),
        ("(host-hashmap (hash \"a\" 1 \"\" -5))", "#h{s:\"\"=>i:-5 s:\"a\"=>i:1}"),
        ("(host-hashmap (hash))", "#h{}"),
        ("(host-hashset (hashset 1 2 -3))", "#s{i:-3 i:1 i:2}"),
        ("(host-add3 1 2 3)", "i:6"),
        ("(host-concat \"a\" 2 #\\c)", "s:\"a2c\""),
        ("(host-zero)", "i:7"),
        ("(host-make-u64-max)", "B:18446744073709551615"),
        ("(host-make-usize-max)", "B:18446744073709551615"),
        ("(host-make-i64-min)", "i:-9223372036854775808"),
        ("(host-make-f32)", "f:0.10000000149011612"),
        ("(host-make-none)", "#f"),
        ("(host-make-some)", "i:5"),
        ("(host-make-tuple)", "(i:5 s:\"five\")"),
        ("(let ((p (HostPoint 1 -2))) (list (HostPoint-x p) (HostPoint-y p) (HostPoint-x (HostPoint-with-x p 2147483647)) (HostPoint-x p) (HostPoint? p) (HostPoint? 5)))", "(i:1 i:-2 i:2147483647 i:1 #t #f)"),
    ])
    .prop_map(|(e, v)| Case20::Conv { expr: e.to_string(), expect: Expect::Value(v.to_string()), label: "well-typed".into() });
    let failing = prop::sample::select(vec![
        "(host-result -1)",
        "(host-vec-int (list 1 \"a\"))",
        "(host-vec-int (cons 1 2))",
        "(host-vec-string (list 1))",
        "(host-hashmap (hash 1 1))",
        "(host-hashmap (hash \"a\" \"b\"))",
        "(host-hashset (hashset \"a\"))",
        "(host-opt-int \"a\")",
        "(HostPoint 1 2147483648)",
        "(HostPoint-with-x (HostPoint 1 2) -2147483649)",
        "(HostPoint-x 5)",
        "(host-concat \"a\" -1 #\\c)",
        "(host-concat \"a\" 1 \"c\")",
        "(host-char \"ab\")",
    ])
    .prop_map(|e| Case20::Conv { expr: e.to_string(), expect: Expect::Error, label: "ill-typed-compound".into() });
    let arity = (
        prop::sample::select(vec![
            ("host-i32", 1usize),
            ("host-string", 1),
            ("host-add3", 3),
            ("host-concat", 3),
            ("host-zero", 0),
            ("host-make-tuple", 0),
            ("HostPoint", 2),
            ("HostPoint-x", 1),
            ("lent-get", 1),
            ("host-vec-int", 1),
        ]),
        0usize..6,
    )
        .prop_filter_map("right arity", |((f, n), k)| {
            if k == n {
                None
            } else {
                let args: String = (0..k).map(|i| format!(" {}", i + 1)).collect();
                Some(Case20::Conv { expr: format!("({}{})", f, args), expect: Expect::Error, label: format!("arity:{}", f) })
            }
        });
    prop_oneof![4 => ints, 1 => int_floats, 3 => wrong, 3 => exact, 1 => failing, 2 => arity]
}

// ---------------------------------------------------------------------------------------
// (c)

const STASHES: &[(&str, &str, &str)] = &[
    // (name, code run during the lend, expression that gets the reference back later)
    ("global", "(define stash *lent*)", "stash"),
    ("box", "(define stash (box *lent*))", "(unbox stash)"),
    ("vector", "(define stash (vector 1 *lent*))", "(vector-ref stash 1)"),
    ("list", "(define stash (list *lent* 2))", "(car stash)"),
    ("hash", "(define stash (hash 'k *lent*))", "(hash-ref stash 'k)"),
    ("closure-over-value", "(define stash (let ((r *lent*)) (lambda () r)))", "(stash)"),
    ("closure-over-global", "(define stash (lambda () *lent*))", "(stash)"),
    ("set!-existing-global", "(set! pre-stash *lent*)", "pre-stash"),
    ("continuation", "(define stash-k #f)\n(define stash (let ((r *lent*)) (call/cc (lambda (k) (set! stash-k k))) r))", "stash"),
    ("struct-field", "(struct holder (r))\n(define stash (holder *lent*))", "(holder-r stash)"),
];
const USES: &[&str] = &["(lent-get {})", "(lent-get-imm {})", "(lent-set! {} 5)", "(begin (lent-set! {} 6) (lent-get {}))"];

fn lent_case() -> impl Strategy<Value = Case20> {
    (0u8..STASHES.len() as u8, prop::collection::vec(0u8..USES.len() as u8, 1..4), any::<bool>(), 0u32..100000, 0u8..4).prop_map(|(stash, uses, second_lend, set_to, p)| Case20::Lent { stash, uses, second_lend, set_to, panic_during: p == 0 })
}

pub fn check(ctx: &Ctx, ws: &mut Workers, c: &Case20, counting: bool) -> PropResult {
    for cfg in [Config::jit_off(), Config::default_cfg()] {
        match c {
            Case20::Conv { expr, expect, label } => {
                let mut case = Case::new(vec![Step::Eval { src: expr.clone() }]);
                case.timeout_ms = 10_000;
                let r = ws.run(&cfg, &case);
                ctx.stats.engine_runs.fetch_add(1, std::sync::atomic::Ordering::Relaxed);
                let shown = format!("config: {}\n{}", cfg.label(), expr);
                match r.end {
                    End::Done => {}
                    End::Watchdog | End::Oom => return Ok(()),
                    End::Signal(s) => return Err(Failure::new(format!("c20:signal:{}", label), format!("{}\nengine process died with signal {}\nstderr: {}", shown, s, r.stderr_tail))),
                    End::Exit(x) => return Err(Failure::new("c20:exit", format!("{}\nexit {}", shown, x))),
                }
                let Some(st) = r.steps.first() else { return Ok(()) };
                let got = st.values.iter().rev().find(|v| *v != "#void").cloned().unwrap_or_else(|| "#void".into());
                match (&st.outcome, expect) {
                    (Outcome::Panic, _) => return Err(Failure::new(format!("c20:panic:{}", label), format!("{}\npanic: {}", shown, st.err_msg))),
                    (Outcome::Ok, Expect::Value(v)) | (Outcome::Ok, Expect::ErrorOr(v)) => {
                        if got != *v {
                            return Err(Failure::new(format!("c20:converted-to-a-different-value:{}", label), format!("{}\nexpected: {}\nactual:   {}", shown, v, got)));
                        }
                    }
                    (Outcome::Ok, Expect::Error) => return Err(Failure::new(format!("c20:accepted:{}", label), format!("{}\nmust be reported as an error\nactual: {}", shown, got))),
                    (Outcome::Err, Expect::Value(v)) => return Err(Failure::new(format!("c20:rejected:{}", label), format!("{}\nexpected: {}\nactual: error {}: {}", shown, v, st.err_kind, st.err_msg))),
                    (Outcome::Err, _) => {}
                }
                if counting && cfg.0.is_empty() {
                    ctx.stats.class(&format!("conv:{}", label));
                }
            }
            Case20::Lent { stash, uses, second_lend, set_to, panic_during } => {
                let (sname, scode, sget) = STASHES[*stash as usize % STASHES.len()];
                let during = format!("(begin (lent-set! *lent* {}) {} (list (lent-get *lent*) (lent-get-imm *lent*)))", set_to, scode.replace('\n', " "));
                // top-level defines inside begin are fine at the top level of the script
                let script = format!("(lent-set! *lent* {})\n{}\n{}(list (lent-get *lent*) (lent-get *lent*))", set_to, scode, if *panic_during { "(host-panic)\n" } else { "" });
                let _ = during;
                let mut steps = vec![Step::Eval { src: "(define pre-stash #f)".into() }, Step::Special { name: "eval-with-ref".into(), args: vec![script.clone(), "10".into()] }];
                for u in uses {
                    steps.push(Step::Eval { src: USES[*u as usize % USES.len()].replace("{}", sget) });
                }
                if *second_lend {
                    // while another object is lent, the old reference must not reach it
                    steps.push(Step::Special { name: "eval-with-ref".into(), args: vec![format!("(with-handler (lambda (e) 'stale-reference-rejected) (lent-get {}))", sget), "99".into()] });
                }
                let mut case = Case::new(steps);
                case.timeout_ms = 10_000;
                case.continue_after_panic = true;
                let r = ws.run(&cfg, &case);
                ctx.stats.engine_runs.fetch_add(1, std::sync::atomic::Ordering::Relaxed);
                let shown = format!("config: {}\nstash: {}\nscript run while the object is lent:\n{}\nlater uses: {:?}", cfg.label(), sname, script, uses.iter().map(|u| USES[*u as usize % USES.len()].replace("{}", sget)).collect::<Vec<_>>());
                match r.end {
                    End::Done => {}
                    End::Watchdog | End::Oom => return Ok(()),
                    End::Signal(s) => return Err(Failure::new(format!("c20:lent:signal:{}", sname), format!("{}\nengine process died with signal {}\nstderr: {}", shown, s, r.stderr_tail))),
                    End::Exit(x) => return Err(Failure::new("c20:lent:exit", format!("{}\nexit {}", shown, x))),
                }
                let Some(lend) = r.steps.get(1) else { return Ok(()) };
                if lend.outcome == Outcome::Panic && !*panic_during {
                    return Err(Failure::new(format!("c20:lent:panic-during-lend:{}", sname), format!("{}\npanic: {}", shown, lend.err_msg)));
                }
                if lend.outcome != Outcome::Ok && !*panic_during {
                    return Err(Failure::new(format!("c20:lent:lend-failed:{}", sname), format!("{}\nthe script run during the lend raised {}: {}", shown, lend.err_kind, lend.err_msg)));
                }
                let want = vec![format!("(i:{} i:{})", set_to, set_to), format!("{}", set_to)];
                if !*panic_during && lend.values != want {
                    return Err(Failure::new(format!("c20:lent:wrong-value-during-lend:{}", sname), format!("{}\nexpected {:?}\nactual   {:?}", shown, want, lend.values)));
                }
                for (i, _) in uses.iter().enumerate() {
                    let Some(st) = r.steps.get(2 + i) else { break };
                    match st.outcome {
                        Outcome::Err => {}
                        Outcome::Panic => return Err(Failure::new(format!("c20:lent:panic-on-stale-use:{}", sname), format!("{}\nuse {} panicked: {}", shown, i, st.err_msg))),
                        Outcome::Ok => {
                            return Err(Failure::new(
                                format!("c20:lent:stale-reference-usable:{}", sname),
                                format!("{}\nuse {} after the call returned {:?} instead of raising", shown, i, st.values),
                            ))
                        }
                    }
                }
                // (a closure that reads the global *lent* legitimately sees the object of the second lend)
                if *second_lend && sname != "closure-over-global" {
                    if let Some(st) = r.steps.last() {
                        if st.outcome == Outcome::Panic {
                            return Err(Failure::new(format!("c20:lent:panic-on-stale-use:{}", sname), format!("{}\nstale use during a second lend panicked: {}", shown, st.err_msg)));
                        }
                        if st.outcome == Outcome::Ok && st.values.first().map(|v| v != "y:\"stale-reference-rejected\"").unwrap_or(true) {
                            return Err(Failure::new(
                                format!("c20:lent:stale-reference-reaches-another-object:{}", sname),
                                format!("{}\nduring a second lend (object value 99) the stale reference gave {:?}", shown, st.values),
                            ));
                        }
                    }
                }
                if counting && cfg.0.is_empty() {
                    ctx.stats.class(&format!("lent:stash-in-{}", sname));
                }
            }
        }
    }
    if counting {
        ctx.stats.eval();
        ctx.stats.nontrivial(&format!("{:?}", c));
        if ctx.stats.want_sample() {
            ctx.stats.sample(serde_json::to_value(c).unwrap());
        }
    }
    Ok(())
}

pub fn run(ctx: &Ctx, replay: Option<&str>) -> i32 {
    ctx.set_rule(
        "(a) identity functions registered at i16 i32 u8 u16 u32 u64 usize isize f64 bool char String Option<isize> \
         Result<isize,String> Vec<isize> Vec<String> HashMap<String,isize> HashSet<isize>, 3-argument functions, host-made values \
         (u64::MAX, usize::MAX, i64::MIN, f32, None/Some, tuple) and a registered struct, called with 28 integer magnitudes \
         around every width's bounds, floats, 10 wrong kinds, and compound ill-typed values; (b) 10 functions called with 0-5 \
         arguments; (c) a host object lent by reference while a script stashes it in a global, box, vector, list, hash map, \
         struct field, closure, or across a captured continuation, then 1-3 later uses (get, immutable get, set) and optionally \
         a use during a second lend of another object. Oracle: in-range well typed arguments come back unchanged; out-of-range, \
         mistyped and wrong-arity calls raise; nothing comes back as a different value; every use of a lent reference after its \
         call raises and never reaches another object. Non-trivial = every distinct case.",
    );
    ctx.assume("the functions are registered with Engine::register_fn / register_type in the worker (svworker/src/host.rs); the lend uses Engine::run_with_reference; symbols passed where a String is expected may be converted (same text)");
    if let Some(path) = replay {
        let Some(rf) = load_replay::<Case20>(std::path::Path::new(path)) else {
            eprintln!("cannot read replay file {}", path);
            return 2;
        };
        let mut ws = Workers::new();
        return match check(ctx, &mut ws, &rf.case, false) {
            Ok(()) => {
                println!("replay {}: property holds", path);
                0
            }
            Err(f) => {
                println!("VIOLATION property={} replay={}", ctx.prop, path);
                println!("  sig: {}\n{}", f.sig, f.detail);
                1
            }
        };
    }
    {
        let mut ws = Workers::new();
        for sub in ["conv", "lent"] {
            replay_tier::<Case20>(ctx, sub, &mut |c| check(ctx, &mut ws, c, false));
        }
    }
    let handle = |sub: &str, c: &Case20, r: PropResult, counting: bool| -> PropResult {
        match r {
            Err(f) => {
                if let Some(k) = ctx.match_known(&f) {
                    if counting {
                        ctx.note_known_hit(&k.id);
                        ctx.dump_known_case(k, sub, c, &f);
                    }
                    Ok(())
                } else if ctx.survey_case(sub, c, &f) {
                    Ok(())
                } else {
                    Err(f)
                }
            }
            ok => ok,
        }
    };
    let fails = run_prop(ctx, "conv", conv_case, ctx.n(6000, 60_000), |ws, c, counting| {
        let r = check(ctx, ws, c, counting);
        handle("conv", c, r, counting)
    });
    report_failures(ctx, "conv", fails);
    let fails = run_prop(ctx, "lent", lent_case, ctx.n(2000, 30_000), |ws, c, counting| {
        let r = check(ctx, ws, c, counting);
        handle("lent", c, r, counting)
    });
    report_failures(ctx, "lent", fails);
    ctx.finish()
}
