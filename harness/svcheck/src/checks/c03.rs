//! C03 — immutable values never change: the in-place update optimisation is unobservable.
//! The collection scripts of svmodel::coll with the emphasis on sharing: every operation is
//! applied under one of eight holder patterns (direct, let-bound last use, chained on an
//! intermediate nobody else holds, function parameter, closure capture called twice, old and
//! new kept together, held in a container while updated, another thread), and all previously
//! produced values are observed again afterwards.
//! Oracles: (1) every earlier value still has its canonical form; (2) an operation on a shared
//! value gives what it gives on a fresh copy (the same piece in a fresh engine whose variables
//! are rebuilt from literals) — model disagreements that do not depend on sharing are C11's.

use crate::checks::collcheck::{self, Mode};
use crate::runner::*;

pub fn run(ctx: &Ctx, replay: Option<&str>) -> i32 {
    ctx.set_rule(
        "the C11 collection scripts; every functional update (cons, append, push-back, immutable-vector-push/-set/-append, \
         hash-insert/-remove/-union, hashset-insert/-union/..., string-append, bytes-append, ...) is applied to a variable under a \
         holder pattern: direct, let-bound copy at its last use, chained on an intermediate result nobody else holds (where an \
         in-place update is legitimate), through a function parameter, through a closure capture invoked twice, with old and \
         new value kept together, while also held by a container, and from another native thread; all live variables are \
         re-observed after the updates. Violation = an earlier value's canonical form changed, or a piece gives the model's \
         result in a fresh engine with variables rebuilt from literals but not here. Non-trivial = distinct script with >=2 \
         non-direct patterns and an observation.",
    );
    ctx.assume("values are shared through variables, closures, containers and native threads; sharing through continuations is exercised by C08's re-entry templates");
    collcheck::run(ctx, replay, "c03", Mode::Persistence, 12_000, 400_000, true)
}
