//! C16 — threads always make progress through collections and global updates.
//! The thread programs of `threads.rs` under natural collections: completion (no
//! deadlock between joins, channel receives, collections and global definitions), join results
//! delivered exactly once, channel messages delivered once and in order per sender.

use crate::checks::threads;
use crate::runner::*;

pub fn run(ctx: &Ctx, replay: Option<&str>) -> i32 {
    ctx.set_rule(
        "programs with 1-8 native worker threads (50-2000 iterations, allocation of boxes / vectors / closures / hash maps / \
         strings), a shared channel for ticks every 7 / 50 / 120 iterations, one channel per worker on which it blocks for 0-5 \
         values from the main thread, global assignment and definition by the main thread in between, draining of exactly the \
         expected number of messages, optionally an updater thread assigning a global 50 / 300 times back to back (in half of these cases while the main thread assigns and defines globals and heap garbage causes collections too), a delay schedule for the handshake in two thirds of the cases (see C15), 10 / 40 \
         short-lived threads spawned and joined by the main thread meanwhile, a collection requested while the workers exit, joins in spawn order, reverse order, through an explicit loop, or interleaved with \
         draining; natural collections only (forced ones are C15's domain); JIT on and off. Required: the program \
         finishes (a run that does not finish within 30 s and, retried, within 60 s is reported as lack of progress - it needs \
         well under a second), every join result arrives exactly once and is the worker's value, every sender's messages arrive \
         exactly once and in order. Non-trivial = >=2 workers and >=100 iterations.",
    );
    ctx.assume("the OS scheduler chooses the interleavings; a deadlock is recognised by a generous time limit with one retry, which is the one place besides C17 where a timeout is a violation");
    threads::run(ctx, replay, "c16", false, 1500, 60000)
}
