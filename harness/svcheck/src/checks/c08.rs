//! C08 — continuations, dynamic-wind and handlers restore the captured control state.
//! Programs built around control templates (continuations stored in boxes and re-entered,
//! escapes and re-entries through dynamic-wind, errors crossing winds to handlers, re-entry
//! into map callbacks, escapes from deep recursion), embedded in generated expressions.
//! Oracle: the reference interpreter, whose continuations are heap allocated frame lists with
//! R7RS common-ancestor winding.

use crate::checks::c01::{self, ProgCase};
use crate::progcheck::Entry;
use crate::runner::*;
use crate::worker::{Config, Workers};
use proptest::prelude::*;
use svmodel::ast::*;
use svmodel::gen::GenOpts;

pub fn opts(avoid: Vec<String>) -> GenOpts {
    GenOpts { winds: true, callcc: true, handlers: true, errors: true, output: true, heap: true, avoid, ..GenOpts::default() }
}

fn nontrivial(c: &ProgCase, steps: u64) -> bool {
    let interesting = ["continuation-reentry", "escape-through-wind", "reentry-into-wind", "error-through-wind", "reentry-into-map", "nested-handlers", "escape-from-depth"];
    c.features.iter().any(|f| interesting.contains(&f.as_str())) && steps >= 30
}

fn check(ctx: &Ctx, ws: &mut Workers, c: &ProgCase, counting: bool, strict: bool) -> PropResult {
    let cfgs = [Config::default_cfg(), Config::jit_off()];
    let r = c01::check_case_with(ctx, ws, c, counting, &cfgs, strict, "c08", &[Entry::Repl, Entry::Module], false, &nontrivial);
    if counting {
        for f in &c.features {
            if ["continuation-reentry", "escape-through-wind", "reentry-into-wind", "error-through-wind", "reentry-into-map", "nested-handlers", "escape-from-depth", "capture-in-argument-position", "reentry-into-nested-winds", "reentry-from-sibling-wind", "reentry-into-closure-instance-recursion", "reentry-after-caught-error", "after-thunk-escapes"].contains(&f.as_str()) {
                ctx.stats.class(&format!("template:{}", f));
            }
        }
    }
    r
}

pub fn run(ctx: &Ctx, replay: Option<&str>) -> i32 {
    ctx.set_rule(
        "the C01 program generator with the control templates switched on: a continuation stored in a box and re-entered 1-3 \
         times (from a let binding, from an argument position with pending work, from inside a map callback, from inside a \
         dynamic-wind body after it was left), escapes through dynamic-wind and from deep recursion, errors crossing a wind to a \
         handler, nested handlers; templates are embedded in generated expressions and combined. State that must survive re-entry \
         lives in boxes. Output (the trace of before/after thunks and displays), values and outcome must equal the reference \
         interpreter's. Non-trivial = distinct program containing a re-entry, an escape or an error through a wind, or nested \
         handlers, and >=30 reference steps.",
    );
    ctx.assume("a continuation captured inside one top-level form extends to the end of that form (Steel's documented behaviour); programs are entered as top-level text");
    if let Some(path) = replay {
        let Some(rf) = load_replay::<ProgCase>(std::path::Path::new(path)) else {
            eprintln!("cannot read replay file {}", path);
            return 2;
        };
        let mut ws = Workers::new();
        let mut c = rf.case;
        c.text = render_program(&c.program);
        return match check(ctx, &mut ws, &c, false, true) {
            Ok(()) => {
                println!("replay {}: property holds", path);
                0
            }
            Err(f) => {
                println!("VIOLATION property={} replay={}", ctx.prop, path);
                println!("  sig: {}\n{}", f.sig, f.detail);
                1
            }
        };
    }
    {
        let mut ws = Workers::new();
        replay_tier::<ProgCase>(ctx, "prog", &mut |c| {
            let mut c = c.clone();
            c.text = render_program(&c.program);
            check(ctx, &mut ws, &c, false, true)
        });
    }
    let total = ctx.n(6000, 300_000);
    let avoid = c01::avoid_list(ctx);
    let fails = run_prop(
        ctx,
        "prog",
        || {
            let avoid = avoid.clone();
            c01::choices(400).prop_map(move |d| c01::case_from_choices(&d, opts(avoid.clone())))
        },
        total,
        |ws, c, counting| match check(ctx, ws, c, counting, false) {
            Err(f) => {
                let f = f.with_features(&c.features);
                if let Some(k) = ctx.match_known(&f) {
                    if counting {
                        ctx.note_known_hit(&k.id);
                        ctx.dump_known_case(k, "prog", c, &f);
                    }
                    Ok(())
                } else if ctx.survey(&f) {
                    let mut g = SURVEY_CASES.lock().unwrap();
                    let e = g.entry(f.sig.clone()).or_insert_with(|| c.clone());
                    if c.text.len() < e.text.len() {
                        *e = c.clone();
                    }
                    Ok(())
                } else {
                    Err(f)
                }
            }
            ok => ok,
        },
    );
    let mut ws = Workers::new();
    let reduce = |ws: &mut Workers, c: &ProgCase, f: &Failure| -> (ProgCase, Failure) {
        let mut last = f.clone();
        // the reduction has a wall-clock budget: past it every further candidate is rejected
        let reduce_deadline = std::time::Instant::now() + std::time::Duration::from_secs(if ctx.quick() { 150 } else { 900 });
        let reduced = svmodel::shrink::reduce(&c.program, 1200, &mut |p| {
            if std::time::Instant::now() > reduce_deadline {
                return false;
            }
            let cand = ProgCase { program: p.clone(), text: render_program(p), features: vec![], excluded: vec![] };
            match check(ctx, ws, &cand, false, false) {
                Err(g) if g.sig == f.sig => {
                    last = g;
                    true
                }
                _ => false,
            }
        });
        let text = render_program(&reduced);
        (ProgCase { program: reduced, text, features: c.features.clone(), excluded: vec![] }, last)
    };
    let fails: Vec<(ProgCase, Failure)> = fails.into_iter().map(|(c, f)| reduce(&mut ws, &c, &f)).collect();
    report_failures(ctx, "prog", fails);
    if std::env::var("VERIF_SURVEY").is_ok() {
        let cases: Vec<(String, ProgCase)> = SURVEY_CASES.lock().unwrap().iter().map(|(k, v)| (k.clone(), v.clone())).collect();
        for (sig, c) in cases {
            let f = Failure::new(sig.clone(), String::new());
            let (rc, rf) = reduce(&mut ws, &c, &f);
            println!("SURVEY-REDUCED {}\n{}\n  --> {}", sig, rc.text, rf.detail.lines().rev().take(3).collect::<Vec<_>>().join(" | "));
        }
    }
    ctx.finish()
}

static SURVEY_CASES: std::sync::Mutex<std::collections::BTreeMap<String, ProgCase>> = std::sync::Mutex::new(std::collections::BTreeMap::new());
