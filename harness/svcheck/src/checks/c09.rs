//! C09 — tail calls run in constant space at any iteration count; deep non-tail recursion
//! ends with an error value, not a crash.
//! Domain: loop shapes x iteration counts x JIT on/off x entry (top-level text / module).
//! Oracle: (invariant) the frame-stack and operand-stack depths read by the `#%verif-depths`
//! hook at iterations 24, n/2 and n-16 do not grow (beyond a constant); (model) the loop's result equals
//! the closed form.  Second clause: non-tail recursion of depth d returns d or an error value.

use crate::runner::*;
use crate::worker::{Config, Workers};
use proptest::prelude::*;
use serde::{Deserialize, Serialize};
use svproto::*;

#[derive(Clone, Debug, Serialize, Deserialize, PartialEq)]
pub enum Shape {
    SelfLoop,
    /// k mutually recursive functions, each calling the next in tail position
    Mutual(usize),
    /// (define (go f i acc) ... (f f (+ i 1) ...)) : tail call through a parameter
    ThroughParam,
    /// tail call made with apply
    ThroughApply,
    /// the looping function has a rest parameter; the self call passes `extra` surplus arguments
    RestArgs(usize),
    /// t let-bound temporaries around the tail call
    LetTemps(usize),
    /// a variable captured by a closure created in every iteration
    Captured,
    /// tail position inside cond / case / when / and / or / begin
    InCond,
    InCase,
    InWhen,
    InAnd,
    InOr,
    InBegin,
    /// the loop is an inner named let whose exit is a tail call to an outer function that
    /// starts the next round (tail call out of a named let)
    OutOfNamedLet,
    /// the tail call sits in a handler's body
    FromHandler,
    /// k accumulators rotated on every iteration (argument shuffle over the current frame), the
    /// tail call nested in `lets` let forms each binding `width` temporaries; `mutual`: the loop
    /// alternates between two functions of the same arity
    Shuffle { arity: usize, lets: usize, width: usize, mutual: bool },
    /// an earlier branch of the conditional evaluates to a lambda expression (directly, through let /
    /// begin, as a cond clause, in a never-taken branch), a later branch is the tail call; variants 0-5
    ClosureValuedBranch(u8),
    /// non-tail recursion of the given depth: must end Ok or Err
    Deep,
}

#[derive(Clone, Debug, Serialize, Deserialize)]
pub struct LoopCase {
    pub shape: Shape,
    pub n: u64,
    pub module: bool,
}

/// probe iterations are multiples of 12 so that they fall into the first function of a mutual group
fn mid(n: u64) -> u64 {
    (n / 2) / 12 * 12
}
fn late(n: u64) -> u64 {
    (n - 16) / 12 * 12
}

/// loop head shared by all shapes: records the depths at two iterations
fn probes(n: u64) -> String {
    format!(
        "(when (= i 24) (set-box! da (#%verif-depths))) (when (= i {}) (set-box! dm (#%verif-depths))) (when (= i {}) (set-box! db (#%verif-depths)))",
        mid(n),
        late(n)
    )
}

/// (definitions, call expression whose value is the loop result); the result must be n(n-1)/2
pub fn render(c: &LoopCase) -> (String, String) {
    let n = c.n;
    let p = probes(n);
    let head = "(define da (box #f))\n(define dm (box #f))\n(define db (box #f))\n".to_string();
    let (defs, call) = match &c.shape {
        Shape::SelfLoop => (format!("(define (lp i acc) {} (if (= i {}) acc (lp (+ i 1) (+ acc i))))", p, n), "(lp 0 0)".to_string()),
        Shape::Mutual(k) => {
            let mut d = String::new();
            for j in 0..*k {
                let next = (j + 1) % k;
                let pr = if j == 0 { p.clone() } else { String::new() };
                d.push_str(&format!("(define (m{} i acc) {} (if (= i {}) acc (m{} (+ i 1) (+ acc i))))\n", j, pr, n, next));
            }
            (d, "(m0 0 0)".to_string())
        }
        Shape::ThroughParam => (format!("(define (go f i acc) {} (if (= i {}) acc (f f (+ i 1) (+ acc i))))", p, n), "(go go 0 0)".to_string()),
        Shape::ThroughApply => (format!("(define (lp i acc) {} (if (= i {}) acc (apply lp (list (+ i 1) (+ acc i)))))", p, n), "(lp 0 0)".to_string()),
        Shape::RestArgs(extra) => {
            let surplus: Vec<String> = (0..*extra).map(|j| format!("{}", j)).collect();
            (
                format!("(define (lp i acc . more) {} (if (= i {}) (+ acc (length more) (- (length more))) (lp (+ i 1) (+ acc i) {})))", p, n, surplus.join(" ")),
                "(lp 0 0)".to_string(),
            )
        }
        Shape::LetTemps(t) => {
            let binds: Vec<String> = (0..*t).map(|j| format!("(t{} (+ i {}))", j, j)).collect();
            let uses: Vec<String> = (0..*t).map(|j| format!("(- t{} t{})", j, j)).collect();
            (
                format!("(define (lp i acc) {} (if (= i {}) acc (let ({}) (lp (+ i 1) (+ acc i {})))))", p, n, binds.join(" "), uses.join(" ")),
                "(lp 0 0)".to_string(),
            )
        }
        Shape::Captured => (
            format!("(define (lp i acc) {} (if (= i {}) acc (let ((f (lambda () (+ acc i)))) (lp (+ i 1) (f)))))", p, n),
            "(lp 0 0)".to_string(),
        ),
        Shape::InCond => (format!("(define (lp i acc) {} (cond ((= i {}) acc) ((< i 0) -1) (else (lp (+ i 1) (+ acc i)))))", p, n), "(lp 0 0)".to_string()),
        Shape::InCase => (
            format!("(define (lp i acc) {} (if (= i {}) acc (case (modulo i 3) ((0) (lp (+ i 1) (+ acc i))) ((1) (lp (+ i 1) (+ acc i))) (else (lp (+ i 1) (+ acc i))))))", p, n),
            "(lp 0 0)".to_string(),
        ),
        Shape::InWhen => (format!("(define (lp i acc) {} (if (= i {}) acc (when (>= i 0) (lp (+ i 1) (+ acc i)))))", p, n), "(lp 0 0)".to_string()),
        Shape::InAnd => (format!("(define (lp i acc) {} (if (= i {}) acc (and (>= i 0) (lp (+ i 1) (+ acc i)))))", p, n), "(lp 0 0)".to_string()),
        Shape::InOr => (format!("(define (lp i acc) {} (if (= i {}) acc (or (< i 0) (lp (+ i 1) (+ acc i)))))", p, n), "(lp 0 0)".to_string()),
        Shape::InBegin => (format!("(define (lp i acc) {} (if (= i {}) acc (begin (+ i 1) (lp (+ i 1) (+ acc i)))))", p, n), "(lp 0 0)".to_string()),
        Shape::OutOfNamedLet => (
            // every round runs an inner named let of 4 steps and leaves it by a tail call
            format!(
                "(define (lp i acc) {} (if (= i {}) acc (let inner ((j 0)) (if (= j 4) (lp (+ i 1) (+ acc i)) (inner (+ j 1))))))",
                p, n
            ),
            "(lp 0 0)".to_string(),
        ),
        Shape::FromHandler => (
            // the handler's body makes the tail call; the guarded body raises every time
            format!("(define (lp i acc) {} (if (= i {}) acc (with-handler (lambda (e) (lp (+ i 1) (+ acc i))) (car 5))))", p, n),
            "(lp 0 0)".to_string(),
        ),
        Shape::Shuffle { arity, lets, width, mutual } => {
            // (lp i a0 .. ak-1): next = (a1 .. ak-1 (modulo (+ a0 i) 1000003)); temporaries t_l_w = (+ a_x l) are
            // used as (- t l) so that every let level and slot takes part in the shuffle
            let k = *arity;
            let params: Vec<String> = (0..k).map(|j| format!("a{}", j)).collect();
            let mut args: Vec<String> = (1..k).map(|j| format!("a{}", j)).collect();
            args.push("(modulo (+ a0 i) 1000003)".to_string());
            let mut open = String::new();
            let mut close = String::new();
            for l in 0..*lets {
                let binds: Vec<String> = (0..*width).map(|w| format!("(t{}x{} (+ a{} {}))", l, w, (l + w) % k, l + 1)).collect();
                open.push_str(&format!("(let ({}) ", binds.join(" ")));
                close.push(')');
                // route arguments through the temporaries of this level
                for w in 0..*width {
                    let src = (l + w) % k;
                    if src >= 1 && args[src - 1] == format!("a{}", src) && (l + w) % 2 == 0 {
                        args[src - 1] = format!("(- t{}x{} {})", l, w, l + 1);
                    }
                }
            }
            let callee = if *mutual { "lq" } else { "lp" };
            let mut d = format!("(define (lp i {}) {} (if (= i {}) (list {}) {}({} (+ i 1) {}){}))", params.join(" "), p, n, params.join(" "), open, callee, args.join(" "), close);
            if *mutual {
                d.push_str(&format!("\n(define (lq i {}) (if (= i {}) (list {}) {}(lp (+ i 1) {}){}))", params.join(" "), n, params.join(" "), open, args.join(" "), close));
            }
            let init: Vec<String> = (0..k).map(|j| format!("{}", j + 1)).collect();
            (d, format!("(lp 0 {})", init.join(" ")))
        }
        Shape::ClosureValuedBranch(v) => match v % 6 {
            0 => (format!("(define (lp i acc) {} (if (= i {}) (lambda () acc) (lp (+ i 1) (+ acc i))))", p, n), "((lp 0 0))".to_string()),
            1 => (format!("(define (lp i acc) {} (cond ((= i {}) (lambda () acc)) ((< i 0) (lambda () -1)) (else (lp (+ i 1) (+ acc i)))))", p, n), "((lp 0 0))".to_string()),
            2 => (format!("(define (lp i acc) {} (if (= i {}) (let ((r acc)) (lambda () r)) (lp (+ i 1) (+ acc i))))", p, n), "((lp 0 0))".to_string()),
            3 => (format!("(define (lp i acc) {} (if (= i {}) (begin (+ i 1) (lambda () acc)) (lp (+ i 1) (+ acc i))))", p, n), "((lp 0 0))".to_string()),
            4 => (
                format!("(define (m0 i acc) {} (if (= i {}) (lambda () acc) (m1 (+ i 1) (+ acc i))))\n(define (m1 i acc) (if (= i {}) (lambda () acc) (m0 (+ i 1) (+ acc i))))", p, n, n),
                "((m0 0 0))".to_string(),
            ),
            _ => (format!("(define (lp i acc) {} (if (< i 0) (lambda (x) x) (if (= i {}) acc (lp (+ i 1) (+ acc i)))))", p, n), "(lp 0 0)".to_string()),
        },
        Shape::Deep => (format!("(define (deep k) (if (= k 0) 0 (+ 1 (deep (- k 1)))))"), format!("(deep {})", n)),
    };
    (format!("{}{}", head, defs), call)
}

fn case_for(c: &LoopCase) -> (Case, String) {
    let (defs, call) = render(c);
    let tail = "(list (unbox da) (unbox dm) (unbox db))";
    if c.module {
        let m = format!("(provide result depths)\n{}\n(define result {})\n(define depths {})\n", defs, call, tail);
        let main = "(require \"vmain\")\nresult\ndepths".to_string();
        let shown = format!(";; module vmain\n{};; main\n{}", m, main);
        let mut case = Case::new(vec![Step::Module { name: "vmain".into(), src: m }, Step::Eval { src: main }]);
        case.timeout_ms = 120_000;
        (case, shown)
    } else {
        let src = format!("{}\n{}\n{}", defs, call, tail);
        let mut case = Case::new(vec![Step::Eval { src: src.clone() }]);
        case.timeout_ms = 120_000;
        (case, src)
    }
}

pub fn check(ws: &mut Workers, c: &LoopCase, cfg: &Config) -> Result<bool, Failure> {
    let (case, shown) = case_for(c);
    let r = ws.run(cfg, &case);
    let ctxt = format!("config: {} shape: {:?} n: {} module: {}\nprogram:\n{}", cfg.label(), c.shape, c.n, c.module, shown);
    match r.end {
        End::Done => {}
        End::Watchdog | End::Oom => return Ok(false),
        End::Signal(s) => return Err(Failure::new("c09:signal", format!("{}\nengine process died with signal {}\nstderr: {}", ctxt, s, r.stderr_tail))),
        End::Exit(x) => return Err(Failure::new("c09:exit", format!("{}\nengine exited with {}", ctxt, x))),
    }
    let st = r.steps.last().unwrap();
    if st.outcome == Outcome::Panic {
        return Err(Failure::new("c09:panic", format!("{}\npanic: {}", ctxt, st.err_msg)));
    }
    if c.shape == Shape::Deep {
        // Ok(n) or an error value
        return match st.outcome {
            Outcome::Err => Ok(true),
            _ => {
                let vals: Vec<&String> = st.values.iter().filter(|v| *v != "#void").collect();
                if vals.first().map(|v| **v == format!("i:{}", c.n)).unwrap_or(false) {
                    Ok(true)
                } else {
                    Err(Failure::new("c09:deep-wrong-value", format!("{}\nvalues: {:?}", ctxt, st.values)))
                }
            }
        };
    }
    if st.outcome == Outcome::Err {
        return Err(Failure::new("c09:unexpected-error", format!("{}\nerror {}: {}", ctxt, st.err_kind, st.err_msg)));
    }
    let vals: Vec<&String> = st.values.iter().filter(|v| *v != "#void").collect();
    if vals.len() != 2 {
        return Err(Failure::new("c09:lost-result-void", format!("{}\nvalues: {:?}", ctxt, st.values)));
    }
    let expect = match &c.shape {
        Shape::Shuffle { arity, .. } => {
            let k = *arity;
            let mut a: Vec<u64> = (0..k as u64).map(|j| j + 1).collect();
            for i in 0..c.n {
                let first = (a[0] + i) % 1000003;
                a.rotate_left(1);
                a[k - 1] = first;
            }
            format!("({})", a.iter().map(|x| format!("i:{}", x)).collect::<Vec<_>>().join(" "))
        }
        _ => format!("i:{}", c.n as u128 * (c.n as u128 - 1) / 2),
    };
    if *vals[0] != expect {
        return Err(Failure::new("c09:wrong-result", format!("{}\nexpected {}\nactual {}", ctxt, expect, vals[0])));
    }
    // depths: ((fa . oa) (fm . om) (fb . ob)) at iterations 16, n/2 and n-16.  "Constant space" is read
    // as: no growth between the middle and the end beyond a small constant, and none beyond a
    // constant since the start (the JIT tier switches frame layout once, early in the loop).
    let nums: Vec<i64> = vals[1].split(|ch: char| !ch.is_ascii_digit()).filter(|t| !t.is_empty()).filter_map(|t| t.parse().ok()).collect();
    if nums.len() != 6 || vals[1].contains("#f") {
        return Err(Failure::new("c09:probe-not-reached-void", format!("{}\ndepth probes: {}", ctxt, vals[1])));
    }
    let (fa, oa, fm, om, fb, ob) = (nums[0], nums[1], nums[2], nums[3], nums[4], nums[5]);
    if fb > fm + 8 || ob > om + 8 || fb > fa + 64 || ob > oa + 64 {
        return Err(Failure::new(
            "c09:stack-growth",
            format!("{}\n(frames . operands) at iterations 24, {} and {}: {}", ctxt, mid(c.n), late(c.n), vals[1]),
        ));
    }
    Ok(true)
}

fn shapes() -> Vec<Shape> {
    vec![
        Shape::SelfLoop,
        Shape::Mutual(2),
        Shape::Mutual(3),
        Shape::Mutual(4),
        Shape::ThroughParam,
        Shape::ThroughApply,
        Shape::RestArgs(0),
        Shape::RestArgs(1),
        Shape::RestArgs(2),
        Shape::LetTemps(1),
        Shape::LetTemps(2),
        Shape::LetTemps(4),
        Shape::Captured,
        Shape::InCond,
        Shape::InCase,
        Shape::InWhen,
        Shape::InAnd,
        Shape::InOr,
        Shape::InBegin,
        Shape::OutOfNamedLet,
        Shape::FromHandler,
        Shape::ClosureValuedBranch(0),
        Shape::ClosureValuedBranch(1),
        Shape::ClosureValuedBranch(2),
        Shape::ClosureValuedBranch(3),
        Shape::ClosureValuedBranch(4),
        Shape::ClosureValuedBranch(5),
    ]
}

fn check_all(ctx: &Ctx, ws: &mut Workers, c: &LoopCase, counting: bool) -> PropResult {
    // JIT off first: a failure that only shows with the JIT on is classed `jitdiv`
    let mut off_ok = false;
    for cfg in [Config::jit_off(), Config::default_cfg()] {
        let jit_on = cfg.0.is_empty();
        match check(ws, c, &cfg) {
            Ok(conclusive) => {
                ctx.stats.engine_runs.fetch_add(1, std::sync::atomic::Ordering::Relaxed);
                if !conclusive && counting {
                    ctx.stats.inconclusive.fetch_add(1, std::sync::atomic::Ordering::Relaxed);
                }
                if conclusive && !jit_on {
                    off_ok = true;
                }
            }
            Err(f) => {
                if jit_on && off_ok {
                    let sub = f.sig.split_once(':').map(|x| x.1).unwrap_or(&f.sig).to_string();
                    return Err(Failure::new(format!("c09:jitdiv:{}", sub), format!("(the same loop passes under STEEL_JIT=false)\n{}", f.detail)));
                }
                return Err(f);
            }
        }
    }
    if counting {
        ctx.stats.eval();
        ctx.stats.class(&format!("{:?}", c.shape).split(|ch| ch == '(' || ch == ' ').next().unwrap().to_string());
        if let Shape::Shuffle { arity, lets, .. } = &c.shape {
            ctx.stats.class(&format!("shuffle-arity-{}-lets-{}", arity, lets));
        }
        if c.shape != Shape::SelfLoop && c.n >= 100_000 {
            ctx.stats.nontrivial(&format!("{:?}", c));
        }
        if ctx.stats.want_sample() {
            ctx.stats.sample(serde_json::json!({"shape": format!("{:?}", c.shape), "n": c.n, "module": c.module, "program": case_for(c).1}));
        }
    }
    Ok(())
}

pub fn run(ctx: &Ctx, replay: Option<&str>) -> i32 {
    ctx.set_rule(
        "loop shapes (self, mutual among 2-4, through a parameter, through apply, rest arguments with 0-2 surplus arguments, 1-4 \
         let temporaries, a closure created per iteration, tail position in cond/case/when/and/or/begin, tail call out of an inner \
         named let, tail call from a handler body) x iteration count x JIT on/off x entry (top-level text / module); plus non-tail \
         recursion of depth 10^4..2*10^7. The frame and operand stack depths at iterations 24, n/2 and n-16 must not grow (late <= middle + 8, late <= early + 64) and the \
         result must equal n(n-1)/2. Non-trivial = shape other than the plain self loop with n >= 10^5.",
    );
    ctx.assume("hook #%verif-depths reports the lengths of the frame stack and the operand stack");
    if let Some(path) = replay {
        let Some(rf) = load_replay::<LoopCase>(std::path::Path::new(path)) else {
            eprintln!("cannot read replay file {}", path);
            return 2;
        };
        let mut ws = Workers::new();
        return match check_all(ctx, &mut ws, &rf.case, false) {
            Ok(()) => {
                println!("replay {}: property holds", path);
                0
            }
            Err(f) => {
                println!("VIOLATION property={} replay={}", ctx.prop, path);
                println!("  sig: {}\n{}", f.sig, f.detail);
                1
            }
        };
    }
    {
        let mut ws = Workers::new();
        replay_tier::<LoopCase>(ctx, "loop", &mut |c| check_all(ctx, &mut ws, c, false));
    }
    let total = ctx.n(600, 6000);
    let big: u64 = if ctx.quick() { 1_000_000 } else { 10_000_000 };
    let fails = run_prop(
        ctx,
        "loop",
        || {
            let sh = shapes();
            prop_oneof![
                8 => (prop::sample::select(sh), prop::sample::select(vec![1_000u64, 100_000, 100_000, 250_003, big]), any::<bool>())
                    .prop_map(|(shape, n, module)| {
                        // KF-C09-handler-tail-grows: a loop through a handler's tail call grows by four frames
                        // per iteration and takes quadratic time; it is generated at a small count only
                        let n = if shape == Shape::FromHandler { 600 } else { n };
                        LoopCase { shape, n, module }
                    }),
                8 => (1usize..=6, 0usize..=3, 1usize..=3, any::<bool>(), prop::sample::select(vec![1_000u64, 100_000, 250_003, big / 4]), any::<bool>())
                    .prop_map(|(arity, lets, width, mutual, n, module)| LoopCase { shape: Shape::Shuffle { arity, lets, width, mutual }, n, module }),
                1 => (prop::sample::select(vec![10_000u64, 1_000_000, 20_000_000]), any::<bool>()).prop_map(|(n, module)| LoopCase { shape: Shape::Deep, n, module }),
            ]
        },
        total,
        |ws, c, counting| match check_all(ctx, ws, c, counting) {
            Err(f) => {
                if let Some(k) = ctx.match_known(&f) {
                    if counting {
                        ctx.note_known_hit(&k.id);
                        ctx.dump_known_case(k, "loop", c, &f);
                    }
                    Ok(())
                } else if ctx.survey(&f) {
                    Ok(())
                } else {
                    Err(f)
                }
            }
            ok => ok,
        },
    );
    report_failures(ctx, "loop", fails);
    ctx.finish()
}
