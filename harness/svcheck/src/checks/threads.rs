//! Shared driver for C15 (world-stopping operations) and C16 (progress and delivery with
//! threads): generated programs that spawn 1-8 native threads.  Every worker keeps a private
//! object graph alive, allocates garbage, sends ticks over a shared channel, waits for values from
//! the main thread over its own channel and reports the global it then reads; the main thread
//! defines and assigns globals between its sends, drains the shared channel and joins the workers
//! in a generated order.  Everything a run outputs is determined up to the interleaving of
//! messages of different senders, so the oracle checks per-sender sequences, join results, the
//! workers' graph checksums, the visibility of global assignments and the heap hooks.

use crate::runner::*;
use crate::worker::{Config, Workers};
use proptest::prelude::*;
use serde::{Deserialize, Serialize};
use svproto::*;

#[derive(Clone, Debug, Serialize, Deserialize)]
pub struct ThreadCase {
    pub workers: u64,
    pub iters: u64,
    pub tick: u64,
    /// number of (set! global i) + send i rounds made by the main thread
    pub feeds: u64,
    /// gc-stress period (0 = natural collections)
    pub period: u64,
    /// 0 forward, 1 reverse, 2 through map, 3 interleaved with draining
    pub join_order: u8,
    /// the main thread defines new globals between feeds
    pub defines: bool,
    /// what the workers allocate: 0 boxes+vectors, 1 closures, 2 hash maps, 3 strings, 4 closures over assigned variables
    pub garbage: u8,
    /// an extra thread that assigns a global `updater` times (a world-stopping request from a thread
    /// other than the main one); 0 = none
    #[serde(default)]
    pub updater: u64,
    /// short-lived threads spawned and joined one after the other by the main thread while the
    /// workers (and the updater) run
    #[serde(default)]
    pub churn: u64,
    /// the main thread requests a full collection right after the last message arrived, while the
    /// workers are exiting, and only then joins them
    #[serde(default)]
    pub collect_before_join: bool,
    /// delay points of the stop / resume / safepoint handshake that are active (bit set of the hook's
    /// `delay_point` ids 0-7), how often an active point fires (every n-th visit) and for how long (us)
    #[serde(default)]
    pub delay_mask: u64,
    #[serde(default)]
    pub delay_every: u64,
    #[serde(default)]
    pub delay_micros: u64,
    /// the workers' final messages and results carry boxes / vectors (values in flight in a channel and
    /// unjoined results are not roots on the unchanged tree: listed finding, excluded from the search)
    #[serde(default)]
    pub heap_msgs: bool,
    /// the main thread assigns / defines globals although an updater thread does so too (two threads
    /// requesting world stops at the same time)
    #[serde(default)]
    pub both_stop: bool,
    /// locks: every worker increments a shared box under a mutex at iterations = 2 (mod tick).
    /// 0 none, 1 lock-acquire! / lock-release! written out, 2 `lock!` of steel/sync (a thunk under the lock),
    /// 3 as 1 but with garbage allocated while the lock is held (a collection - a world stop - may then be
    /// requested by the holder while the other workers are blocked in lock-acquire!), 4 acquire / release
    /// through `apply`
    #[serde(default)]
    pub locks: u8,
    /// how a worker makes its blocking receive: 0 direct call, 1 `(car (map channel/recv (list in)))`,
    /// 2 `(apply channel/recv (list in))`, 3 inside a `foldl` callback, 4 `(transduce (list in) (mapping channel/recv) ..)`,
    /// 5 in tail position of a closure called from a small (natively compiled) helper
    #[serde(default)]
    pub hof_block: u8,
    /// the main thread sleeps this many ms before each feed round, so that its assignment of `g0` (a world stop)
    /// finds the workers already blocked in their receive - whichever way they make it
    #[serde(default)]
    pub feed_pause_ms: u64,
}

fn program(c: &ThreadCase) -> String {
    let k = c.workers.max(1);
    let tick = c.tick.max(2);
    // old cases (both_stop = false): with an updater thread nothing else stops the world - no heap garbage,
    // so no collection, and the main thread assigns nothing; new cases lift that
    let garbage = match if c.updater > 0 && !c.both_stop { 3 } else { c.garbage % 5 } {
        0 => "(vector i (box i))",
        1 => "((lambda (a) (lambda () (+ a i))) (box i))",
        2 => "(hash-insert (hash 'a (box i)) 'b (vector i))",
        // a closure over an assigned variable: the variable's cell is allocated by the NEWBOX instruction
        // (in natively compiled code by its own helper), not by the `box` primitive
        4 => "((mk-cell i))",
        _ => "(string-append (number->string i) \"x\")",
    };
    let mut s = String::new();
    // only one thread at a time may request world stops (concurrent requests from two threads deadlock on
    // the unchanged tree, a listed finding): with an updater thread the main thread assigns and defines nothing
    let main_stops = c.updater == 0 || c.both_stop;
    if c.delay_mask != 0 {
        s.push_str(&format!("(#%verif-delays {} {} {})\n", c.delay_mask, c.delay_every.max(1), c.delay_micros));
    }
    if c.locks % 5 == 2 {
        s.push_str("(require \"steel/sync\")\n");
    }
    s.push_str(if main_stops { "(define g0 0)\n" } else { "(define g0 1000000)\n" });
    s.push_str("(define shared (box 0))\n(define shared-lock (mutex))\n(define (call1 f x) (f x))\n(define (mk-cell i) (let ((n i)) (lambda () (set! n (+ n 1)) n)))\n");
    s.push_str("(define (mk-tree d seed) (if (= d 0) (box seed) (vector (mk-tree (- d 1) (+ seed 1)) (box seed) (list (mk-tree (- d 1) (* seed 2))))))\n");
    s.push_str("(define (checksum t) (cond ((int? t) t) ((mutable-vector? t) (apply + (map checksum (mutable-vector->list t)))) ((pair? t) (apply + (map checksum t))) ((null? t) 0) (else (checksum (unbox t)))))\n");
    s.push_str(&format!(
        "(define (worker id iters out in feeds)\n  (let loop ((i 0) (acc 0) (fed 0) (keep (mk-tree 3 id)))\n    (if (= i iters)\n        (begin (channel/send out (list 'done id acc @DONE@)) @RESULT@)\n        (begin\n          {}\n          @LOCK@\n          (when (= 0 (modulo i {})) (channel/send out (list 'tick id i)))\n          (if (and (= 1 (modulo i {})) (< fed feeds))\n              (let ((want @RECV@)) (channel/send out (list 'saw id want g0)) (loop (+ i 1) (+ acc (* i id)) (+ fed 1) keep))\n              (loop (+ i 1) (+ acc (* i id)) fed keep))))))\n",
        garbage, tick, tick
    ).replace("@LOCK@", &match c.locks % 5 {
        0 => String::new(),
        1 => format!("(when (= 2 (modulo i {})) (let ((guard (lock-acquire! shared-lock))) (set-box! shared (+ 1 (unbox shared))) (lock-release! guard)))", tick),
        2 => format!("(when (= 2 (modulo i {})) (lock! shared-lock (lambda () (set-box! shared (+ 1 (unbox shared))))))", tick),
        3 => format!("(when (= 2 (modulo i {})) (let ((guard (lock-acquire! shared-lock))) (let ((old (unbox shared)) (junk (list (vector i (box i)) (box i) (vector i i i)))) (set-box! shared (+ (length junk) -2 old))) (lock-release! guard)))", tick),
        _ => format!("(when (= 2 (modulo i {})) (let ((guard (apply lock-acquire! (list shared-lock)))) (set-box! shared (+ 1 (unbox shared))) (apply lock-release! (list guard))))", tick),
    })
     .replace("@RECV@", match c.hof_block % 6 {
        0 => "(channel/recv in)",
        1 => "(car (map channel/recv (list in)))",
        2 => "(apply channel/recv (list in))",
        3 => "(foldl (lambda (ch acc) (channel/recv ch)) 0 (list in))",
        4 => "(car (transduce (list in) (mapping channel/recv) (into-list)))",
        _ => "(call1 (lambda (ch) (channel/recv ch)) in)",
    })
     .replace("@DONE@", if c.heap_msgs { "(vector (box (checksum keep)))" } else { "(checksum keep)" })
     .replace("@RESULT@", if c.heap_msgs { "(list id (box acc))" } else { "(list id acc)" }));
    s.push_str("(define g1 0)\n(define (bump n) (if (= n 0) 'bump-done (begin (set! g1 (+ g1 1)) (bump (- n 1)))))\n");
    if c.updater > 0 {
        s.push_str(&format!("(define updater-thread (spawn-native-thread (lambda () (bump {}))))\n", c.updater));
    }
    s.push_str("(define out (channels/new))\n");
    s.push_str(&format!("(define ins (list {}))\n", (0..k).map(|_| "(channels/new)".to_string()).collect::<Vec<_>>().join(" ")));
    s.push_str(&format!(
        "(define threads (map (lambda (id c) (spawn-native-thread (lambda () (worker id {} (channels-sender out) (channels-receiver c) {})))) (list {}) ins))\n",
        c.iters,
        c.feeds,
        (1..=k).map(|i| i.to_string()).collect::<Vec<_>>().join(" ")
    ));
    // the main thread feeds in ascending order; between feeds it defines globals and allocates
    for f in 1..=c.feeds {
        if c.feed_pause_ms > 0 {
            s.push_str(&format!("(time/sleep-ms {})\n", c.feed_pause_ms));
        }
        if main_stops {
            s.push_str(&format!("(set! g0 {})\n", f));
        }
        s.push_str(&format!("(for-each (lambda (c) (channel/send (channels-sender c) {})) ins)\n", f));
        if c.defines && main_stops {
            s.push_str(&format!("(define extra{} (vector {} (box {})))\n", f, f, f));
        }
    }
    if c.churn > 0 {
        s.push_str(&format!(
            "(define churn-sum (let loop ((i 0) (acc 0)) (if (= i {}) acc (loop (+ i 1) (+ acc (thread-join! (spawn-native-thread (lambda () (* i 2)))))))))\n",
            c.churn
        ));
    } else {
        s.push_str("(define churn-sum 0)\n");
    }
    let ticks_per = (c.iters + tick - 1) / tick;
    // a worker answers a feed at iterations 1, tick+1, ...: at most ceil((iters-1)/tick) of them
    let saw_per = if c.iters >= 2 { ((c.iters - 2) / tick + 1).min(c.feeds) } else { 0 };
    let total_msgs = k * (ticks_per + saw_per + 1);
    s.push_str("(define (drain n acc) (if (= n 0) (reverse acc) (drain (- n 1) (cons (channel/recv (channels-receiver out)) acc))))\n");
    let collect = if c.collect_before_join && main_stops { "(#%gc-collect)\n" } else { "" };
    match c.join_order % 4 {
        0 => s.push_str(&format!("(define msgs (drain {} '()))\n{}(define results (map thread-join! threads))\n", total_msgs, collect)),
        1 => s.push_str(&format!("(define msgs (drain {} '()))\n(define results (reverse (map thread-join! (reverse threads))))\n", total_msgs)),
        2 => s.push_str(&format!("(define msgs (drain {} '()))\n(define results (let loop ((ts threads) (acc '())) (if (null? ts) (reverse acc) (loop (cdr ts) (cons (thread-join! (car ts)) acc)))))\n", total_msgs)),
        _ => {
            let half = total_msgs / 2;
            s.push_str(&format!("(define msgs-a (drain {} '()))\n(define extra-between (list (box 1) (vector 2)))\n(define msgs (append msgs-a (drain {} '())))\n(define results (map thread-join! threads))\n", half, total_msgs - half));
        }
    }
    if c.updater > 0 {
        s.push_str("(define updater-result (thread-join! updater-thread))\n");
    } else {
        s.push_str("(define updater-result 'none)\n");
    }
    if c.heap_msgs {
        // the values travelled as boxes / vectors: a collection and fresh allocations first, then they are opened
        s.push_str("(#%gc-collect)\n(define refill (let loop ((i 0) (acc '())) (if (= i 3000) acc (loop (+ i 1) (cons (box (- 0 i)) acc)))))\n");
        s.push_str("(define results (map (lambda (r) (list (car r) (unbox (cadr r)))) results))\n");
        s.push_str("(define msgs (map (lambda (m) (if (eq? (car m) 'done) (list 'done (cadr m) (caddr m) (unbox (vector-ref (cadddr m) 0))) m)) msgs))\n");
    }
    s.push_str("(list results msgs (list churn-sum updater-result g1 (unbox shared)))\n");
    s
}

fn tree_checksum(d: u64, seed: i64) -> i64 {
    if d == 0 {
        seed
    } else {
        tree_checksum(d - 1, seed + 1) + seed + tree_checksum(d - 1, seed * 2)
    }
}

/// parse the canonical result `((results...) (msgs...) flag)` into nested vectors of tokens
#[derive(Debug, Clone, PartialEq)]
enum T {
    A(String),
    L(Vec<T>),
}
fn parse(s: &str) -> Option<T> {
    let mut stack: Vec<Vec<T>> = vec![vec![]];
    let mut cur = String::new();
    let mut in_str = false;
    for ch in s.chars() {
        if in_str {
            cur.push(ch);
            if ch == '"' {
                in_str = false;
            }
            continue;
        }
        match ch {
            '"' => {
                in_str = true;
                cur.push(ch)
            }
            '(' => stack.push(vec![]),
            ')' => {
                if !cur.is_empty() {
                    stack.last_mut()?.push(T::A(std::mem::take(&mut cur)));
                }
                let l = stack.pop()?;
                stack.last_mut()?.push(T::L(l));
            }
            ' ' => {
                if !cur.is_empty() {
                    stack.last_mut()?.push(T::A(std::mem::take(&mut cur)));
                }
            }
            c => cur.push(c),
        }
    }
    stack.pop()?.into_iter().next()
}
fn int(t: &T) -> Option<i64> {
    match t {
        T::A(a) => a.strip_prefix("i:").and_then(|x| x.parse().ok()),
        _ => None,
    }
}

pub fn check(ctx: &Ctx, ws: &mut Workers, c: &ThreadCase, counting: bool, tag: &str) -> PropResult {
    let prog = program(c);
    let mut off_ok = false;
    let mut stops_seen = 0i64;
    // the case child runs on 4 cpus (other checks: 2), so that up to four threads really run at once
    for (jit_on, cfg) in [(false, Config::jit_off().with("SVWORKER_CPUS", "4")), (true, Config::default_cfg().with("SVWORKER_CPUS", "4"))] {
        let shown = format!("config: {}\n{:?}\n{}", cfg.label(), c, prog);
        let mut attempt = 0;
        let r = loop {
            attempt += 1;
            let mut steps = vec![];
            if c.period > 0 {
                steps.push(Step::GcStress { n: c.period });
            }
            steps.push(Step::Eval { src: prog.clone() });
            let mut case = Case::new(steps);
            case.timeout_ms = if c.period > 0 { 6_000 * attempt } else if c.updater > 0 { 10_000 * attempt } else { 30_000 * attempt };
            case.mem_mb = 6000;
            let r = ws.run(&cfg, &case);
            ctx.stats.engine_runs.fetch_add(1, std::sync::atomic::Ordering::Relaxed);
            if r.end == End::Watchdog && attempt < 2 {
                continue;
            }
            break r;
        };
        match r.end {
            End::Done => {}
            End::Watchdog => {
                // the program needs well under a second; 30 s and then 60 s without finishing is a lack of progress
                return Err(Failure::new(format!("{}:{}no-progress", tag, if jit_on && off_ok { "jitdiv:" } else { "" }), format!("{}\nthe program did not finish within the time limit (30 s, with forced collections 6 s) nor, on a second attempt, within twice that", shown)));
            }
            End::Oom => {
                if counting {
                    ctx.stats.inconclusive.fetch_add(1, std::sync::atomic::Ordering::Relaxed);
                }
                continue;
            }
            End::Signal(s) => return Err(Failure::new(format!("{}:signal", tag), format!("{}\nengine process died with signal {}\nstderr: {}", shown, s, r.stderr_tail))),
            End::Exit(x) => return Err(Failure::new(format!("{}:exit", tag), format!("{}\nexit {}", shown, x))),
        }
        let Some(st) = r.steps.last() else { continue };
        match st.outcome {
            Outcome::Panic => return Err(Failure::new(format!("{}:panic", tag), format!("{}\npanic: {}", shown, st.err_msg))),
            Outcome::Err => return Err(Failure::new(format!("{}:error", tag), format!("{}\nerror {}: {}", shown, st.err_kind, st.err_msg))),
            Outcome::Ok => {}
        }
        let got = st.values.iter().rev().find(|v| v.starts_with('(')).cloned().unwrap_or_default();
        let bad = |what: &str, msg: String| Err(Failure::new(format!("{}:{}", tag, what), format!("{}\n{}\nresult: {}", shown, msg, got.chars().take(1500).collect::<String>())));
        let Some(T::L(top)) = parse(&got) else { return bad("unreadable-result", String::new()) };
        if top.len() != 3 {
            return bad("unreadable-result", String::new());
        }
        let (T::L(results), T::L(msgs)) = (&top[0], &top[1]) else { return bad("unreadable-result", String::new()) };
        let k = c.workers.max(1) as i64;
        // join results: one per worker, in spawn order, each exactly once
        let expect_acc = |id: i64| -> i64 { (0..c.iters as i64).map(|i| i * id).sum() };
        if results.len() as i64 != k {
            return bad("join-results", format!("{} join results for {} workers", results.len(), k));
        }
        for (i, r) in results.iter().enumerate() {
            let T::L(pair) = r else { return bad("join-results", "malformed".into()) };
            let id = i as i64 + 1;
            if pair.len() != 2 || int(&pair[0]) != Some(id) || int(&pair[1]) != Some(expect_acc(id)) {
                return bad("join-results", format!("join result {} should be ({} {})", i, id, expect_acc(id)));
            }
        }
        // messages per sender
        let tick = c.tick.max(2) as i64;
        for id in 1..=k {
            let mine: Vec<&Vec<T>> = msgs.iter().filter_map(|m| if let T::L(v) = m { Some(v) } else { None }).filter(|v| v.len() >= 2 && int(&v[1]) == Some(id)).collect();
            let mut next_tick = 0i64;
            let mut next_feed = 1i64;
            let mut done = 0;
            for (pos, m) in mine.iter().enumerate() {
                let kind = match &m[0] {
                    T::A(a) => a.as_str(),
                    _ => "",
                };
                match kind {
                    "y:\"tick\"" => {
                        if int(&m[2]) != Some(next_tick) {
                            return bad("channel-order", format!("worker {}: tick {:?} arrived where tick {} was due", id, int(&m[2]), next_tick));
                        }
                        next_tick += tick;
                    }
                    "y:\"saw\"" => {
                        let want = int(&m[2]).unwrap_or(-1);
                        let seen = int(&m[3]).unwrap_or(-1);
                        if want != next_feed {
                            return bad("channel-order", format!("worker {} received {} from the main thread where {} was due", id, want, next_feed));
                        }
                        if seen < want {
                            return bad("stale-global", format!("worker {} read g0 = {} after receiving {}, which the main thread sent after (set! g0 {})", id, seen, want, want));
                        }
                        next_feed += 1;
                    }
                    "y:\"done\"" => {
                        done += 1;
                        if pos != mine.len() - 1 {
                            return bad("channel-order", format!("worker {}: messages after its done message", id));
                        }
                        if int(&m[2]) != Some(expect_acc(id)) || int(&m[3]) != Some(tree_checksum(3, id)) {
                            return bad("worker-state", format!("worker {} finished with accumulator {:?} and graph checksum {:?}, expected {} and {}", id, int(&m[2]), int(&m[3]), expect_acc(id), tree_checksum(3, id)));
                        }
                    }
                    _ => return bad("channel-content", format!("unexpected message {:?}", m)),
                }
            }
            let ticks_per = (c.iters as i64 + tick - 1) / tick;
            if done != 1 || next_tick != ticks_per * tick {
                return bad("channel-loss", format!("worker {}: {} done messages, ticks up to {} (expected {} ticks)", id, done, next_tick, ticks_per));
            }
        }
        // thread churn and the updater thread
        {
            // iterations i < iters with i = 2 (mod tick), per worker
            let locked_per = if c.locks % 5 == 0 || c.iters <= 2 || c.tick <= 2 { 0 } else { (c.iters - 3) / c.tick.max(2) + 1 };
            let want = format!(
                "(i:{} {} i:{} i:{})",
                if c.churn > 0 { c.churn * (c.churn - 1) } else { 0 },
                if c.updater > 0 { "y:\"bump-done\"" } else { "y:\"none\"" },
                c.updater,
                locked_per * c.workers.max(1)
            );
            let got3 = match &top[2] {
                T::L(v) => format!("({})", v.iter().map(|t| if let T::A(a) = t { a.clone() } else { "?".into() }).collect::<Vec<_>>().join(" ")),
                T::A(a) => a.clone(),
            };
            if got3 != want {
                return bad("updater-churn-or-lock", format!("(sum of the short-lived threads' results, updater result, final g1, shared counter incremented under the mutex) = {}, expected {}", got3, want));
            }
        }
        let overlaps = st.hooks.get("scan_overlaps").copied().unwrap_or(0);
        if overlaps != 0 {
            return bad("scan-overlap", format!("{} instructions were dispatched by a thread while another thread was reading its stack or replacing its global table (hook: flag set at the stopper's first use of the thread's published pointer, cleared before it resumes the threads)", overlaps));
        }
        let stale = st.hooks.get("stale_accesses").copied().unwrap_or(0);
        // (the free-list accounting hook compares a recount with a cached count that other threads
        // update while they allocate: it is only meaningful in single-threaded runs and not used here)
        if stale != 0 {
            return bad("heap-hooks", format!("stale heap handle accesses: {}", stale));
        }
        if !jit_on {
            off_ok = true;
        }
        stops_seen = stops_seen.max(st.hooks.get("world_stops").copied().unwrap_or(0));
        if counting && jit_on {
            ctx.stats.class(&format!("workers:{}", c.workers));
            ctx.stats.class(&format!("join-order:{}", c.join_order % 4));
            ctx.stats.class(if c.period > 0 { "collections:forced" } else { "collections:natural" });
            ctx.stats.class_n("full-collections", st.hooks.get("full_collections").copied().unwrap_or(0) as u64);
            ctx.stats.class_n("world-stops", st.hooks.get("world_stops").copied().unwrap_or(0) as u64);
            ctx.stats.class_n("foreign-accesses-to-a-stopped-thread", st.hooks.get("foreign_accesses").copied().unwrap_or(0) as u64);
            if c.delay_mask != 0 {
                ctx.stats.class("delay-schedule");
            }
            if c.both_stop && c.updater > 0 {
                ctx.stats.class("two-threads-stop-the-world");
            }
            ctx.stats.class_n("messages-checked", msgs.len() as u64);
            if c.defines {
                ctx.stats.class("main-defines-globals-while-workers-run");
            }
            if c.locks % 5 != 0 {
                ctx.stats.class(&format!("mutex-protected-counter:{}", ["", "acquire-release", "lock!-thunk", "allocating-under-the-lock", "acquire-through-apply"][(c.locks % 5) as usize]));
            }
            if c.feed_pause_ms > 0 && c.feeds > 0 {
                ctx.stats.class("world-stop-while-workers-are-blocked-in-a-receive");
            }
            if c.hof_block % 6 != 0 {
                ctx.stats.class(&format!("blocking-receive-through:{}", ["", "map", "apply", "foldl-callback", "transducer", "closure-tail-call-from-a-compiled-helper"][(c.hof_block % 6) as usize]));
            }
        }
    }
    if counting {
        ctx.stats.eval();
        if c.workers >= 2 && c.iters >= 100 && stops_seen >= 1 {
            ctx.stats.nontrivial(&format!("{:?}", c));
        }
        if ctx.stats.want_sample() {
            ctx.stats.sample(serde_json::to_value(c).unwrap());
        }
    }
    Ok(())
}

fn periods(stress_only: bool) -> Vec<u64> {
    // development aid: VERIF_PERIOD pins the gc-stress period
    if let Some(p) = std::env::var("VERIF_PERIOD").ok().and_then(|v| v.parse::<u64>().ok()) {
        return vec![p];
    }
    if stress_only {
        vec![40u64, 200, 1000]
    } else {
        vec![0u64]
    }
}

pub fn case(stress_only: bool) -> impl Strategy<Value = ThreadCase> {
    let base = (1u64..=8, prop::sample::select(vec![50u64, 200, 600, 2000]), prop::sample::select(vec![7u64, 50, 120]), 0u64..6, prop::sample::select(periods(stress_only)), 0u8..4, any::<bool>(), 0u8..5, prop::sample::select(vec![0u64, 0, 0, 0, 50, 300]), prop::sample::select(vec![0u64, 0, 10, 40]), any::<bool>());
    // delay schedule: none in a third of the cases; otherwise a subset of the 8 delay points, firing at every
    // 1st / 3rd / 17th / 101st visit for 0 (yield) / 20 / 200 us
    let delays = (prop::sample::select(vec![0u64, 1, 1]), 1u64..256, prop::sample::select(vec![1u64, 3, 17, 101]), prop::sample::select(vec![0u64, 20, 200]), any::<bool>(), prop::sample::select(vec![0u8, 0, 1, 2, 3, 3, 4]), 0u8..6, prop::sample::select(vec![0u64, 0, 0, 25]));
    (base, delays).prop_map(|((workers, iters, tick, feeds, period, join_order, defines, garbage, updater, churn, collect_before_join), (with_delays, mask, every, micros, both_stop, locks, hof_block, feed_pause_ms))| {
        // a delay at a point that is visited at every primitive call must be rare or short, or the program takes minutes
        let frequent = mask & 0b0010_0011 != 0; // points 0, 1, 5: every safepoint
        let every = if frequent && micros > 0 { every.max(17) } else { every };
        let slow = with_delays == 1 && micros >= 200 && frequent;
        ThreadCase {
            workers,
            iters: if updater > 0 || slow { iters.min(600) } else { iters },
            tick,
            feeds,
            period: if updater > 0 && !both_stop { 0 } else { period },
            join_order,
            defines,
            garbage,
            updater,
            churn,
            collect_before_join,
            delay_mask: if with_delays == 1 { mask } else { 0 },
            delay_every: every,
            delay_micros: micros,
            heap_msgs: false,
            both_stop,
            locks,
            hof_block,
            feed_pause_ms,
        }
    })
}

pub fn run(ctx: &Ctx, replay: Option<&str>, tag: &'static str, stress_only: bool, quick: u64, thorough: u64) -> i32 {
    if let Some(path) = replay {
        let Some(rf) = load_replay::<ThreadCase>(std::path::Path::new(path)) else {
            eprintln!("cannot read replay file {}", path);
            return 2;
        };
        let mut ws = Workers::new();
        return match check(ctx, &mut ws, &rf.case, false, tag) {
            Ok(()) => {
                println!("replay {}: property holds", path);
                0
            }
            Err(f) => {
                println!("VIOLATION property={} replay={}", ctx.prop, path);
                println!("  sig: {}\n{}", f.sig, f.detail);
                1
            }
        };
    }
    {
        let mut ws = Workers::new();
        // the listed findings depend on the OS schedule: a replay is tried 3 times
        replay_tier::<ThreadCase>(ctx, "threads", &mut |c| {
            for _ in 0..3 {
                check(ctx, &mut ws, c, false, tag)?;
            }
            Ok(())
        });
    }
    let fails = run_prop(
        ctx,
        "threads",
        || case(stress_only),
        ctx.n(quick, thorough),
        |ws, c, counting| match check(ctx, ws, c, counting, tag) {
            Err(f) => {
                if let Some(k) = ctx.match_known(&f) {
                    if counting {
                        ctx.note_known_hit(&k.id);
                        ctx.dump_known_case(k, "threads", c, &f);
                    }
                    Ok(())
                } else if ctx.survey_case("threads", c, &f) {
                    Ok(())
                } else {
                    Err(f)
                }
            }
            ok => ok,
        },
    );
    report_failures(ctx, "threads", fails);
    ctx.finish()
}
