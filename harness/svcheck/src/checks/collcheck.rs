//! Shared driver for the collection scripts of svmodel::coll (C03 and C11).

use crate::runner::*;
use crate::worker::{Config, Workers};
use proptest::prelude::*;
use serde::{Deserialize, Serialize};
use svmodel::coll::{Expect, Opts, Script};
use svproto::*;

#[derive(Clone, Debug, Serialize, Deserialize)]
pub struct CollCase {
    pub script: Script,
}

#[derive(Clone, Copy, PartialEq)]
pub enum Mode {
    /// C03: only failures that depend on sharing (an old value changed, or the operation gives the
    /// model's answer on a fresh copy but not here)
    Persistence,
    /// C11: every disagreement with the model
    Model,
}

fn text(c: &CollCase, upto: usize) -> String {
    let mut s = String::new();
    for (i, p) in c.script.pieces.iter().enumerate() {
        if i > upto {
            break;
        }
        s.push_str(&format!(";; piece {} [{}]\n{}\n", i, p.what, p.src));
    }
    s
}

/// top-level elements of a canonical list "(a b (c d) s:\"x y\")"
fn split_list(s: &str) -> Vec<String> {
    let inner = match s.strip_prefix('(').and_then(|x| x.strip_suffix(')')) {
        Some(x) => x,
        None => return vec![],
    };
    let mut out = vec![];
    let mut cur = String::new();
    let mut depth = 0i32;
    let mut in_str = false;
    let mut esc = false;
    for ch in inner.chars() {
        if in_str {
            cur.push(ch);
            if esc {
                esc = false;
            } else if ch == '\\' {
                esc = true;
            } else if ch == '"' {
                in_str = false;
            }
            continue;
        }
        match ch {
            '"' => {
                in_str = true;
                cur.push(ch)
            }
            '(' | '{' => {
                depth += 1;
                cur.push(ch)
            }
            ')' | '}' => {
                depth -= 1;
                cur.push(ch)
            }
            ' ' if depth == 0 => {
                if !cur.is_empty() {
                    out.push(std::mem::take(&mut cur));
                }
            }
            _ => cur.push(ch),
        }
    }
    if !cur.is_empty() {
        out.push(cur);
    }
    out
}

fn last_value(st: &StepResult) -> String {
    st.values.iter().rev().find(|v| *v != "#void").cloned().unwrap_or_default()
}

/// the piece evaluated in a fresh engine whose variables are rebuilt from literals
fn fresh_copy_agrees(ws: &mut Workers, cfg: &Config, p: &svmodel::coll::Piece) -> Option<bool> {
    if p.fresh_env.is_empty() {
        return None;
    }
    let mut case = Case::new(vec![Step::Eval { src: p.fresh_env.clone() }, Step::Eval { src: p.src.clone() }]);
    case.timeout_ms = 10_000;
    let r = ws.run(cfg, &case);
    if r.end != End::Done || r.steps.len() != 2 || r.steps[0].outcome != Outcome::Ok {
        return None;
    }
    let st = &r.steps[1];
    Some(match &p.expect {
        Expect::Value(v) => st.outcome == Outcome::Ok && last_value(st) == *v,
        Expect::Error => st.outcome == Outcome::Err,
        Expect::Any => st.outcome != Outcome::Panic,
    })
}

pub fn check(ctx: &Ctx, ws: &mut Workers, c: &CollCase, counting: bool, tag: &str, mode: Mode) -> PropResult {
    let mut off_ok = false;
    for cfg in [Config::jit_off(), Config::default_cfg()] {
        let jit_on = cfg.0.is_empty();
        let steps: Vec<Step> = c.script.pieces.iter().map(|p| Step::Eval { src: p.src.clone() }).collect();
        let mut case = Case::new(steps);
        case.timeout_ms = 20_000;
        case.continue_after_panic = false;
        let r = ws.run(&cfg, &case);
        ctx.stats.engine_runs.fetch_add(1, std::sync::atomic::Ordering::Relaxed);
        let mk = |kind: &str, what: &str, upto: usize, msg: String| -> Failure {
            let opname = what.split(':').next().unwrap_or(what);
            let kind = if jit_on && off_ok { format!("jitdiv:{}", kind) } else { kind.to_string() };
            Failure::new(format!("{}:{}:{}", tag, kind, opname), format!("config: {}\n{}\n{}", cfg.label(), msg, text(c, upto)))
        };
        match r.end {
            End::Done => {}
            End::Watchdog | End::Oom => {
                if counting {
                    ctx.stats.inconclusive.fetch_add(1, std::sync::atomic::Ordering::Relaxed);
                }
                return Ok(());
            }
            End::Signal(s) => {
                let i = r.steps.len();
                let what = c.script.pieces.get(i).map(|p| p.what.clone()).unwrap_or_default();
                return Err(mk("signal", &what, i, format!("engine process died with signal {} in piece {}\nstderr: {}", s, i, r.stderr_tail)));
            }
            End::Exit(x) => return Err(mk("exit", "", usize::MAX, format!("engine process exited with status {}", x))),
        }
        for (i, p) in c.script.pieces.iter().enumerate() {
            let Some(st) = r.steps.get(i) else {
                return Err(mk("missing-step", &p.what, i, format!("piece {} was not executed", i)));
            };
            if st.outcome == Outcome::Panic {
                return Err(mk("panic", &p.what, i, format!("piece {} panicked: {}", i, st.err_msg)));
            }
            let got = last_value(st);
            let (ok, msg) = match &p.expect {
                Expect::Value(v) => (
                    st.outcome == Outcome::Ok && got == *v,
                    format!(
                        "piece {} [{}]\nexpected: {}\nactual:   {}",
                        i,
                        p.what,
                        v,
                        if st.outcome == Outcome::Ok { got.clone() } else { format!("error {}: {}", st.err_kind, st.err_msg) }
                    ),
                ),
                Expect::Error => (st.outcome == Outcome::Err, format!("piece {} [{}]\nexpected: an error\nactual:   {}", i, p.what, got)),
                Expect::Any => (true, String::new()),
            };
            if ok {
                continue;
            }
            let observe = p.what == "observe-all";
            match mode {
                Mode::Model => {
                    let kind = if observe { "old-value-changed" } else if p.expect == Expect::Error { "missing-error" } else { "wrong-result" };
                    return Err(mk(kind, &p.what, i, msg));
                }
                Mode::Persistence => {
                    if observe {
                        return Err(mk("old-value-changed", &p.what, i, msg));
                    }
                    // components of the result that are earlier values
                    if st.outcome == Outcome::Ok && !p.unchanged.is_empty() {
                        let parts = split_list(&got);
                        for (idx, want) in &p.unchanged {
                            if parts.get(*idx).map(|x| x != want).unwrap_or(true) {
                                return Err(mk(
                                    "old-value-changed",
                                    &p.what,
                                    i,
                                    format!("{}\ncomponent {} of the result is an earlier value, expected unchanged: {}\nobserved: {}", msg, idx, want, parts.get(*idx).cloned().unwrap_or_default()),
                                ));
                            }
                        }
                    }
                    match fresh_copy_agrees(ws, &cfg, p) {
                        // the operation is right on a fresh copy and wrong on the shared value
                        Some(true) => return Err(mk("differs-from-fresh-copy", &p.what, i, format!("{}\n(the same piece gives the expected result in a fresh engine whose variables are rebuilt from literals)", msg))),
                        // a disagreement with the model that does not depend on sharing: C11's matter
                        _ => {
                            if counting {
                                ctx.stats.class("model-disagreement-independent-of-sharing-(C11)");
                            }
                            // later pieces depend on this value: stop judging this script
                            return Ok(());
                        }
                    }
                }
            }
        }
        if !jit_on {
            off_ok = true;
        }
    }
    if counting {
        let s = &c.script.stats;
        ctx.stats.eval();
        for (k, n) in &s.ops {
            ctx.stats.class_n(&format!("op:{}", k), *n as u64);
        }
        for (k, n) in &s.patterns {
            ctx.stats.class_n(&format!("pattern:{}", k), *n as u64);
        }
        ctx.stats.class_n("pieces-expecting-an-error", s.error_expected as u64);
        ctx.stats.class_n("equal?/hash-agreement-checks", s.equal_checks as u64);
        ctx.stats.class_n("hash-keys-that-are-collections", s.keys_that_are_collections as u64);
        ctx.stats.class_n("observations-of-all-live-values", s.observes as u64);
        ctx.stats.class_n("boundary-indices", s.boundary_index as u64);
        let shared_patterns: usize = s.patterns.iter().filter(|(k, _)| k.as_str() != "direct").map(|(_, n)| *n).sum();
        let nontrivial = match mode {
            Mode::Persistence => shared_patterns >= 2 && s.observes >= 1,
            Mode::Model => s.ops.len() >= 3 && (s.equal_checks >= 1 || s.error_expected >= 1),
        };
        if nontrivial {
            ctx.stats.nontrivial(&text(c, usize::MAX));
        }
        if ctx.stats.want_sample() && c.script.pieces.len() > 6 {
            ctx.stats.sample(serde_json::json!({"script": text(c, usize::MAX)}));
        }
    }
    Ok(())
}

pub fn run(ctx: &Ctx, replay: Option<&str>, tag: &'static str, mode: Mode, quick: u64, thorough: u64, threads: bool) -> i32 {
    if let Some(path) = replay {
        let Some(rf) = load_replay::<CollCase>(std::path::Path::new(path)) else {
            eprintln!("cannot read replay file {}", path);
            return 2;
        };
        let mut ws = Workers::new();
        return match check(ctx, &mut ws, &rf.case, false, tag, mode) {
            Ok(()) => {
                println!("replay {}: property holds", path);
                0
            }
            Err(f) => {
                println!("VIOLATION property={} replay={}", ctx.prop, path);
                println!("  sig: {}\n{}", f.sig, f.detail);
                1
            }
        };
    }
    {
        let mut ws = Workers::new();
        replay_tier::<CollCase>(ctx, "coll", &mut |c| check(ctx, &mut ws, c, false, tag, mode));
    }
    let max_ops = if ctx.quick() { 24 } else { 60 };
    let fails = run_prop(
        ctx,
        "coll",
        || prop::collection::vec(any::<u16>(), 0..800).prop_map(move |d| CollCase { script: svmodel::coll::generate(&d, &Opts { max_ops, threads }) }),
        ctx.n(quick, thorough),
        |ws, c, counting| match check(ctx, ws, c, counting, tag, mode) {
            Err(f) => {
                if let Some(k) = ctx.match_known(&f) {
                    if counting {
                        ctx.note_known_hit(&k.id);
                        ctx.dump_known_case(k, "coll", c, &f);
                    }
                    Ok(())
                } else if ctx.survey_case("coll", c, &f) {
                    Ok(())
                } else {
                    Err(f)
                }
            }
            ok => ok,
        },
    );
    report_failures(ctx, "coll", fails);
    ctx.finish()
}
