//! C06 — earlier definitions keep their meaning across any evaluation history.
//! Stateful generation: a history is a sequence of top-level pieces evaluated on ONE engine
//! (one forked child); after the interesting steps a probe piece calls every live function.
//! Oracle: the reference interpreter's binding model (one Interp for the whole history).

use crate::progcheck::*;
use crate::runner::*;
use crate::worker::{Config, Workers};
use proptest::prelude::*;
use serde::{Deserialize, Serialize};
use svmodel::ast::*;
use svmodel::hist::{self, HStep, HistOpts, History};
use svmodel::interp::{Interp, PieceOutcome, PieceResult};
use svproto::*;

#[derive(Clone, Debug, Serialize, Deserialize)]
pub struct HistCase {
    pub history: History,
    #[serde(default)]
    pub redefinitions: usize,
    #[serde(default)]
    pub bulk_shadowed: usize,
    #[serde(default)]
    pub fresh_defined: usize,
    #[serde(default)]
    pub failing_steps: usize,
    #[serde(default)]
    pub set_global: usize,
}

pub fn case_from_choices(data: &[u16], o: &HistOpts) -> HistCase {
    let (history, st) = hist::generate(data, o);
    HistCase {
        history,
        redefinitions: st.redefinitions,
        bulk_shadowed: st.bulk_shadowed,
        fresh_defined: st.fresh_defined,
        failing_steps: st.failing_steps,
        set_global: st.set_global,
    }
}

pub fn step_text(s: &HStep) -> String {
    match s {
        HStep::Piece(p) => render_program(p),
        HStep::Rejected(t) => t.clone(),
    }
}

/// expected results of every step (None = the history left the modelled domain)
pub fn model_history(h: &History) -> Option<Vec<PieceResult>> {
    let mut it = Interp::new();
    it.fuel = 30_000_000;
    let mut out = vec![];
    for s in &h.steps {
        match s {
            HStep::Piece(p) => {
                let r = it.run_piece(p);
                if r.outcome == PieceOutcome::OutOfFuel || r.unmodelled_print {
                    return None;
                }
                out.push(r);
            }
            HStep::Rejected(_) => out.push(PieceResult {
                outcome: PieceOutcome::Err("Rejected".into()),
                values: vec![],
                stdout: String::new(),
                steps: 0,
                unmodelled_print: false,
            }),
        }
    }
    Some(out)
}

fn summarize(h: &History, upto: usize) -> String {
    // the last few steps verbatim, the earlier ones elided when they are bulk
    let mut lines = vec![];
    let start = upto.saturating_sub(14);
    if start > 0 {
        lines.push(format!(";; ... {} earlier steps (see replay file) ...", start));
    }
    for i in start..=upto.min(h.steps.len() - 1) {
        let t = step_text(&h.steps[i]);
        let t = if t.len() > 300 { format!("{} ...[{} chars]", &t[..300], t.len()) } else { t };
        lines.push(format!(";; step {}\n{}", i, t));
    }
    lines.join("\n")
}

pub fn check_history(tag: &str, ws: &mut Workers, cfg: &Config, h: &History, model: &[PieceResult]) -> RunVerdict {
    let steps: Vec<Step> = h.steps.iter().map(|s| Step::Eval { src: step_text(s) }).collect();
    let mut case = Case::new(steps);
    case.timeout_ms = 60_000;
    case.continue_after_panic = false;
    let r = ws.run(cfg, &case);
    match r.end {
        End::Done => {}
        End::Watchdog | End::Oom => return RunVerdict::Inconclusive,
        End::Signal(s) => {
            return RunVerdict::Done(Err(Failure::new(
                format!("{}:signal", tag),
                format!("config: {}\nengine process died with signal {} at step {}\n{}\nstderr: {}", cfg.label(), s, r.steps.len(), summarize(h, r.steps.len()), r.stderr_tail),
            )))
        }
        End::Exit(c) => {
            return RunVerdict::Done(Err(Failure::new(format!("{}:exit", tag), format!("config: {}\nengine exited with {} at step {}", cfg.label(), c, r.steps.len()))))
        }
    }
    for (i, st) in r.steps.iter().enumerate() {
        let ctxt = format!("config: {}\nhistory of {} steps, mismatch at step {}:\n{}", cfg.label(), h.steps.len(), i, summarize(h, i));
        if let Err(f) = compare_piece(tag, &model[i], st, &ctxt) {
            return RunVerdict::Done(Err(f));
        }
        let stale = st.hooks.get("stale_accesses").copied().unwrap_or(0);
        if stale != 0 {
            return RunVerdict::Done(Err(Failure::new(format!("{}:stale-handle", tag), format!("{}\nstale heap handle accesses: {}", ctxt, stale))));
        }
    }
    if r.steps.len() != h.steps.len() {
        return RunVerdict::Done(Err(Failure::new(format!("{}:truncated", tag), format!("config: {}\nonly {} of {} steps ran", cfg.label(), r.steps.len(), h.steps.len()))));
    }
    RunVerdict::Done(Ok(()))
}

pub fn check_case(ctx: &Ctx, ws: &mut Workers, c: &HistCase, counting: bool, cfgs: &[Config], tag: &str) -> PropResult {
    let Some(model) = model_history(&c.history) else {
        if counting {
            ctx.stats.class("outside-model-domain");
        }
        return Ok(());
    };
    for cfg in cfgs {
        match check_history(tag, ws, cfg, &c.history, &model) {
            RunVerdict::Inconclusive => {
                if counting {
                    ctx.stats.inconclusive.fetch_add(1, std::sync::atomic::Ordering::Relaxed);
                }
            }
            RunVerdict::Done(r) => r?,
        }
        ctx.stats.engine_runs.fetch_add(1, std::sync::atomic::Ordering::Relaxed);
    }
    if counting {
        ctx.stats.eval();
        ctx.stats.class_n("steps", c.history.steps.len() as u64);
        if c.bulk_shadowed >= 100 {
            ctx.stats.class("history-with-recycling-threshold-crossed");
        }
        if c.fresh_defined > 0 {
            ctx.stats.class("history-with-free-list-exhaustion");
        }
        if c.failing_steps > 0 {
            ctx.stats.class("history-with-failing-steps");
        }
        if c.set_global > 0 {
            ctx.stats.class("history-with-global-set!");
        }
        let nontrivial = (c.bulk_shadowed >= 100 && c.redefinitions >= 1) || (c.failing_steps >= 1 && c.history.steps.len() >= 6);
        if nontrivial {
            ctx.stats.nontrivial(&format!("{:?}", c.history));
        }
        if ctx.stats.want_sample() && c.history.steps.len() < 40 && c.redefinitions > 0 {
            let texts: Vec<String> = c.history.steps.iter().map(step_text).collect();
            ctx.stats.sample(serde_json::json!({"history": texts}));
        }
    }
    Ok(())
}

/// Reduce a failing history: drop steps (keeping the static domain of every remaining piece
/// is the generator's job, so a candidate is accepted only if the model still runs it without
/// a free identifier appearing where the original had none).
fn reduce(ctx: &Ctx, ws: &mut Workers, c: &HistCase, f: &Failure, cfgs: &[Config], tag: &str) -> (HistCase, Failure) {
    let mut cur = c.clone();
    let mut last = f.clone();
    let mut budget = 160usize;
    // reduce in the configuration that failed only
    let failing: Vec<Config> = cfgs.iter().filter(|c| f.detail.contains(&format!("config: {}\n", c.label()))).cloned().collect();
    let cfgs: &[Config] = if failing.is_empty() { cfgs } else { &failing[..1] };
    let mut chunk = (cur.history.steps.len() / 2).max(1);
    while chunk >= 1 && budget > 0 {
        let mut i = 0;
        let mut progressed = false;
        while i < cur.history.steps.len() && budget > 0 {
            let mut cand = cur.clone();
            let end = (i + chunk).min(cand.history.steps.len());
            cand.history.steps.drain(i..end);
            if cand.history.steps.is_empty() {
                i += chunk;
                continue;
            }
            // candidate must stay inside the domain: no step may now fail on a free identifier
            let ok_domain = model_history(&cand.history)
                .map(|m| !m.iter().any(|r| matches!(&r.outcome, PieceOutcome::Err(k) if k == "FreeIdentifier")))
                .unwrap_or(false);
            if ok_domain {
                budget -= 1;
                match check_case(ctx, ws, &cand, false, cfgs, tag) {
                    Err(g) if g.sig == f.sig => {
                        cur = cand;
                        last = g;
                        progressed = true;
                        continue;
                    }
                    _ => {}
                }
            }
            i += chunk;
        }
        if !progressed || chunk == 1 {
            if chunk == 1 {
                break;
            }
            chunk /= 2;
        }
    }
    (cur, last)
}

/// exclusion list for the expression generator (set from the known findings at start-up)
pub static AVOID_GLOBAL: std::sync::Mutex<Vec<String>> = std::sync::Mutex::new(Vec::new());

pub fn avoid() -> Vec<String> {
    AVOID_GLOBAL.lock().unwrap().clone()
}

pub fn set_avoid(ctx: &Ctx) {
    *AVOID_GLOBAL.lock().unwrap() = crate::checks::c01::avoid_list(ctx);
}

pub fn opts(ctx: &Ctx) -> HistOpts {
    HistOpts { avoid: avoid(), max_ops: if ctx.quick() { 40 } else { 120 }, fail_weight: 3, bulk: true }
}

pub fn run(ctx: &Ctx, replay: Option<&str>) -> i32 {
    ctx.set_rule(
        "stateful generation: a history is 3-40 (thorough 120) operations on one engine — define/redefine functions whose bodies \
         refer to other globals through calls, tail calls, first-instruction calls, reads and set!; define/redefine/set! variables; \
         counter closures; failing steps (syntax error, free identifier, run time error after a completed definition); bulk \
         shadowing of 40-205 bindings (crossing the slot recycling thresholds) and 50-420 fresh definitions (which reuse every \
         recycled slot); probe pieces call every live function. Every step's values/output/outcome is compared with the reference \
         binding model. Non-trivial = distinct history with >=100 bulk-shadowed bindings and a redefinition, or a failing step \
         among >=6 steps.",
    );
    ctx.assume("the reference interpreter's binding model (DESIGN.md C06): definitions create locations, compiled code keeps the locations it resolved");
    set_avoid(ctx);
    let cfgs = vec![Config::default_cfg(), Config::jit_off()];
    let tag = "c06";
    if let Some(path) = replay {
        let Some(rf) = load_replay::<HistCase>(std::path::Path::new(path)) else {
            eprintln!("cannot read replay file {}", path);
            return 2;
        };
        let mut ws = Workers::new();
        return match check_case(ctx, &mut ws, &rf.case, false, &cfgs, tag) {
            Ok(()) => {
                println!("replay {}: property holds", path);
                0
            }
            Err(f) => {
                println!("VIOLATION property={} replay={}", ctx.prop, path);
                println!("  sig: {}\n{}", f.sig, f.detail);
                1
            }
        };
    }
    {
        let mut ws = Workers::new();
        replay_tier::<HistCase>(ctx, "hist", &mut |c| check_case(ctx, &mut ws, c, false, &cfgs, tag));
    }
    let total = ctx.n(3000, 60_000);
    let o_max = opts(ctx).max_ops;
    let fails = run_prop(
        ctx,
        "hist",
        || {
            prop::collection::vec(any::<u16>(), 0..1500).prop_map(move |d| case_from_choices(&d, &HistOpts { avoid: avoid(), max_ops: o_max, fail_weight: 3, bulk: true }))
        },
        total,
        |ws, c, counting| match check_case(ctx, ws, c, counting, &cfgs, tag) {
            Err(f) => {
                if let Some(k) = ctx.match_known(&f) {
                    if counting {
                        ctx.note_known_hit(&k.id);
                        ctx.dump_known_case(k, "hist", c, &f);
                    }
                    Ok(())
                } else if ctx.survey(&f) {
                    Ok(())
                } else {
                    Err(f)
                }
            }
            ok => ok,
        },
    );
    let mut ws = Workers::new();
    let fails: Vec<(HistCase, Failure)> = fails.into_iter().map(|(c, f)| reduce(ctx, &mut ws, &c, &f, &cfgs, tag)).collect();
    report_failures(ctx, "hist", fails);
    ctx.finish()
}
