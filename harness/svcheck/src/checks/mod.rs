use crate::runner::Ctx;

pub mod c01;
pub mod c02;
pub mod c03;
pub mod c04;
pub mod c05;
pub mod c06;
pub mod c07;
pub mod c08;
pub mod c09;
pub mod c10;
pub mod c11;
pub mod c12;
pub mod c13;
pub mod c14;
pub mod c15;
pub mod c16;
pub mod c17;
pub mod c18;
pub mod c19;
pub mod c20;
pub mod collcheck;
pub mod threads;

pub fn dispatch(ctx: &Ctx, replay: Option<&str>) -> i32 {
    match ctx.prop.as_str() {
        "C01" => c01::run(ctx, replay),
        "C02" => c02::run(ctx, replay),
        "C03" => c03::run(ctx, replay),
        "C04" => c04::run(ctx, replay),
        "C05" => c05::run(ctx, replay),
        "C06" => c06::run(ctx, replay),
        "C07" => c07::run(ctx, replay),
        "C08" => c08::run(ctx, replay),
        "C09" => c09::run(ctx, replay),
        "C10" => c10::run(ctx, replay),
        "C11" => c11::run(ctx, replay),
        "C12" => c12::run(ctx, replay),
        "C13" => c13::run(ctx, replay),
        "C14" => c14::run(ctx, replay),
        "C15" => c15::run(ctx, replay),
        "C16" => c16::run(ctx, replay),
        "C17" => c17::run(ctx, replay),
        "C18" => c18::run(ctx, replay),
        "C19" => c19::run(ctx, replay),
        "C20" => c20::run(ctx, replay),
        _ => {
            eprintln!("no check for property {}", ctx.prop);
            2
        }
    }
}
