use crate::runner::Ctx;

pub mod c01;
pub mod c10;

pub fn dispatch(ctx: &Ctx, replay: Option<&str>) -> i32 {
    match ctx.prop.as_str() {
        "C01" => c01::run(ctx, replay),
        "C10" => c10::run(ctx, replay),
        _ => {
            eprintln!("no check for property {}", ctx.prop);
            2
        }
    }
}
