use crate::runner::Ctx;

pub fn dispatch(ctx: &Ctx, replay: Option<&str>) -> i32 {
    match ctx.prop.as_str() {
        _ => {
            let _ = replay;
            eprintln!("no check for property {}", ctx.prop);
            2
        }
    }
}
