//! C18 — arbitrarily deep, wide or cyclic values are handled without exhausting the host.
//! Domain: value shape x size x operation x JIT on/off.  Oracle: the evaluation completes with
//! the expected small result (or an error value); the engine process never dies (native stack
//! overflow = SIGSEGV / abort) and operations on small cyclic structures terminate.

use crate::runner::*;
use crate::worker::{Config, Workers};
use proptest::prelude::*;
use serde::{Deserialize, Serialize};
use svproto::*;

#[derive(Clone, Copy, Debug, Serialize, Deserialize, PartialEq)]
pub enum Shape {
    LongList,
    CarNestedList,
    CarNestedPair,
    CdrNestedPair,
    NestedImmutableVector,
    NestedMutableVector,
    NestedHashValue,
    NestedHashKey,
    NestedBox,
    NestedStruct,
    ClosureChain,
    LongString,
    WideVector,
    WideHash,
    // cyclic (size = cycle length)
    CycleBox,
    CycleVector,
    CycleStruct,
    CycleMixed,
    CycleClosure,
    /// a vector used as a hash key and then made to contain the map
    CycleHashKey,
    /// a vector that is a member of a hash set and then made to contain the set
    CycleSetMember,
    /// a cycle through a hash map value
    CycleHashValue,
}

pub const DEEP: &[Shape] = &[
    Shape::LongList,
    Shape::CarNestedList,
    Shape::CarNestedPair,
    Shape::CdrNestedPair,
    Shape::NestedImmutableVector,
    Shape::NestedMutableVector,
    Shape::NestedHashValue,
    Shape::NestedHashKey,
    Shape::NestedBox,
    Shape::NestedStruct,
    Shape::ClosureChain,
    Shape::LongString,
    Shape::WideVector,
    Shape::WideHash,
];
pub const CYCLIC: &[Shape] = &[Shape::CycleBox, Shape::CycleVector, Shape::CycleStruct, Shape::CycleMixed, Shape::CycleClosure, Shape::CycleHashKey, Shape::CycleSetMember, Shape::CycleHashValue];

#[derive(Clone, Copy, Debug, Serialize, Deserialize, PartialEq)]
pub enum Op {
    BuildAndDiscard,
    EqualCopy,
    EqualDifferent,
    HashKey,
    Print,
    PrintDisplay,
    SendToThread,
    CollectWhileAlive,
    StoreInContainers,
}
pub const OPS: &[Op] = &[Op::BuildAndDiscard, Op::EqualCopy, Op::EqualDifferent, Op::HashKey, Op::Print, Op::PrintDisplay, Op::SendToThread, Op::CollectWhileAlive, Op::StoreInContainers];

#[derive(Clone, Debug, Serialize, Deserialize)]
pub struct Case18 {
    pub shape: Shape,
    pub op: Op,
    pub n: u64,
}

const PRELUDE: &str = r#"(struct node (next) #:mutable)
(define (iter n acc f) (if (= n 0) acc (iter (- n 1) (f acc) f)))
(define (mk-long-list n leaf) (iter n (list leaf) (lambda (a) (cons 1 a))))
(define (mk-car-list n leaf) (iter n leaf (lambda (a) (list a))))
(define (mk-car-pair n leaf) (iter n leaf (lambda (a) (cons a 1))))
(define (mk-cdr-pair n leaf) (iter n leaf (lambda (a) (cons 1 a))))
(define (mk-ivec n leaf) (iter n leaf (lambda (a) (immutable-vector a))))
(define (mk-mvec n leaf) (iter n leaf (lambda (a) (vector a))))
(define (mk-hashv n leaf) (iter n leaf (lambda (a) (hash 'k a))))
(define (mk-hashk n leaf) (iter n leaf (lambda (a) (hash a 'v))))
(define (mk-box n leaf) (iter n leaf (lambda (a) (box a))))
(define (mk-struct n leaf) (iter n leaf (lambda (a) (node a))))
(define (mk-closure n leaf) (iter n (lambda () leaf) (lambda (a) (lambda () a))))
(define (mk-string n leaf) (make-string n #\a))
(define (mk-wide-vec n leaf) (let ((v (make-vector n 0))) (vector-set! v (- n 1) leaf) v))
(define (mk-wide-hash n leaf) (iter n (hash 'leaf leaf) (lambda (h) (hash-insert h (hash-length h) 1))))
(define (mk-cycle-box n leaf) (let* ((first (box leaf)) (last (iter (- n 1) first (lambda (a) (box a))))) (set-box! first last) last))
(define (mk-cycle-vec n leaf) (let* ((first (vector leaf 0)) (last (iter (- n 1) first (lambda (a) (vector a 0))))) (vector-set! first 0 last) last))
(define (mk-cycle-struct n leaf) (let* ((first (node leaf)) (last (iter (- n 1) first (lambda (a) (node a))))) (set-node-next! first last) last))
(define (mk-cycle-mixed n leaf) (let* ((first (box leaf)) (last (iter (- n 1) first (lambda (a) (if (even? (vector-length (vector a))) (node a) (vector (node (box a)))))))) (set-box! first last) last))
(define (mk-cycle-closure n leaf) (let* ((cell (box leaf)) (f (lambda () (unbox cell)))) (set-box! cell f) f))
(define (mk-cycle-hash-key n leaf) (let* ((k (vector leaf 2)) (h (hash k 'x))) (vector-set! k 0 h) h))
(define (mk-cycle-set-member n leaf) (let* ((k (vector leaf 2)) (s (hashset k 5))) (vector-set! k 0 s) s))
(define (mk-cycle-hash-value n leaf) (let* ((v (vector leaf 2)) (h (hash 'self v 'tag 7))) (vector-set! v 0 h) v))
(define (to-str v) (let ((p (open-output-string))) (write v p) (string-length (get-output-string p))))"#;

fn maker(s: Shape) -> &'static str {
    match s {
        Shape::LongList => "mk-long-list",
        Shape::CarNestedList => "mk-car-list",
        Shape::CarNestedPair => "mk-car-pair",
        Shape::CdrNestedPair => "mk-cdr-pair",
        Shape::NestedImmutableVector => "mk-ivec",
        Shape::NestedMutableVector => "mk-mvec",
        Shape::NestedHashValue => "mk-hashv",
        Shape::NestedHashKey => "mk-hashk",
        Shape::NestedBox => "mk-box",
        Shape::NestedStruct => "mk-struct",
        Shape::ClosureChain => "mk-closure",
        Shape::LongString => "mk-string",
        Shape::WideVector => "mk-wide-vec",
        Shape::WideHash => "mk-wide-hash",
        Shape::CycleBox => "mk-cycle-box",
        Shape::CycleVector => "mk-cycle-vec",
        Shape::CycleStruct => "mk-cycle-struct",
        Shape::CycleMixed => "mk-cycle-mixed",
        Shape::CycleClosure => "mk-cycle-closure",
        Shape::CycleHashKey => "mk-cycle-hash-key",
        Shape::CycleSetMember => "mk-cycle-set-member",
        Shape::CycleHashValue => "mk-cycle-hash-value",
    }
}

/// (program, expected canonical value of the last form or None = any value or an error value)
fn program(c: &Case18) -> (String, Option<String>) {
    let mk = maker(c.shape);
    let n = c.n.max(1);
    let cyclic = CYCLIC.contains(&c.shape);
    match c.op {
        Op::BuildAndDiscard => (format!("(define v ({} {} 'leaf))\n(set! v #f)\n(#%gc-collect)\n'done", mk, n), Some("y:\"done\"".into())),
        Op::EqualCopy => (
            format!("(define v1 ({} {} 'leaf))\n(define v2 ({} {} 'leaf))\n(list (equal? v1 v1) (equal? v1 v2))", mk, n, mk, n),
            // closures are equal only to themselves; cyclic copies may be reported either way as long as the answer comes
            if c.shape == Shape::ClosureChain || c.shape == Shape::CycleClosure || cyclic { None } else { Some("(#t #t)".into()) },
        ),
        Op::EqualDifferent => (
            format!("(define v1 ({} {} 'leaf))\n(define v2 ({} {} 'other))\n(equal? v1 v2)", mk, n, mk, n),
            if c.shape == Shape::LongString || cyclic || c.shape == Shape::ClosureChain { None } else { Some("#f".into()) },
        ),
        Op::HashKey => (format!("(define v ({} {} 'leaf))\n(define h (hash v 1))\n(hash-length h)", mk, n), None),
        Op::Print => (format!("(define v ({} {} 'leaf))\n(> (to-str v) 0)", mk, n), None),
        Op::PrintDisplay => (format!("(define v ({} {} 'leaf))\n(> (string-length (with-output-to-string (lambda () (display v)))) 0)", mk, n), None),
        Op::SendToThread => (format!("(define v ({} {} 'leaf))\n(define t (spawn-native-thread (lambda () (if v 'received 'no))))\n(thread-join! t)", mk, n), Some("y:\"received\"".into())),
        Op::CollectWhileAlive => (format!("(define v ({} {} 'leaf))\n(#%gc-collect)\n(define w ({} {} 'leaf2))\n(#%gc-collect)\n(if (and v w) 'alive 'no)", mk, n, mk, 100.min(n)), Some("y:\"alive\"".into())),
        Op::StoreInContainers => (format!("(define v ({} {} 'leaf))\n(define all (list (box v) (vector v v) (hash 'a v) (lambda () v) (list v v)))\n(length all)", mk, n), Some("i:5".into())),
    }
}

pub fn check(ctx: &Ctx, ws: &mut Workers, c: &Case18, counting: bool) -> PropResult {
    let (prog, expect) = program(c);
    let cyclic = CYCLIC.contains(&c.shape);
    for cfg in [Config::jit_off(), Config::default_cfg()] {
        let mut case = Case::new(vec![Step::Eval { src: PRELUDE.to_string() }, Step::Eval { src: prog.clone() }]);
        case.timeout_ms = if cyclic { 15_000 } else { 60_000 };
        case.mem_mb = 6000;
        let r = ws.run(&cfg, &case);
        ctx.stats.engine_runs.fetch_add(1, std::sync::atomic::Ordering::Relaxed);
        let shown = format!("config: {}\nshape {:?}, size {}, operation {:?}\n{}", cfg.label(), c.shape, c.n, c.op, prog);
        let key = format!("{:?}:{:?}", c.shape, c.op);
        match r.end {
            End::Done => {}
            End::Oom if cyclic && c.n <= 64 && c.op == Op::Print => {
                return Err(Failure::new(format!("c18:does-not-terminate:{}", key), format!("{}\nwriting a cycle of {} cells exhausted a 6 GB address space", shown, c.n)));
            }
            End::Oom => {
                if counting {
                    ctx.stats.inconclusive.fetch_add(1, std::sync::atomic::Ordering::Relaxed);
                }
                continue;
            }
            End::Watchdog => {
                // operations on a cycle of at most 64 cells must terminate; anything else is a matter of time
                if cyclic && c.n <= 64 {
                    return Err(Failure::new(format!("c18:does-not-terminate:{}", key), format!("{}\nstill running after 15 s", shown)));
                }
                if counting {
                    ctx.stats.inconclusive.fetch_add(1, std::sync::atomic::Ordering::Relaxed);
                }
                continue;
            }
            End::Signal(s) => {
                let oom = r.stderr_tail.contains("memory allocation of");
                if oom && cyclic && c.n <= 64 && (c.op == Op::Print || c.op == Op::PrintDisplay) {
                    return Err(Failure::new(format!("c18:does-not-terminate:{}", key), format!("{}\nwriting a cycle of {} cells exhausted a 6 GB address space", shown, c.n)));
                }
                if oom {
                    if counting {
                        ctx.stats.inconclusive.fetch_add(1, std::sync::atomic::Ordering::Relaxed);
                    }
                    continue;
                }
                return Err(Failure::new(format!("c18:host-crash:{}", key), format!("{}\nengine process died with signal {}\nstderr: {}", shown, s, r.stderr_tail)));
            }
            End::Exit(x) => return Err(Failure::new(format!("c18:exit:{}", key), format!("{}\nengine process exited with status {}", shown, x))),
        }
        let Some(st) = r.steps.get(1) else {
            return Err(Failure::new(format!("c18:prelude-failed:{}", key), shown));
        };
        match st.outcome {
            Outcome::Panic => return Err(Failure::new(format!("c18:panic:{}", key), format!("{}\npanic: {}", shown, st.err_msg))),
            // "completes or returns an error value"
            Outcome::Err => {
                if counting {
                    ctx.stats.class(&format!("error-value:{}", key));
                }
            }
            Outcome::Ok => {
                let got = st.values.iter().rev().find(|v| *v != "#void").cloned().unwrap_or_default();
                if let Some(e) = &expect {
                    if got != *e {
                        return Err(Failure::new(format!("c18:wrong-result:{}", key), format!("{}\nexpected: {}\nactual:   {}", shown, e, got)));
                    }
                }
            }
        }
    }
    if counting {
        ctx.stats.eval();
        ctx.stats.class(&format!("shape:{:?}", c.shape));
        ctx.stats.class(&format!("op:{:?}", c.op));
        ctx.stats.class(&format!("size:1e{}", (c.n as f64).log10().floor() as i64));
        if c.n >= 1000 || cyclic {
            ctx.stats.nontrivial(&format!("{:?}", c));
        }
        if ctx.stats.want_sample() {
            ctx.stats.sample(serde_json::json!({"shape": format!("{:?}", c.shape), "op": format!("{:?}", c.op), "n": c.n}));
        }
    }
    Ok(())
}

pub fn run(ctx: &Ctx, replay: Option<&str>) -> i32 {
    ctx.set_rule(
        "14 deep / wide shapes (long list, car-nested lists and pairs, cdr-nested pairs, nested immutable and mutable vectors, \
         hash maps nested through values and through keys, nested boxes and structs, a chain of closures, a long string, a wide \
         vector and hash map) at sizes 10, 10^3, 10^4, 10^5 (thorough: 10^6) and 8 cyclic shapes (boxes, vectors, struct fields, \
         a mix, a closure capturing itself through a box, cycles through a hash key, a set member and a hash value) with cycle lengths 1-64, each under 8 operations: build and discard \
         with a collection, equal? with an equal copy and with a copy differing in the innermost leaf, use as a hash key, write and display \
         to a string port, hand to another native thread, collect while alive, store in five kinds of containers; JIT on/off. \
         Oracle: the engine process survives (a native stack overflow is a crash), the expected small result or an error value \
         comes back, operations on cycles of <=64 cells finish within 15 s. Out of memory and timeouts on large sizes are \
         inconclusive. Non-trivial = size >= 1000 or cyclic.",
    );
    ctx.assume("case children run with a 6 GB address space limit and the default 8 MB main-thread stack, like an embedding host's main thread");
    if let Some(path) = replay {
        let Some(rf) = load_replay::<Case18>(std::path::Path::new(path)) else {
            eprintln!("cannot read replay file {}", path);
            return 2;
        };
        let mut ws = Workers::new();
        return match check(ctx, &mut ws, &rf.case, false) {
            Ok(()) => {
                println!("replay {}: property holds", path);
                0
            }
            Err(f) => {
                println!("VIOLATION property={} replay={}", ctx.prop, path);
                println!("  sig: {}\n{}", f.sig, f.detail);
                1
            }
        };
    }
    {
        let mut ws = Workers::new();
        replay_tier::<Case18>(ctx, "deep", &mut |c| check(ctx, &mut ws, c, false));
    }
    let sizes: Vec<u64> = if ctx.quick() { vec![10, 1000, 10_000, 100_000] } else { vec![10, 1000, 10_000, 100_000, 1_000_000] };
    let fails = run_prop(
        ctx,
        "deep",
        || {
            let sizes = sizes.clone();
            prop_oneof![
                3 => (prop::sample::select(DEEP.to_vec()), prop::sample::select(OPS.to_vec()), prop::sample::select(sizes)).prop_map(|(shape, op, n)| Case18 { shape, op, n }),
                1 => (prop::sample::select(CYCLIC.to_vec()), prop::sample::select(OPS.to_vec()), 1u64..=64).prop_map(|(shape, op, n)| Case18 { shape, op, n }),
            ]
        },
        ctx.n(300, 6000),
        |ws, c, counting| match check(ctx, ws, c, counting) {
            Err(f) => {
                if let Some(k) = ctx.match_known(&f) {
                    if counting {
                        ctx.note_known_hit(&k.id);
                        ctx.dump_known_case(k, "deep", c, &f);
                    }
                    Ok(())
                } else if ctx.survey_case("deep", c, &f) {
                    Ok(())
                } else {
                    Err(f)
                }
            }
            ok => ok,
        },
    );
    report_failures(ctx, "deep", fails);
    ctx.finish()
}
