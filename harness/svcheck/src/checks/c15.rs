//! C15 — world-stopping operations see other threads only while they are stopped.
//! The thread programs of `threads.rs` with a full collection forced every 40-1000 allocations (each
//! one stops the world while 1-8 workers run) and global definitions / assignments by the main
//! thread.  The property's own hook (a per-thread "being scanned" flag asserted on every dispatch)
//! is not implemented; the check observes the consequences a violation has: a worker's private
//! object graph or accumulator changed, a stale heap handle, a free-list accounting error, a
//! global assignment not visible to a worker that synchronised with the assigning thread, a crash.

use crate::checks::threads;
use crate::runner::*;

pub fn run(ctx: &Ctx, replay: Option<&str>) -> i32 {
    ctx.set_rule(
        "programs with 1-8 native worker threads, 50-2000 iterations each, allocating boxes / vectors / closures / hash maps / \
         strings, each keeping a private depth-3 graph of boxes, vectors and lists alive; a full collection is forced every 40, \
         200 or 1000 allocations (on whichever thread allocates), so the world is stopped hundreds of times while workers run, \
         block on channels and exit; the main thread assigns a global before each of 0-5 rounds of sends and optionally defines \
         new globals between them. Checked: every worker's final accumulator and graph checksum, the value of the global a worker \
         reads after receiving the main thread's i-th value (>= i), the heap hooks (stale handle accesses, accounting), no \
         crash, completion. Non-trivial = >=2 workers and >=100 iterations.",
    );
    ctx.assume("the 'being scanned' flag hook named by the property is not implemented: only the observable consequences of a thread running while its state is inspected are checked; the OS scheduler chooses the interleavings (not owned by the harness)");
    threads::run(ctx, replay, "c15", true, 48, 3000)
}
