//! C15 — world-stopping operations see other threads only while they are stopped.
//! The thread programs of `threads.rs` with a full collection forced every 40-1000 allocations (each
//! one stops the world while 1-8 workers run) and global definitions / assignments by the main thread
//! and by an updater thread.  Oracles: the property's own hook - a per-thread "being scanned" flag, set
//! when a stopper first uses the thread's published pointer and cleared before it resumes the threads,
//! checked at every instruction dispatch - must never fire; delay points in the handshake (generated
//! schedule) widen its windows; and the consequences a violation has: a worker's private object graph
//! or accumulator changed, a stale heap handle, a global assignment not visible to a worker that
//! synchronised with the assigning thread, a crash, a hang.

use crate::checks::threads;
use crate::runner::*;

pub fn run(ctx: &Ctx, replay: Option<&str>) -> i32 {
    ctx.set_rule(
        "programs with 1-8 native worker threads, 50-2000 iterations each, allocating boxes / vectors / closures / hash maps / \
         strings, each keeping a private depth-3 graph of boxes, vectors and lists alive; a full collection is forced every 40, \
         200 or 1000 allocations (on whichever thread allocates), so the world is stopped hundreds of times while workers run, \
         block on channels and exit; the main thread assigns a global before each of 0-5 rounds of sends and optionally defines \
         new globals between them; optionally an updater thread assigns another global 50 / 300 times back to back at the same \
         time (two threads requesting world stops) and the main thread spawns and joins 10 / 40 short-lived threads; two thirds \
         of the cases carry a delay schedule (a subset of the 8 delay points of the stop / resume / safepoint / registration \
         handshake, firing at every 1st-101st visit for 0-200 us). Checked: the 'being scanned' hook never sees an instruction \
         dispatched by a thread whose state a stopper is using, every worker's final accumulator and graph checksum, the value \
         of the global a worker reads after receiving the main thread's i-th value (>= i), the stale-handle hook, no crash, \
         completion. Non-trivial = >=2 workers, >=100 iterations and at least one world stop during the case.",
    );
    ctx.assume("the OS scheduler chooses the interleavings (not owned by the harness); the delay points only widen the windows. The case child runs on 4 cpus");
    threads::run(ctx, replay, "c15", true, 400, 20000)
}
