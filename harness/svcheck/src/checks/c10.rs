//! C10 — exact arithmetic is exact and the numeric tower is coherent.
//!
//! Domain: (operator, operand tuple, syntactic shape).  Oracle: `svmodel::num` (BigRational +
//! IEEE f64).  Every item is rendered to Scheme text, evaluated by the real engine, and the
//! canonical rendering of the result (taken from the SteelVal, not from the printer) must be
//! one of the renderings the model accepts.

use crate::runner::*;
use crate::worker::{Config, Workers};
use num_bigint::BigInt;
use proptest::prelude::*;
use serde::{Deserialize, Serialize};
use svmodel::num::{self, Expect, Num, Op, Operand};
use svproto::*;

#[derive(Clone, Copy, Debug, PartialEq, Eq, Serialize, Deserialize, Hash)]
pub enum Shape {
    /// `(op lit ...)` at top level: the constant folder's path
    AllLiteral,
    /// operands are parameters of a defined function: specialised / native code path
    ViaParams,
    /// binary: right operand a literal inside a function (immediate opcodes)
    LiteralRight,
    LiteralLeft,
    /// operands copied to let-bound locals first (register opcodes)
    Locals,
    /// result used as a branch condition (fused compare-and-branch); comparisons only
    BranchCond,
    /// result in non-tail (argument) position
    NonTail,
    /// `(apply op (list ...))`
    Apply,
    /// operator passed as a first-class value
    FirstClass,
    /// evaluated repeatedly inside a self tail-recursive loop
    Loop,
    /// binary, right operand a literal, evaluated inside a self tail-recursive loop
    LoopLiteralRight,
}

#[derive(Clone, Debug, Serialize, Deserialize)]
pub struct Item {
    pub op: Op,
    pub args: Vec<Operand>,
    pub shape: Shape,
    pub radix: u32,
    /// call the defined function through `apply` (a direct top-level call is inlined by the
    /// compiler and never reaches the function's own compiled / native code)
    #[serde(default)]
    pub indirect: bool,
}

fn pow2(k: u32) -> BigInt {
    BigInt::from(1) << (k as usize)
}

fn boundary_int() -> impl Strategy<Value = Operand> {
    (prop::sample::select(vec![31u32, 32, 52, 53, 62, 63, 64, 65]), -2i64..=2, any::<bool>()).prop_map(|(k, d, neg)| {
        let mut v = pow2(k) + BigInt::from(d);
        if neg {
            v = -v;
        }
        Operand::Int(v.to_string())
    })
}

fn big_int() -> impl Strategy<Value = Operand> {
    (prop::collection::vec(any::<u32>(), 1..7), any::<bool>()).prop_map(|(digits, neg)| {
        let mut v = BigInt::from(0);
        for d in digits {
            v = (v << 32usize) + BigInt::from(d);
        }
        if neg {
            v = -v;
        }
        Operand::Int(v.to_string())
    })
}

fn small_int() -> impl Strategy<Value = Operand> {
    (-12i64..=12).prop_map(|i| Operand::Int(i.to_string()))
}

fn exact_int() -> impl Strategy<Value = Operand> {
    prop_oneof![3 => small_int(), 4 => boundary_int(), 2 => big_int()]
}

fn op_to_bigint(o: &Operand) -> BigInt {
    match o {
        Operand::Int(s) => s.parse().unwrap(),
        _ => unreachable!(),
    }
}

fn rational() -> impl Strategy<Value = Operand> {
    prop_oneof![
        3 => (-30i64..=30, 1i64..=30).prop_map(|(n, d)| Operand::Rat(n.to_string(), d.to_string())),
        3 => (boundary_int(), boundary_int()).prop_map(|(n, d)| {
            let d = op_to_bigint(&d);
            let d = if d < BigInt::from(0) { -d } else { d };
            Operand::Rat(op_to_bigint(&n).to_string(), d.to_string())
        }),
        2 => (exact_int(), 1i64..=9).prop_map(|(n, d)| Operand::Rat(op_to_bigint(&n).to_string(), d.to_string())),
        2 => (big_int(), big_int()).prop_map(|(n, d)| {
            let d = op_to_bigint(&d);
            let d = if d <= BigInt::from(0) { BigInt::from(1) - d } else { d };
            Operand::Rat(op_to_bigint(&n).to_string(), d.to_string())
        }),
    ]
}

fn float(allow_nan: bool) -> impl Strategy<Value = Operand> {
    let specials: Vec<f64> = vec![
        0.0,
        -0.0,
        1.0,
        -1.0,
        0.5,
        1.5,
        -2.5,
        0.1,
        f64::from_bits(1),
        -f64::from_bits(1),
        f64::MIN_POSITIVE,
        9007199254740992.0,
        9007199254740993.0,
        -9007199254740992.0,
        9.223372036854776e18,
        -9.223372036854776e18,
        4611686018427387904.0,
        1e21,
        1e308,
        f64::INFINITY,
        f64::NEG_INFINITY,
        2147483648.0,
        4294967296.0,
    ];
    let mut opts: Vec<BoxedStrategy<Operand>> = vec![
        prop::sample::select(specials).prop_map(|f| Operand::Flo(f.to_bits())).boxed(),
        (-1000i64..1000).prop_map(|i| Operand::Flo((i as f64 / 8.0).to_bits())).boxed(),
        any::<f64>().prop_filter("finite", |f| f.is_finite()).prop_map(|f| Operand::Flo(f.to_bits())).boxed(),
    ];
    if allow_nan {
        opts.push(Just(Operand::Flo(f64::NAN.to_bits())).boxed());
    }
    proptest::strategy::Union::new(opts)
}

fn any_operand(allow_nan: bool) -> impl Strategy<Value = Operand> {
    prop_oneof![4 => exact_int(), 3 => rational(), 3 => float(allow_nan)]
}

fn exact_operand() -> impl Strategy<Value = Operand> {
    prop_oneof![5 => exact_int(), 4 => rational()]
}

fn shapes_for(op: Op, nargs: usize) -> Vec<Shape> {
    let mut v = vec![Shape::AllLiteral, Shape::ViaParams, Shape::Locals, Shape::NonTail, Shape::Apply, Shape::FirstClass, Shape::Loop];
    if nargs == 2 {
        v.push(Shape::LiteralRight);
        v.push(Shape::LiteralLeft);
        v.push(Shape::LoopLiteralRight);
    }
    if op.is_comparison() {
        v.push(Shape::BranchCond);
        v.push(Shape::BranchCond);
    }
    if matches!(op, Op::NumberToString | Op::StringToNumberRoundTrip) {
        v = vec![Shape::AllLiteral, Shape::ViaParams];
    }
    v
}

fn with_shape(op: Op, args: Vec<Operand>, radix: u32) -> impl Strategy<Value = Item> {
    let shapes = shapes_for(op, args.len());
    (prop::sample::select(shapes), any::<bool>()).prop_map(move |(shape, indirect)| Item { op, args: args.clone(), shape, radix, indirect })
}

pub fn item() -> impl Strategy<Value = Item> {
    let arith = (prop::sample::select(vec![Op::Add, Op::Sub, Op::Mul, Op::Div]), prop::collection::vec(any_operand(true), 1..=4))
        .prop_map(|(op, mut args)| {
            if op == Op::Div {
                // R7RS leaves (/ inexact 0) open (error or infinity): keep exact zero divisors
                // only when every operand is exact.
                let any_float = args.iter().any(|a| !a.is_exact());
                if any_float {
                    for a in args.iter_mut().skip(1) {
                        if let Num::Ex(r) = a.to_num() {
                            if num_traits::Zero::is_zero(&r) {
                                *a = Operand::Int("2".into());
                            }
                        }
                    }
                    if args.len() == 1 {
                        if let Num::Ex(r) = args[0].to_num() {
                            if num_traits::Zero::is_zero(&r) {
                                args[0] = Operand::Int("2".into());
                            }
                        }
                    }
                }
            }
            (op, args, 10u32)
        });
    let intdiv = (prop::sample::select(vec![Op::Quotient, Op::Remainder, Op::Modulo, Op::Gcd, Op::Lcm]), exact_int(), exact_int())
        .prop_map(|(op, a, b)| (op, vec![a, b], 10u32));
    let cmp = (
        prop::sample::select(vec![Op::NumEq, Op::Lt, Op::Gt, Op::Le, Op::Ge]),
        prop::collection::vec(any_operand(true), 2..=4),
        any::<bool>(),
        0usize..4,
    )
        .prop_map(|(op, mut args, dup, at)| {
            // Steel's `=` takes exactly two arguments (a third is a clean arity error, which is
            // not an arithmetic result): outside this property's domain.
            if op == Op::NumEq {
                args.truncate(2);
            }
            // equal operands in different representations are the interesting case
            if dup && args.len() >= 2 {
                let i = at % (args.len() - 1);
                let twin = match args[i].to_num() {
                    Num::Ex(r) => {
                        let f = num::ratio_to_f64(&r);
                        if f.is_finite() { Operand::Flo(f.to_bits()) } else { args[i].clone() }
                    }
                    Num::Fl(f) => match num::f64_to_ratio(f) {
                        Some(r) => Operand::Rat(r.numer().to_string(), r.denom().to_string()),
                        None => args[i].clone(),
                    },
                };
                // write integral rationals as integers (the reader's job is C12)
                let twin = match &twin {
                    Operand::Rat(n, d) if d == "1" => Operand::Int(n.clone()),
                    _ => twin,
                };
                args[i + 1] = twin;
            }
            (op, args, 10u32)
        });
    let unary = (prop::sample::select(vec![Op::Abs]), any_operand(false)).prop_map(|(op, a)| (op, vec![a], 10u32));
    let expt = (prop_oneof![small_int(), boundary_int(), (-30i64..=30, 1i64..=30).prop_map(|(n, d)| Operand::Rat(n.to_string(), d.to_string()))], -8i64..=64)
        .prop_map(|(b, e)| (Op::Expt, vec![b, Operand::Int(e.to_string())], 10u32));
    let isqrt = prop_oneof![
        8 => exact_int().prop_map(|a| { let v = op_to_bigint(&a); Operand::Int((if v < BigInt::from(0) { -v } else { v }).to_string()) }),
        3 => exact_int().prop_map(|a| { let v = op_to_bigint(&a); let v = if v < BigInt::from(0) { -v } else { v }; Operand::Int((&v * &v + BigInt::from(0)).to_string()) }),
        3 => exact_int().prop_map(|a| { let v = op_to_bigint(&a); let v = if v < BigInt::from(0) { -v } else { v }; Operand::Int((&v * &v - BigInt::from(1)).max(BigInt::from(0)).to_string()) }),
        1 => (1i64..1000).prop_map(|i| Operand::Int((-i).to_string())),
    ]
    .prop_map(|a| (Op::ExactIntegerSqrt, vec![a], 10u32));
    let strconv = (prop::sample::select(vec![Op::NumberToString, Op::StringToNumberRoundTrip]), exact_operand(), prop::sample::select(vec![2u32, 8, 10, 16]))
        .prop_map(|(op, a, r)| (op, vec![a], r));
    // pairs whose exact result crosses (or just misses) the fixnum boundary: the place where
    // every specialised add/sub/mul path has its own overflow promotion
    let crossing = (
        prop::sample::select(vec![Op::Add, Op::Sub, Op::Mul]),
        prop::sample::select(vec![62u32, 63, 63, 63, 64]),
        -3i64..=3,
        any::<bool>(),
        -3i64..=3,
        any::<bool>(),
    )
        .prop_map(|(op, k, d, neg, small, swap)| {
            let mut a = pow2(k) + BigInt::from(d);
            if neg {
                a = -a;
            }
            let (a, b) = if op == Op::Mul {
                // a ~ 2^(k-1) or 2^(k/2) times a small factor
                if swap {
                    (pow2(k - 1) + BigInt::from(d), BigInt::from(if small == 0 { 2 } else { small }))
                } else {
                    (pow2(k / 2) + BigInt::from(d), pow2(k - k / 2) + BigInt::from(small))
                }
            } else {
                (a, BigInt::from(small))
            };
            let (x, y) = (Operand::Int(a.to_string()), Operand::Int(b.to_string()));
            if swap && op != Op::Mul {
                (op, vec![y, x], 10u32)
            } else {
                (op, vec![x, y], 10u32)
            }
        });
    let base = prop_oneof![
        4 => crossing,
        6 => arith,
        3 => intdiv,
        4 => cmp,
        1 => unary,
        2 => expt,
        2 => isqrt,
        2 => strconv,
    ];
    base.prop_flat_map(|(op, args, radix)| with_shape(op, args, radix))
}

fn normalized(o: &Operand) -> Operand {
    // literals are written in lowest terms with integral ratios as integers, so that the
    // reader's handling of unreduced ratio literals is not part of this check
    match o {
        Operand::Rat(n, d) => {
            let r = num_rational::BigRational::new(n.parse().unwrap(), d.parse().unwrap());
            if r.is_integer() {
                Operand::Int(r.numer().to_string())
            } else {
                Operand::Rat(r.numer().to_string(), r.denom().to_string())
            }
        }
        o => o.clone(),
    }
}

/// Renders one item as top-level forms; the last form yields the value.
pub fn render(it: &Item, k: usize) -> String {
    let lits: Vec<String> = it.args.iter().map(|a| normalized(a).literal()).collect();
    let n = lits.len();
    let ps: Vec<String> = (0..n).map(|i| format!("p{}", i)).collect();
    let opn = it.op.name();
    // the operator application given argument texts
    let app = |args: &[String]| -> String {
        match it.op {
            Op::NumberToString => format!("(number->string {} {})", args[0], it.radix),
            Op::StringToNumberRoundTrip => {
                let text = match it.args[0].to_num() {
                    Num::Ex(r) => num::radix_string(&r, it.radix),
                    _ => unreachable!(),
                };
                // the argument is unused on purpose for AllLiteral; for ViaParams it is the radix
                let _ = args;
                format!("(string->number \"{}\" {})", text, it.radix)
            }
            _ => format!("({} {})", opn, args.join(" ")),
        }
    };
    let f = format!("f{}", k);
    // (f a b) or (apply f (list a b))
    let callf = |args: &str| -> String {
        if it.indirect {
            format!("(apply {} (list {}))", f, args)
        } else {
            format!("({} {})", f, args)
        }
    };
    match it.shape {
        Shape::AllLiteral => app(&lits),
        Shape::ViaParams => format!("(define ({} {}) {})\n{}", f, ps.join(" "), app(&ps), callf(&lits.join(" "))),
        Shape::LiteralRight => format!("(define ({} p0) {})\n{}", f, app(&[ps[0].clone(), lits[1].clone()]), callf(&lits[0])),
        Shape::LiteralLeft => format!("(define ({} p1) {})\n{}", f, app(&[lits[0].clone(), ps[1].clone()]), callf(&lits[1])),
        Shape::LoopLiteralRight => format!(
            "(define ({} n acc p0) (if (= n 0) acc ({} (- n 1) {} p0)))\n{}",
            f,
            f,
            app(&[ps[0].clone(), lits[1].clone()]),
            callf(&format!("3 #f {}", lits[0]))
        ),
        Shape::Locals => {
            let xs: Vec<String> = (0..n).map(|i| format!("x{}", i)).collect();
            let binds: Vec<String> = (0..n).map(|i| format!("(x{} p{})", i, i)).collect();
            format!("(define ({} {}) (let ({}) {}))\n{}", f, ps.join(" "), binds.join(" "), app(&xs), callf(&lits.join(" ")))
        }
        Shape::BranchCond => format!("(define ({} {}) (if {} 'yes 'no))\n{}", f, ps.join(" "), app(&ps), callf(&lits.join(" "))),
        Shape::NonTail => format!("(define ({} {}) (car (list {} 0)))\n{}", f, ps.join(" "), app(&ps), callf(&lits.join(" "))),
        Shape::Apply => format!("(define ({} {}) (apply {} (list {})))\n({} {})", f, ps.join(" "), opn, ps.join(" "), f, lits.join(" ")),
        Shape::FirstClass => format!("(define ({} g {}) (g {}))\n({} {} {})", f, ps.join(" "), ps.join(" "), f, opn, lits.join(" ")),
        Shape::Loop => format!(
            "(define ({} n acc {}) (if (= n 0) acc ({} (- n 1) {} {})))\n{}",
            f,
            ps.join(" "),
            f,
            app(&ps),
            ps.join(" "),
            callf(&format!("3 #f {}", lits.join(" ")))
        ),
    }
}

/// set once at start-up: is the known finding KF-C10-float-division listed?
pub static FLOAT_DIV_KNOWN: std::sync::atomic::AtomicBool = std::sync::atomic::AtomicBool::new(false);

fn float_div_item(it: &Item) -> bool {
    it.op == Op::Div && it.args.len() >= 2 && it.args.iter().any(|a| !a.is_exact())
}

pub fn expected(it: &Item) -> Expect {
    let args: Vec<Num> = it.args.iter().map(|a| a.to_num()).collect();
    let mut e = num::eval(it.op, &args, it.radix).expect("generator produced an item outside the model's domain");
    if float_div_item(it) && FLOAT_DIV_KNOWN.load(std::sync::atomic::Ordering::Relaxed) {
        // exclusion of a known finding: also accept Steel's x * (1 / (y * ...))
        if let (Expect::Any(v), Some(alt)) = (&mut e, num::div_by_reciprocal(&args)) {
            for n in alt {
                let c = num::canon(&n);
                if !v.contains(&c) {
                    v.push(c);
                }
            }
        }
    }
    if it.shape == Shape::BranchCond {
        match e {
            Expect::Any(v) => Expect::one(if v[0] == "#t" { "y:\"yes\"".into() } else { "y:\"no\"".into() }),
            e => e,
        }
    } else {
        e
    }
}

fn is_nontrivial(it: &Item, exp: &Expect) -> bool {
    let lim = pow2(62);
    let big_or_frac = |n: &Num| match n {
        Num::Ex(r) => !r.is_integer() || r.numer() > &lim || r.numer() < &(-lim.clone()),
        Num::Fl(_) => false,
    };
    let args: Vec<Num> = it.args.iter().map(|a| a.to_num()).collect();
    let mixed = args.iter().any(|a| matches!(a, Num::Fl(_))) && args.iter().any(|a| matches!(a, Num::Ex(_)));
    let res_big = match exp {
        Expect::Any(v) | Expect::ErrOrAny(v) => v.iter().any(|s| s.starts_with("B:") || s.starts_with("r:") || s.starts_with("R:")),
        Expect::Err => true,
    };
    mixed || res_big || args.iter().any(big_or_frac)
}

fn class_of(it: &Item) -> String {
    format!("{}:{:?}", it.op.name(), it.shape)
}

/// Evaluate one item alone; returns the failure if the engine disagrees with the model.
/// The case for a list of (position, item): as top-level text (REPL entry) or as the body of
/// a module required by a one-line main program (how files run; there the compiler emits the
/// specialised arithmetic opcodes).  Returns (case, text shown in failure reports).
pub fn make_case(items: &[(usize, &Item)], module: bool) -> (Case, String) {
    if !module {
        let mut src = String::new();
        for (pos, it) in items {
            src.push_str(&render(it, *pos));
            src.push('\n');
        }
        return (Case::eval(src.clone()), src);
    }
    let mut body = String::new();
    let mut names = vec![];
    for (pos, it) in items {
        let text = render(it, *pos);
        let (defs, call) = match text.rsplit_once('\n') {
            Some((d, c)) => (format!("{}\n", d), c.to_string()),
            None => (String::new(), text.clone()),
        };
        let name = format!("r{}", pos);
        body.push_str(&defs);
        body.push_str(&format!("(define {} {})\n", name, call));
        names.push(name);
    }
    let module_src = format!("(provide {})\n{}", names.join(" "), body);
    let main = format!("(require \"vmain\")\n{}", names.join("\n"));
    let shown = format!(";; module vmain\n{};; main\n{}", module_src, main);
    (Case::new(vec![Step::Module { name: "vmain".into(), src: module_src }, Step::Eval { src: main }]), shown)
}

/// Evaluate one item alone; returns the failure if the engine disagrees with the model.
fn check_single(ws: &mut Workers, cfg: &Config, it: &Item, stats: Option<&Stats>, module: bool) -> PropResult {
    let exp = expected(it);
    let (case, shown) = make_case(&[(0, it)], module);
    let r = ws.run(cfg, &case);
    if let Some(s) = stats {
        s.engine_runs.fetch_add(1, std::sync::atomic::Ordering::Relaxed);
    }
    judge(it, &exp, &shown, &r, cfg)
}

fn judge(it: &Item, exp: &Expect, src: &str, r: &CaseResult, cfg: &Config) -> PropResult {
    let ctxt = format!("config: {}\nprogram:\n{}\nexpected: {:?}", cfg.label(), src, exp);
    match r.end {
        End::Done => {}
        End::Watchdog | End::Oom => return Ok(()), // inconclusive, counted by caller
        End::Signal(s) => return Err(Failure::new(format!("c10:signal:{}", it.op.name()), format!("{}\nchild died with signal {}\n{}", ctxt, s, r.stderr_tail))),
        End::Exit(c) => return Err(Failure::new(format!("c10:exit:{}", it.op.name()), format!("{}\nchild exited with {}", ctxt, c))),
    }
    let st = match r.steps.last() {
        Some(s) => s,
        None => return Err(Failure::new("c10:noresult", ctxt)),
    };
    match st.outcome {
        Outcome::Panic => Err(Failure::new(format!("c10:panic:{}", it.op.name()), format!("{}\npanic: {}", ctxt, st.err_msg))),
        Outcome::Err => match exp {
            Expect::Err | Expect::ErrOrAny(_) => Ok(()),
            _ => Err(Failure::new(format!("c10:unexpected-error:{}", it.op.name()), format!("{}\nactual: error {}: {}", ctxt, st.err_kind, st.err_msg))),
        },
        Outcome::Ok => {
            let vals: Vec<&String> = st.values.iter().filter(|v| *v != "#void").collect();
            let got = match vals.last() {
                Some(v) => (*v).clone(),
                None => return Err(Failure::new(format!("c10:novalue:{}", it.op.name()), ctxt)),
            };
            match exp {
                Expect::Err => Err(Failure::new(format!("c10:missing-error:{}", it.op.name()), format!("{}\nactual: {}", ctxt, got))),
                Expect::Any(v) | Expect::ErrOrAny(v) => {
                    if v.contains(&got) {
                        Ok(())
                    } else {
                        Err(Failure::new(format!("c10:wrong-value:{}", it.op.name()), format!("{}\nactual: {}", ctxt, got)))
                    }
                }
            }
        }
    }
}

#[derive(Clone, Debug, Serialize, Deserialize)]
pub struct Batch {
    pub items: Vec<Item>,
}

fn configs(ctx: &Ctx) -> Vec<Config> {
    let _ = ctx;
    vec![Config::default_cfg(), Config::jit_off()]
}

/// One generated batch: items expected to succeed are evaluated together in one program
/// (a define + a call each); if anything in the batch disagrees, and for items expected to
/// fail, items are evaluated one by one.
fn check_batch(ctx: &Ctx, ws: &mut Workers, b: &Batch, counting: bool) -> PropResult {
    for (cfg, module) in configs(ctx).into_iter().flat_map(|c| [(c.clone(), false), (c, true)]) {
        let exps: Vec<Expect> = b.items.iter().map(expected).collect();
        let ok_idx: Vec<usize> = (0..b.items.len()).filter(|i| matches!(exps[*i], Expect::Any(_))).collect();
        let listed: Vec<(usize, &Item)> = ok_idx.iter().enumerate().map(|(pos, i)| (pos, &b.items[*i])).collect();
        let mut batch_ok = false;
        if !ok_idx.is_empty() {
            let (case, _) = make_case(&listed, module);
            let r = ws.run(&cfg, &case);
            ctx.stats.engine_runs.fetch_add(1, std::sync::atomic::Ordering::Relaxed);
            if matches!(r.end, End::Watchdog | End::Oom) {
                if counting {
                    ctx.stats.inconclusive.fetch_add(1, std::sync::atomic::Ordering::Relaxed);
                }
            }
            if r.end == End::Done {
                if let Some(st) = r.steps.last() {
                    if st.outcome == Outcome::Ok {
                        let vals: Vec<&String> = st.values.iter().filter(|v| *v != "#void").collect();
                        if vals.len() == ok_idx.len() {
                            batch_ok = ok_idx.iter().zip(vals.iter()).all(|(i, v)| match &exps[*i] {
                                Expect::Any(acc) => acc.contains(v),
                                _ => false,
                            });
                        }
                    }
                }
            }
        }
        for (i, it) in b.items.iter().enumerate() {
            let single_needed = !matches!(exps[i], Expect::Any(_)) || !batch_ok;
            if single_needed {
                if let Err(f) = check_single(ws, &cfg, it, Some(&ctx.stats), module) {
                    match ctx.match_known(&f) {
                        Some(k) => {
                            if counting {
                                ctx.note_known_hit(&k.id);
                            }
                        }
                        None => {
                            if !ctx.survey(&f) {
                                return Err(f);
                            }
                        }
                    }
                }
            }
        }
        if counting {
            for (i, it) in b.items.iter().enumerate() {
                ctx.stats.eval();
                ctx.stats.class(&class_of(it));
                if float_div_item(it) && FLOAT_DIV_KNOWN.load(std::sync::atomic::Ordering::Relaxed) {
                    ctx.stats.excluded("KF-C10-float-division");
                }
                if is_nontrivial(it, &exps[i]) {
                    ctx.stats.nontrivial(&format!("{:?}", it));
                }
                if ctx.stats.want_sample() && i == 0 {
                    ctx.stats.sample(serde_json::json!({"program": make_case(&[(0, it)], module).1, "expected": format!("{:?}", exps[i]), "config": cfg.label()}));
                }
            }
        }
    }
    Ok(())
}

fn rerun(b: &Batch) -> PropResult {
    let mut ws = Workers::new();
    for cfg in [Config::default_cfg(), Config::jit_off()] {
        for it in &b.items {
            check_single(&mut ws, &cfg, it, None, false)?;
            check_single(&mut ws, &cfg, it, None, true)?;
        }
    }
    Ok(())
}

pub fn run(ctx: &Ctx, replay: Option<&str>) -> i32 {
    ctx.set_rule(
        "proptest generates (operator, 1-4 operands, syntactic shape); operands from small ints, 2^k±{0,1,2} for k in \
         {31,32,52,53,62,63,64,65}, bignums to 2^192, small/boundary/huge ratios, doubles incl. ±0.0, subnormals, 2^53, \
         2^63, ±inf, NaN; each is run with the JIT on and off, entered as top-level text and as the body of a required \
         module (where the specialised arithmetic opcodes are emitted). An evaluation is one (item, configuration, entry). Non-trivial = an \
         operand or the exact result is non-integral or outside [-2^62, 2^62], or the tuple mixes exact and inexact; \
         distinct by (op, shape, operands).",
    );
    ctx.assume("the reference arithmetic (num-bigint / num-rational / Rust f64) is correct");
    ctx.assume("exact->double conversion inside mixed operations may be correctly rounded or numerator/denominator-wise: both accepted");
    FLOAT_DIV_KNOWN.store(ctx.is_known_active("KF-C10-float-division"), std::sync::atomic::Ordering::Relaxed);
    if let Some(path) = replay {
        let Some(rf) = load_replay::<Batch>(std::path::Path::new(path)) else {
            eprintln!("cannot read replay file {}", path);
            return 2;
        };
        return match rerun(&rf.case) {
            Ok(()) => {
                println!("replay {}: property holds", path);
                0
            }
            Err(f) => {
                println!("VIOLATION property={} replay={}", ctx.prop, path);
                println!("  sig: {}\n{}", f.sig, f.detail);
                1
            }
        };
    }
    // regression / known-finding replays are judged strictly (without the tolerance above)
    FLOAT_DIV_KNOWN.store(false, std::sync::atomic::Ordering::Relaxed);
    replay_tier::<Batch>(ctx, "arith", &mut |b| rerun(b));
    FLOAT_DIV_KNOWN.store(ctx.is_known_active("KF-C10-float-division"), std::sync::atomic::Ordering::Relaxed);
    let batches = ctx.n(12_000, 400_000);
    let strat = || prop::collection::vec(item(), 1..=32).prop_map(|items| Batch { items });
    let fails = run_prop(ctx, "arith", strat, batches, |ws, b, counting| {
        check_batch(ctx, ws, b, counting)
    });
    report_failures(ctx, "arith", fails);
    ctx.finish()
}
