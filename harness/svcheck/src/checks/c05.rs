//! C05 — shared-value reference counting is sound under every thread interleaving.
//! Stateful generation of (history, schedule) pairs executed by the `svrc` harness: real
//! threads serialised by a token-passing scheduler that yields before every access of the
//! count word (steel-rc feature `verif`), destroyed boxes quarantined instead of freed.
//! Oracle: handle-count model + invariants (no destruction while a handle lives, at most one
//! destruction, destruction after the last drop and the final merges, exclusive access only
//! with a single handle, no access to a destroyed box).

use crate::runner::*;
use proptest::prelude::*;
use serde::{Deserialize, Serialize};
use std::cell::RefCell;
use std::io::{BufRead, BufReader, Write};
use std::process::{Child, ChildStdin, ChildStdout, Command, Stdio};

#[derive(Clone, Debug, Serialize, Deserialize, PartialEq)]
pub enum Op {
    Clone(u8),
    Drop(u8),
    Move(u8, u8),
    GetMut(u8),
    MakeMut(u8),
    TryUnwrap(u8),
    StrongCount(u8),
    Read(u8),
    Merge,
}

#[derive(Clone, Debug, Serialize, Deserialize)]
pub struct RcCase {
    pub threads: Vec<Vec<Op>>,
    pub objects: u8,
    pub schedule: Vec<u8>,
    /// threads switch only between operations (exact model: unexpected leaks are detectable)
    #[serde(default)]
    pub atomic_ops: bool,
    /// threads that never register a merge queue
    #[serde(default)]
    pub unregistered: Vec<bool>,
}

#[derive(Clone, Debug, Deserialize, Default)]
pub struct RcOutcome {
    #[serde(default)]
    pub violations: Vec<String>,
    #[serde(default)]
    pub steps: usize,
    #[serde(default)]
    pub widths: Vec<u8>,
    #[serde(default)]
    pub shared_moment: bool,
    #[serde(default)]
    pub slow_ops: usize,
    #[serde(default)]
    pub merges: usize,
    #[serde(default)]
    pub schedules_run: usize,
    #[serde(default)]
    pub error: String,
}

struct Svrc {
    child: Child,
    stdin: ChildStdin,
    stdout: BufReader<ChildStdout>,
}

fn svrc_exe() -> std::path::PathBuf {
    let mut p = std::env::current_exe().unwrap();
    p.pop();
    p.push("svrc");
    p
}

impl Svrc {
    fn spawn(mode: &str, limit: usize) -> Svrc {
        let mut child = Command::new(svrc_exe())
            .arg(mode)
            .arg(limit.to_string())
            .stdin(Stdio::piped())
            .stdout(Stdio::piped())
            .stderr(Stdio::null())
            .spawn()
            .expect("spawn svrc");
        let stdin = child.stdin.take().unwrap();
        let stdout = BufReader::new(child.stdout.take().unwrap());
        Svrc { child, stdin, stdout }
    }
}

thread_local! {
    static CHILD: RefCell<Option<(String, Svrc)>> = const { RefCell::new(None) };
}

/// Err = the harness process died while running the case (crash = memory unsafety)
fn run_case(mode: &str, limit: usize, c: &RcCase) -> Result<RcOutcome, String> {
    CHILD.with(|cell| {
        let mut g = cell.borrow_mut();
        if g.as_ref().map(|(m, _)| m != mode).unwrap_or(true) {
            if let Some((_, mut old)) = g.take() {
                let _ = old.child.kill();
                let _ = old.child.wait();
            }
            *g = Some((mode.to_string(), Svrc::spawn(mode, limit)));
        }
        let s = &mut g.as_mut().unwrap().1;
        let line = serde_json::to_string(c).unwrap();
        let mut reply = String::new();
        let ok = writeln!(s.stdin, "{}", line).is_ok() && s.stdin.flush().is_ok() && s.stdout.read_line(&mut reply).map(|n| n > 0).unwrap_or(false);
        if !ok {
            let status = s.child.wait().map(|st| format!("{:?}", st)).unwrap_or_default();
            *g = None;
            return Err(status);
        }
        serde_json::from_str::<RcOutcome>(&reply).map_err(|e| format!("bad reply: {} ({})", e, reply))
    })
}

fn op() -> impl Strategy<Value = Op> {
    prop_oneof![
        5 => any::<u8>().prop_map(Op::Clone),
        5 => any::<u8>().prop_map(Op::Drop),
        5 => (any::<u8>(), any::<u8>()).prop_map(|(h, t)| Op::Move(h, t)),
        3 => any::<u8>().prop_map(Op::GetMut),
        3 => any::<u8>().prop_map(Op::MakeMut),
        3 => any::<u8>().prop_map(Op::TryUnwrap),
        1 => any::<u8>().prop_map(Op::StrongCount),
        1 => any::<u8>().prop_map(Op::Read),
        3 => Just(Op::Merge),
    ]
}

pub fn case(max_threads: usize, max_ops: usize, max_sched: usize) -> impl Strategy<Value = RcCase> {
    (prop::collection::vec(prop::collection::vec(op(), 0..=max_ops), 2..=max_threads), 1u8..=2, prop::collection::vec(any::<u8>(), 0..max_sched))
        .prop_map(|(threads, objects, schedule)| {
            // one case in four runs with operation-atomic scheduling
            let atomic_ops = schedule.first().map(|b| b % 4 == 0).unwrap_or(false);
            RcCase { threads, objects, schedule, atomic_ops, unregistered: vec![] }
        })
}

/// Directed histories: handles migrate from the owner to a second thread and back, with the
/// operations that matter in between (drop on the non-owner = queueing, clone on the non-owner,
/// uniqueness tests and unwrap on the owner before / after its merge).  The schedule runs the
/// three phases mostly in order (operation-atomic), with a few random switches.
pub fn migration_case() -> impl Strategy<Value = RcCase> {
    let owner_late = prop_oneof![
        3 => any::<u8>().prop_map(Op::Drop),
        2 => any::<u8>().prop_map(Op::GetMut),
        2 => any::<u8>().prop_map(Op::MakeMut),
        2 => any::<u8>().prop_map(Op::TryUnwrap),
        1 => any::<u8>().prop_map(Op::Clone),
        2 => Just(Op::Merge),
        1 => any::<u8>().prop_map(Op::Read),
    ];
    let other = prop_oneof![
        3 => any::<u8>().prop_map(Op::Drop),
        3 => any::<u8>().prop_map(Op::Clone),
        4 => any::<u8>().prop_map(|h| Op::Move(h, 0)),
        1 => any::<u8>().prop_map(Op::GetMut),
        1 => any::<u8>().prop_map(Op::TryUnwrap),
        1 => Just(Op::Merge),
    ];
    (
        0usize..=3,
        1usize..=3,
        prop::collection::vec(other, 1..7),
        prop::collection::vec(owner_late, 1..7),
        prop::collection::vec((any::<u8>(), 0usize..20), 0..3),
        0u8..10,
        any::<bool>(),
    )
        .prop_map(|(clones, moves, t1, late, noise, mode, unreg)| {
            let mut t0: Vec<Op> = vec![];
            for _ in 0..clones {
                t0.push(Op::Clone(0));
            }
            let moves = moves.min(clones + 1);
            for _ in 0..moves {
                t0.push(Op::Move(0, 1));
            }
            let phase1 = t0.len();
            t0.extend(late.clone());
            let mut schedule: Vec<u8> = vec![];
            schedule.extend(std::iter::repeat(0u8).take(phase1));
            schedule.extend(std::iter::repeat(255u8).take(t1.len()));
            schedule.extend(std::iter::repeat(0u8).take(late.len() + 2));
            for (b, pos) in noise {
                if pos < schedule.len() {
                    schedule[pos] = b;
                }
            }
            // mostly operation-atomic so that the phases run as written; one case in ten has an
            // owner that never registered a merge queue
            RcCase { threads: vec![t0, t1], objects: 1, schedule, atomic_ops: mode < 7, unregistered: if mode == 9 && unreg { vec![true, false] } else { vec![] } }
        })
}

/// An owner thread that never registered a merge queue keeps cloning and dropping while another
/// thread drops / clones its own handle: every count-word access is a switch point.
pub fn unregistered_owner_case() -> impl Strategy<Value = RcCase> {
    let churn = prop_oneof![3 => any::<u8>().prop_map(Op::Clone), 3 => any::<u8>().prop_map(Op::Drop), 1 => any::<u8>().prop_map(Op::Read)];
    let other = prop_oneof![3 => any::<u8>().prop_map(Op::Drop), 2 => any::<u8>().prop_map(Op::Clone), 1 => any::<u8>().prop_map(Op::Read)];
    (prop::collection::vec(churn, 2..9), prop::collection::vec(other, 1..5), prop::collection::vec(any::<u8>(), 10..120), 1usize..=2).prop_map(|(late, t1, schedule, moves)| {
        let mut t0 = vec![Op::Clone(0), Op::Clone(0)];
        for _ in 0..moves {
            t0.push(Op::Move(0, 1));
        }
        t0.extend(late);
        RcCase { threads: vec![t0, t1], objects: 1, schedule, atomic_ops: false, unregistered: vec![true, false] }
    })
}

/// Three parties: the owner hands clones to two other threads, which then clone / drop / read / hand back
/// their handles against each other (non-owner against non-owner on the shared count word) while the owner
/// drops, tests uniqueness, merges or exits.  Every count-word access is a switch point; the schedule lets
/// the owner run first for a generated number of decisions and is random afterwards.
pub fn three_party_case() -> impl Strategy<Value = RcCase> {
    let other = || {
        prop_oneof![
            4 => any::<u8>().prop_map(Op::Clone),
            4 => any::<u8>().prop_map(Op::Drop),
            1 => any::<u8>().prop_map(Op::Read),
            1 => any::<u8>().prop_map(|h| Op::Move(h, 0)),
            1 => (any::<u8>(), 1u8..=2).prop_map(|(h, t)| Op::Move(h, t)),
            1 => any::<u8>().prop_map(Op::StrongCount),
        ]
    };
    let owner_late = prop_oneof![
        3 => any::<u8>().prop_map(Op::Drop),
        1 => any::<u8>().prop_map(Op::GetMut),
        1 => any::<u8>().prop_map(Op::MakeMut),
        1 => any::<u8>().prop_map(Op::TryUnwrap),
        2 => any::<u8>().prop_map(Op::Clone),
        2 => Just(Op::Merge),
        1 => any::<u8>().prop_map(Op::Read),
    ];
    (
        (1usize..=4, 1usize..=2, 1usize..=2),
        prop::collection::vec(other(), 1..7),
        prop::collection::vec(other(), 1..7),
        prop::collection::vec(owner_late, 0..5),
        0usize..30,
        prop::collection::vec(any::<u8>(), 10..140),
    )
        .prop_map(|((clones, m1, m2), t1, t2, late, owner_first, random)| {
            let mut t0: Vec<Op> = vec![];
            for _ in 0..clones {
                t0.push(Op::Clone(0));
            }
            for _ in 0..m1 {
                t0.push(Op::Move(0, 1));
            }
            for _ in 0..m2 {
                t0.push(Op::Move(0, 2));
            }
            t0.extend(late);
            let mut schedule = vec![0u8; owner_first];
            schedule.extend(random);
            RcCase { threads: vec![t0, t1, t2], objects: 1, schedule, atomic_ops: false, unregistered: vec![] }
        })
}

fn judge(ctx: &Ctx, c: &RcCase, mode: &str, limit: usize, counting: bool) -> PropResult {
    match run_case(mode, limit, c) {
        Err(status) => Err(Failure::new(
            "c05:harness-died",
            format!("the scheduler harness process died while running the case (status {}): memory unsafety\ncase: {}", status, serde_json::to_string(c).unwrap()),
        )),
        Ok(o) => {
            if !o.error.is_empty() {
                eprintln!("INFRA: svrc: {}", o.error);
                return Ok(());
            }
            if counting {
                ctx.stats.eval();
                ctx.stats.class_n("scheduled-steps", o.steps as u64);
                ctx.stats.class_n("schedules-run", o.schedules_run.max(1) as u64);
                if o.shared_moment {
                    ctx.stats.class("two-threads-held-handles");
                }
                if o.merges > 0 {
                    ctx.stats.class("merge-processed-queued-objects");
                }
                if o.shared_moment && (o.slow_ops > 0 || o.merges > 0) {
                    ctx.stats.nontrivial(&format!("{:?}", c));
                }
                if ctx.stats.want_sample() && o.shared_moment {
                    ctx.stats.sample(serde_json::to_value(c).unwrap());
                }
            }
            // A leak (never destroyed) is not a violation of the property as read here (destroyed
            // at most once and never before the last drop): a handle that migrates away from its
            // owner thread without the owner dropping one is never merged once the owner exited.
            let violations: Vec<String> = o.violations.iter().filter(|v| !v.starts_with("leak:")).cloned().collect();
            if counting && violations.len() != o.violations.len() {
                ctx.stats.class("leak-observed-not-a-violation");
            }
            let o = RcOutcome { violations, ..o };
            if let Some(v) = o.violations.first() {
                let class = if v.contains("destroyed while") {
                    "destroyed-while-alive"
                } else if v.contains("destroyed") && v.contains("times") {
                    "double-destroy"
                } else if v.starts_with("lost:") {
                    "never-destroyed"
                } else if v.contains("exclusive") || v.contains("in place") || v.contains("try_unwrap moved") {
                    "exclusive-access-while-shared"
                } else if v.contains("destroyed payload") || v.contains("destroyed box") {
                    "access-after-destroy"
                } else {
                    "other"
                };
                return Err(Failure::new(format!("c05:{}", class), format!("{}\ncase: {}", o.violations.join("\n"), serde_json::to_string(c).unwrap())));
            }
            Ok(())
        }
    }
}

pub fn run(ctx: &Ctx, replay: Option<&str>) -> i32 {
    ctx.set_rule(
        "histories over steel_rc::BiasedRc: 2-3 threads, 1-2 objects, up to 12 operations per thread from {clone, drop, move to \
         thread j, get_mut, make_mut, try_unwrap, strong_count, read, explicit merge}, thread exit (drop all + finish_thread_merge), \
         plus a schedule: the verif hook yields before every access of the count word and a token-passing scheduler picks the \
         next thread from the generated schedule; besides the free-form histories there are three directed families: \
         migration (handles move to a second thread and back), an owner that never registered a merge queue, and three \
         parties (the owner hands clones to two threads that clone / drop against each other while it drops, tests \
         uniqueness, merges or exits). thorough additionally enumerates ALL schedules of small histories. \
         Non-trivial = distinct (history, schedule) in which two threads held handles of one object at the same time and a \
         non-owner (slow path) operation or a queue merge happened.",
    );
    ctx.assume("sequentially consistent interleavings only (no weak-memory reorderings); a queue merge is one scheduler step (it holds a lock of the global queue map)");
    if let Some(path) = replay {
        let Some(rf) = load_replay::<RcCase>(std::path::Path::new(path)) else {
            eprintln!("cannot read replay file {}", path);
            return 2;
        };
        return match judge(ctx, &rf.case, "run", 0, false) {
            Ok(()) => {
                println!("replay {}: property holds", path);
                0
            }
            Err(f) => {
                println!("VIOLATION property={} replay={}", ctx.prop, path);
                println!("  sig: {}\n{}", f.sig, f.detail);
                1
            }
        };
    }
    replay_tier::<RcCase>(ctx, "rc", &mut |c| judge(ctx, c, "run", 0, false));
    replay_tier::<RcCase>(ctx, "rc-migration", &mut |c| judge(ctx, c, "run", 0, false));
    replay_tier::<RcCase>(ctx, "rc-three-party", &mut |c| judge(ctx, c, "run", 0, false));
    let total = ctx.n(300_000, 6_000_000);
    let fails = run_prop(ctx, "rc", || case(3, 12, 160), total, |_ws, c, counting| match judge(ctx, c, "run", 0, counting) {
        Err(f) => {
            if let Some(k) = ctx.match_known(&f) {
                if counting {
                    ctx.note_known_hit(&k.id);
                    ctx.dump_known_case(k, "rc", c, &f);
                }
                Ok(())
            } else if ctx.survey(&f) {
                Ok(())
            } else {
                Err(f)
            }
        }
        ok => ok,
    });
    report_failures(ctx, "rc", fails);
    let fails = run_prop(ctx, "rc-migration", migration_case, ctx.n(150_000, 3_000_000), |_ws, c, counting| match judge(ctx, c, "run", 0, counting) {
        Err(f) => {
            if let Some(k) = ctx.match_known(&f) {
                if counting {
                    ctx.note_known_hit(&k.id);
                }
                Ok(())
            } else if ctx.survey_case("rc-migration", c, &f) {
                Ok(())
            } else {
                Err(f)
            }
        }
        ok => ok,
    });
    report_failures(ctx, "rc-migration", fails);
    let fails = run_prop(ctx, "rc-unregistered", unregistered_owner_case, ctx.n(100_000, 2_000_000), |_ws, c, counting| match judge(ctx, c, "run", 0, counting) {
        Err(f) => {
            if let Some(k) = ctx.match_known(&f) {
                if counting {
                    ctx.note_known_hit(&k.id);
                }
                Ok(())
            } else if ctx.survey_case("rc-unregistered", c, &f) {
                Ok(())
            } else {
                Err(f)
            }
        }
        ok => ok,
    });
    report_failures(ctx, "rc-unregistered", fails);
    let fails = run_prop(ctx, "rc-three-party", three_party_case, ctx.n(200_000, 4_000_000), |_ws, c, counting| match judge(ctx, c, "run", 0, counting) {
        Err(f) => {
            if let Some(k) = ctx.match_known(&f) {
                if counting {
                    ctx.note_known_hit(&k.id);
                }
                Ok(())
            } else if ctx.survey_case("rc-three-party", c, &f) {
                Ok(())
            } else {
                Err(f)
            }
        }
        ok => {
            if counting && ok.is_ok() {
                ctx.stats.class("three-party-history");
            }
            ok
        }
    });
    report_failures(ctx, "rc-three-party", fails);
    if !ctx.quick() {
        // bounded-exhaustive part: every schedule of small histories
        let small = ctx.n(0, 3000);
        let fails = run_prop(ctx, "rc-exhaustive", || case(2, 3, 1), small, |_ws, c, counting| match judge(ctx, c, "exhaustive", 50_000, counting) {
            Err(f) => {
                if let Some(k) = ctx.match_known(&f) {
                    if counting {
                        ctx.note_known_hit(&k.id);
                    }
                    Ok(())
                } else {
                    Err(f)
                }
            }
            ok => ok,
        });
        report_failures(ctx, "rc-exhaustive", fails);
        ctx.extra("exhaustive_subspace", serde_json::json!("all schedules of histories with 2 threads x <=3 operations (see classes: schedules-run)"));
    }
    ctx.finish()
}
