//! C04 — the collector never reclaims or overwrites reachable mutable storage.
//! Generated programs rich in boxes, mutable vectors, assigned captured variables and closures,
//! executed with the gc-stress hook (a full collection at every N-th allocation) and with
//! explicit collection requests sprinkled into expression positions.
//! Oracles: (a) the reference interpreter (which has no collector); (b) the stale-handle hook
//! (a user level access through a handle whose slot is free) and the free-list accounting check
//! must stay at zero.

use crate::checks::c01::{self, ProgCase};
use crate::progcheck::*;
use crate::runner::*;
use crate::worker::{Config, Workers};
use proptest::prelude::*;
use svmodel::ast::*;
use svmodel::gen::GenOpts;
use svproto::*;

pub fn opts(avoid: Vec<String>) -> GenOpts {
    GenOpts { winds: false, heap: true, gc_points: true, errors: true, avoid, ..GenOpts::default() }
}

const PERIODS: &[u64] = &[1, 1, 2, 3, 5, 17];

pub fn check_case(ctx: &Ctx, ws: &mut Workers, c: &ProgCase, counting: bool, strict: bool) -> PropResult {
    let Some(m) = model_run(&c.program) else {
        if counting {
            ctx.stats.class("outside-model-domain");
        }
        return Ok(());
    };
    let n = PERIODS[(hash_str(&c.text) % PERIODS.len() as u64) as usize];
    let pre = vec![Step::GcStress { n }];
    let mut collections = 0i64;
    for cfg in [Config::jit_off(), Config::default_cfg()] {
        for entry in [Entry::Repl, Entry::Module] {
            let jit_on = cfg.0.is_empty();
            if jit_on
                && entry == Entry::Module
                && m.trace.get("raise-under-higher-order-builtin").copied().unwrap_or(0) > 0
                && ctx.is_known_active(c01::KF_SWALLOW)
                && !strict
            {
                if counting {
                    ctx.stats.excluded(c01::KF_SWALLOW);
                }
                continue;
            }
            let (v, hooks) = check_program_hooks("c04", ws, &cfg, &c.program, &m.result, &pre, entry);
            ctx.stats.engine_runs.fetch_add(1, std::sync::atomic::Ordering::Relaxed);
            match v {
                RunVerdict::Inconclusive => {
                    if counting {
                        ctx.stats.inconclusive.fetch_add(1, std::sync::atomic::Ordering::Relaxed);
                    }
                }
                RunVerdict::Done(Err(f)) => {
                    // is the failure caused by the collector?  Re-run without stress.
                    let (v2, _) = check_program_hooks("c04", ws, &cfg, &c.program, &m.result, &[], entry);
                    let sub = f.sig.split_once(':').map(|x| x.1).unwrap_or(&f.sig).to_string();
                    return match v2 {
                        RunVerdict::Done(Ok(())) => Err(Failure::new(
                            format!("c04:gc:{}", sub),
                            format!("gc-stress period {} (the same program agrees with the reference without forced collections)\n{}", n, f.detail),
                        )),
                        // fails without the collector too: not a C04 matter (C01 / C02)
                        _ => Err(Failure::new(format!("c04:nogc:{}{}", if jit_on { "jitdiv:" } else { "" }, sub), f.detail)),
                    };
                }
                RunVerdict::Done(Ok(())) => {
                    collections = collections.max(hooks.get("full_collections").copied().unwrap_or(0));
                }
            }
        }
    }
    if counting {
        ctx.stats.eval();
        ctx.stats.class(&format!("stress-period-{}", n));
        for f in &c.features {
            if ["set-box!", "vector-set!", "closure-over-assigned-variable", "gc-point", "call/cc", "with-handler", "assignment-cluster"].contains(&f.as_str()) {
                ctx.stats.class(&format!("feature:{}", f));
            }
        }
        ctx.stats.class_n("full-collections-observed", collections as u64);
        let heapy = c.features.iter().any(|f| ["set-box!", "vector-set!", "closure-over-assigned-variable", "assignment-cluster"].contains(&f.as_str()));
        if collections >= 1 && heapy {
            ctx.stats.nontrivial(&c.text);
        }
        if ctx.stats.want_sample() && heapy && c.text.len() > 100 {
            ctx.stats.sample(serde_json::json!({"program": c.text, "gc_stress_period": n, "full_collections": collections}));
        }
    }
    Ok(())
}

pub fn run(ctx: &Ctx, replay: Option<&str>) -> i32 {
    ctx.set_rule(
        "the C01 program generator biased to boxes, mutable vectors, assigned captured variables, counters, call/cc and handlers, \
         with (#%gc-collect) sprinkled into expression positions; every program runs with the gc-stress hook (full collection at \
         every N-th allocation, N in {1,2,3,5,17} chosen per program), JIT on and off, as top-level text and as a module, and is \
         compared with the reference interpreter; the stale-handle and free-list accounting hooks must read zero. Non-trivial = \
         distinct program with a mutated heap object (set-box!, vector-set!, assigned captured variable) during which at least \
         one full collection ran.",
    );
    ctx.assume("hooks: gc-stress forces collections that are legal at any allocation; stale-handle detection is only evaluated outside collections");
    if let Some(path) = replay {
        let Some(rf) = load_replay::<ProgCase>(std::path::Path::new(path)) else {
            eprintln!("cannot read replay file {}", path);
            return 2;
        };
        let mut ws = Workers::new();
        let mut c = rf.case;
        c.text = render_program(&c.program);
        return match check_case(ctx, &mut ws, &c, false, true) {
            Ok(()) => {
                println!("replay {}: property holds", path);
                0
            }
            Err(f) => {
                println!("VIOLATION property={} replay={}", ctx.prop, path);
                println!("  sig: {}\n{}", f.sig, f.detail);
                1
            }
        };
    }
    {
        let mut ws = Workers::new();
        replay_tier::<ProgCase>(ctx, "prog", &mut |c| {
            let mut c = c.clone();
            c.text = render_program(&c.program);
            check_case(ctx, &mut ws, &c, false, true)
        });
    }
    let total = ctx.n(3000, 100_000);
    let avoid = c01::avoid_list(ctx);
    let fails = run_prop(
        ctx,
        "prog",
        || {
            let avoid = avoid.clone();
            c01::choices(400).prop_map(move |d| c01::case_from_choices(&d, opts(avoid.clone())))
        },
        total,
        |ws, c, counting| match check_case(ctx, ws, c, counting, false) {
            Err(f) => {
                // failures that do not involve the collector belong to C01 / C02: counted only
                if f.sig.starts_with("c04:nogc:") {
                    if counting {
                        ctx.stats.class("non-gc-failure-attributed-to-C01-C02");
                    }
                    return Ok(());
                }
                if let Some(k) = ctx.match_known(&f) {
                    if counting {
                        ctx.note_known_hit(&k.id);
                        ctx.dump_known_case(k, "prog", c, &f);
                    }
                    Ok(())
                } else if ctx.survey(&f) {
                    Ok(())
                } else {
                    Err(f)
                }
            }
            ok => ok,
        },
    );
    let mut ws = Workers::new();
    let fails: Vec<(ProgCase, Failure)> = fails
        .into_iter()
        .map(|(c, f)| {
            let mut last = f.clone();
            let reduced = svmodel::shrink::reduce(&c.program, 800, &mut |p| {
                let cand = ProgCase { program: p.clone(), text: render_program(p), features: vec![], excluded: vec![] };
                match check_case(ctx, &mut ws, &cand, false, false) {
                    Err(g) if g.sig == f.sig => {
                        last = g;
                        true
                    }
                    _ => false,
                }
            });
            let text = render_program(&reduced);
            (ProgCase { program: reduced, text, features: c.features.clone(), excluded: vec![] }, last)
        })
        .collect();
    report_failures(ctx, "prog", fails);
    ctx.finish()
}
