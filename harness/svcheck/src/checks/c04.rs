//! C04 — the collector never reclaims or overwrites reachable mutable storage.
//! Generated programs rich in boxes, mutable vectors, assigned captured variables and closures,
//! executed with the gc-stress hook (a full collection at every N-th allocation) and with
//! explicit collection requests sprinkled into expression positions.
//! Oracles: (a) the reference interpreter (which has no collector); (b) the stale-handle hook
//! (a user level access through a handle whose slot is free) and the free-list accounting check
//! must stay at zero.

use crate::checks::c01::{self, ProgCase};
use crate::progcheck::*;
use crate::runner::*;
use crate::worker::{Config, Workers};
use proptest::prelude::*;
use svmodel::ast::*;
use svmodel::gen::GenOpts;
use svproto::*;

pub fn opts(avoid: Vec<String>) -> GenOpts {
    GenOpts { winds: false, reentry: true, heap: true, gc_points: true, errors: true, avoid, ..GenOpts::default() }
}

const PERIODS: &[u64] = &[1, 1, 2, 3, 5, 17];

pub fn check_case(ctx: &Ctx, ws: &mut Workers, c: &ProgCase, counting: bool, strict: bool) -> PropResult {
    let Some(m) = model_run(&c.program) else {
        if counting {
            ctx.stats.class("outside-model-domain");
        }
        return Ok(());
    };
    let n = PERIODS[(hash_str(&c.text) % PERIODS.len() as u64) as usize];
    let pre = vec![Step::GcStress { n }];
    let mut collections = 0i64;
    for cfg in [Config::jit_off(), Config::default_cfg()] {
        for entry in [Entry::Repl, Entry::Module] {
            let jit_on = cfg.0.is_empty();
            if jit_on
                && entry == Entry::Module
                && m.trace.get("raise-under-higher-order-builtin").copied().unwrap_or(0) > 0
                && ctx.is_known_active(c01::KF_SWALLOW)
                && !strict
            {
                if counting {
                    ctx.stats.excluded(c01::KF_SWALLOW);
                }
                continue;
            }
            let (v, hooks) = check_program_hooks("c04", ws, &cfg, &c.program, &m.result, &pre, entry);
            ctx.stats.engine_runs.fetch_add(1, std::sync::atomic::Ordering::Relaxed);
            match v {
                RunVerdict::Inconclusive => {
                    if counting {
                        ctx.stats.inconclusive.fetch_add(1, std::sync::atomic::Ordering::Relaxed);
                    }
                }
                RunVerdict::Done(Err(f)) => {
                    // is the failure caused by the collector?  Re-run without forced collections and with the
                    // explicit collection requests taken out (programs of this size never collect on their own).
                    STRIP_GC_POINTS.with(|s| s.set(true));
                    let (v2, _) = check_program_hooks("c04", ws, &cfg, &c.program, &m.result, &[], entry);
                    STRIP_GC_POINTS.with(|s| s.set(false));
                    let sub = f.sig.split_once(':').map(|x| x.1).unwrap_or(&f.sig).to_string();
                    return match v2 {
                        RunVerdict::Done(Ok(())) => Err(Failure::new(
                            format!("c04:gc:{}", sub),
                            format!("gc-stress period {} (the same program agrees with the reference without forced and without requested collections)\n{}", n, f.detail),
                        )),
                        // fails without the collector too: not a C04 matter (C01 / C02)
                        _ => Err(Failure::new(format!("c04:nogc:{}{}", if jit_on { "jitdiv:" } else { "" }, sub), f.detail)),
                    };
                }
                RunVerdict::Done(Ok(())) => {
                    collections = collections.max(hooks.get("full_collections").copied().unwrap_or(0));
                }
            }
        }
    }
    if counting {
        ctx.stats.eval();
        ctx.stats.class(&format!("stress-period-{}", n));
        for f in &c.features {
            if ["set-box!", "vector-set!", "closure-over-assigned-variable", "gc-point", "call/cc", "with-handler", "assignment-cluster", "continuation-reentry", "reentry-into-closure-instance-recursion", "reentry-into-map", "capture-in-argument-position"].contains(&f.as_str()) {
                ctx.stats.class(&format!("feature:{}", f));
            }
        }
        ctx.stats.class_n("full-collections-observed", collections as u64);
        let heapy = c.features.iter().any(|f| ["set-box!", "vector-set!", "closure-over-assigned-variable", "assignment-cluster"].contains(&f.as_str()));
        if collections >= 1 && heapy {
            ctx.stats.nontrivial(&c.text);
        }
        if ctx.stats.want_sample() && heapy && c.text.len() > 100 {
            ctx.stats.sample(serde_json::json!({"program": c.text, "gc_stress_period": n, "full_collections": collections}));
        }
    }
    Ok(())
}

// ---------------------------------------------------------------------------------------
// object-graph histories

#[derive(Clone, Debug, serde::Serialize, serde::Deserialize)]
pub struct GraphCase {
    /// gc-stress period (0 = only natural and requested collections)
    pub period: u64,
    pub script: svmodel::graph::Script,
}

pub fn graph_case(data: &[u16], period: u64, max_ops: usize) -> GraphCase {
    GraphCase { period, script: svmodel::graph::generate(data, period != 0, period == 0, if period != 0 && period < 7 { max_ops.min(14) } else { max_ops }) }
}

fn graph_text(c: &GraphCase, upto: usize) -> String {
    let mut s = format!(";; gc-stress period {}\n", c.period);
    for (i, p) in c.script.pieces.iter().enumerate().skip(1) {
        if i > upto {
            break;
        }
        s.push_str(&format!(";; piece {}\n{}\n", i, p.src));
    }
    s
}

pub fn check_graph(ctx: &Ctx, ws: &mut Workers, c: &GraphCase, counting: bool, tag: &str) -> PropResult {
    let mut off_ok = false;
    let mut collections = 0i64;
    for cfg in [Config::jit_off(), Config::default_cfg()] {
        let jit_on = cfg.0.is_empty();
        // the stress hook is switched on after the prelude (piece 0)
        let mut steps = vec![];
        let mut index = vec![];
        for (i, p) in c.script.pieces.iter().enumerate() {
            index.push(steps.len());
            steps.push(Step::Eval { src: p.src.clone() });
            if i == 0 && c.period > 0 {
                steps.push(Step::GcStress { n: c.period });
            }
        }
        let mut case = Case::new(steps);
        case.timeout_ms = 30_000;
        let r = ws.run(&cfg, &case);
        ctx.stats.engine_runs.fetch_add(1, std::sync::atomic::Ordering::Relaxed);
        let fail = |kind: &str, upto: usize, msg: String| -> PropResult {
            let kind = if jit_on && off_ok { format!("jitdiv:{}", kind) } else { kind.to_string() };
            Err(Failure::new(format!("{}:graph:{}", tag, kind), format!("config: {}\n{}\n{}", cfg.label(), msg, graph_text(c, upto))))
        };
        match r.end {
            End::Done => {}
            End::Watchdog | End::Oom => {
                if counting {
                    ctx.stats.inconclusive.fetch_add(1, std::sync::atomic::Ordering::Relaxed);
                }
                // without a verdict for the interpreter a JIT failure could not be classified
                return Ok(());
            }
            End::Signal(s) => return fail("signal", usize::MAX, format!("engine process died with signal {}\nstderr: {}", s, r.stderr_tail)),
            End::Exit(x) => return fail("exit", usize::MAX, format!("engine process exited with status {}", x)),
        }
        for (i, p) in c.script.pieces.iter().enumerate() {
            let Some(st) = r.steps.get(index[i]) else {
                return fail("missing-step", i, format!("piece {} was not executed", i));
            };
            match st.outcome {
                Outcome::Ok => {}
                Outcome::Err => return fail("unexpected-error", i, format!("piece {} raised {}: {}", i, st.err_kind, st.err_msg)),
                Outcome::Panic => return fail("panic", i, format!("piece {} panicked: {}", i, st.err_msg)),
            }
            if let Some(exp) = &p.expect {
                let got = st.values.iter().rev().find(|v| *v != "#void").cloned().unwrap_or_default();
                if got != *exp {
                    return fail("wrong-contents", i, format!("piece {} (dump of the roots)\nexpected: {}\nactual:   {}", i, exp, got));
                }
            }
        }
        if let Some(st) = r.steps.last() {
            let stale = st.hooks.get("stale_accesses").copied().unwrap_or(0);
            let acct = st.hooks.get("accounting_errors").copied().unwrap_or(0);
            collections = collections.max(st.hooks.get("full_collections").copied().unwrap_or(0));
            if stale != 0 {
                return fail("stale-handle", usize::MAX, format!("accesses through a handle whose slot is free: {}", stale));
            }
            if acct != 0 {
                return fail("heap-accounting", usize::MAX, format!("free-list accounting errors after a full collection: {}", acct));
            }
        }
        if !jit_on {
            off_ok = true;
        }
    }
    if counting {
        let s = &c.script.stats;
        ctx.stats.eval();
        ctx.stats.class(&format!("graph:stress-period-{}", c.period));
        ctx.stats.class_n("graph:full-collections-observed", collections as u64);
        ctx.stats.class_n("graph:mutations", s.mutations as u64);
        ctx.stats.class_n("graph:mutations-after-a-collection", s.mutation_after_collection as u64);
        ctx.stats.class_n("graph:shared-inserts", s.shared_inserts as u64);
        ctx.stats.class_n("graph:root-drops", s.drops as u64);
        ctx.stats.class_n("graph:root-aliases", s.aliases as u64);
        ctx.stats.class_n("graph:held-by-local-or-operand-only", s.local_holds as u64);
        ctx.stats.class_n("graph:held-by-continuation-only", s.cont_holds as u64);
        ctx.stats.class_n("graph:checks", s.checks as u64);
        for e in &s.edges {
            ctx.stats.class(&format!("graph:edge:{}", e));
        }
        if collections >= 1 && s.mutations + s.local_holds + s.cont_holds >= 1 && s.checks >= 1 {
            ctx.stats.nontrivial(&graph_text(c, usize::MAX));
        }
        if ctx.stats.want_sample() && c.script.pieces.len() > 6 {
            ctx.stats.sample(serde_json::json!({"graph_script": graph_text(c, usize::MAX), "full_collections": collections}));
        }
    }
    Ok(())
}

/// drop churn / collection pieces (model neutral) while the failure persists
fn reduce_graph(ctx: &Ctx, ws: &mut Workers, c: &GraphCase, f: &Failure, tag: &str) -> (GraphCase, Failure) {
    let mut cur = c.clone();
    let mut last = f.clone();
    let mut i = 1;
    let mut budget = 80;
    while i < cur.script.pieces.len() && budget > 0 {
        let src = &cur.script.pieces[i].src;
        if src.starts_with("(churn-") || src.starts_with("(#%gc-collect)") {
            let mut cand = cur.clone();
            cand.script.pieces.remove(i);
            budget -= 1;
            match check_graph(ctx, ws, &cand, false, tag) {
                Err(g) if g.sig == f.sig => {
                    cur = cand;
                    last = g;
                    continue;
                }
                _ => {}
            }
        }
        i += 1;
    }
    (cur, last)
}

fn periods() -> Vec<u64> {
    // development aid: VERIF_PERIOD=n pins the gc-stress period
    match std::env::var("VERIF_PERIOD").ok().and_then(|v| v.parse::<u64>().ok()) {
        Some(p) => vec![p],
        None => vec![0u64, 0, 0, 0, 1, 2, 3, 7, 7, 31, 31],
    }
}

pub fn run_graph(ctx: &Ctx, tag: &str, total: u64) {
    {
        let mut ws = Workers::new();
        replay_tier::<GraphCase>(ctx, "graph", &mut |c| check_graph(ctx, &mut ws, c, false, tag));
    }
    let max_ops = if ctx.quick() { 30 } else { 80 };
    let fails = run_prop(
        ctx,
        "graph",
        || (prop::collection::vec(any::<u16>(), 0..900), prop::sample::select(periods())).prop_map(move |(d, period)| graph_case(&d, period, max_ops)),
        total,
        |ws, c, counting| match check_graph(ctx, ws, c, counting, tag) {
            Err(f) => {
                if let Some(k) = ctx.match_known(&f) {
                    if counting {
                        ctx.note_known_hit(&k.id);
                        ctx.dump_known_case(k, "graph", c, &f);
                    }
                    Ok(())
                } else if ctx.survey_case("graph", c, &f) {
                    Ok(())
                } else {
                    Err(f)
                }
            }
            ok => ok,
        },
    );
    let mut ws = Workers::new();
    let fails: Vec<(GraphCase, Failure)> = fails.into_iter().map(|(c, f)| reduce_graph(ctx, &mut ws, &c, &f, tag)).collect();
    report_failures(ctx, "graph", fails);
}

pub fn run(ctx: &Ctx, replay: Option<&str>) -> i32 {
    ctx.set_rule(
        "the C01 program generator biased to boxes, mutable vectors, assigned captured variables, counters, call/cc and handlers, \
         with (#%gc-collect) sprinkled into expression positions; every program runs with the gc-stress hook (full collection at \
         every N-th allocation, N in {1,2,3,5,17} chosen per program), JIT on and off, as top-level text and as a module, and is \
         compared with the reference interpreter; the stale-handle and free-list accounting hooks must read zero. Non-trivial = \
         distinct program with a mutated heap object (set-box!, vector-set!, assigned captured variable) during which at least \
         one full collection ran.",
    );
    ctx.assume("hooks: gc-stress forces collections that are legal at any allocation; stale-handle detection is only evaluated outside collections");
    if let Some(path) = replay {
        if std::path::Path::new(path).file_name().map(|n| n.to_string_lossy().starts_with("graph")).unwrap_or(false) {
            let Some(rf) = load_replay::<GraphCase>(std::path::Path::new(path)) else {
                eprintln!("cannot read replay file {}", path);
                return 2;
            };
            let mut ws = Workers::new();
            return match check_graph(ctx, &mut ws, &rf.case, false, "c04") {
                Ok(()) => {
                    println!("replay {}: property holds", path);
                    0
                }
                Err(f) => {
                    println!("VIOLATION property={} replay={}", ctx.prop, path);
                    println!("  sig: {}\n{}", f.sig, f.detail);
                    1
                }
            };
        }
        let Some(rf) = load_replay::<ProgCase>(std::path::Path::new(path)) else {
            eprintln!("cannot read replay file {}", path);
            return 2;
        };
        let mut ws = Workers::new();
        let mut c = rf.case;
        c.text = render_program(&c.program);
        return match check_case(ctx, &mut ws, &c, false, true) {
            Ok(()) => {
                println!("replay {}: property holds", path);
                0
            }
            Err(f) => {
                println!("VIOLATION property={} replay={}", ctx.prop, path);
                println!("  sig: {}\n{}", f.sig, f.detail);
                1
            }
        };
    }
    {
        let mut ws = Workers::new();
        replay_tier::<ProgCase>(ctx, "prog", &mut |c| {
            let mut c = c.clone();
            c.text = render_program(&c.program);
            check_case(ctx, &mut ws, &c, false, true)
        });
    }
    // development aid: VERIF_SUB=graph runs the object-graph part only
    let only_graph = std::env::var("VERIF_SUB").map(|v| v == "graph").unwrap_or(false);
    let total = if only_graph { 0 } else { ctx.n(3000, 100_000) };
    let avoid = c01::avoid_list(ctx);
    let fails = run_prop(
        ctx,
        "prog",
        || {
            let avoid = avoid.clone();
            c01::choices(400).prop_map(move |d| c01::case_from_choices(&d, opts(avoid.clone())))
        },
        total,
        |ws, c, counting| match check_case(ctx, ws, c, counting, false) {
            Err(f) => {
                // failures that do not involve the collector belong to C01 / C02: counted only
                if f.sig.starts_with("c04:nogc:") {
                    if counting {
                        ctx.stats.class("non-gc-failure-attributed-to-C01-C02");
                    }
                    return Ok(());
                }
                if let Some(k) = ctx.match_known(&f) {
                    if counting {
                        ctx.note_known_hit(&k.id);
                        ctx.dump_known_case(k, "prog", c, &f);
                    }
                    Ok(())
                } else if ctx.survey(&f) {
                    Ok(())
                } else {
                    Err(f)
                }
            }
            ok => ok,
        },
    );
    let mut ws = Workers::new();
    let fails: Vec<(ProgCase, Failure)> = fails
        .into_iter()
        .map(|(c, f)| {
            let mut last = f.clone();
            // the reduction has a wall-clock budget: past it every further candidate is rejected
            let reduce_deadline = std::time::Instant::now() + std::time::Duration::from_secs(if ctx.quick() { 150 } else { 900 });
            let reduced = svmodel::shrink::reduce(&c.program, 800, &mut |p| {
                if std::time::Instant::now() > reduce_deadline {
                    return false;
                }
                let cand = ProgCase { program: p.clone(), text: render_program(p), features: vec![], excluded: vec![] };
                match check_case(ctx, &mut ws, &cand, false, false) {
                    Err(g) if g.sig == f.sig => {
                        last = g;
                        true
                    }
                    _ => false,
                }
            });
            let text = render_program(&reduced);
            (ProgCase { program: reduced, text, features: c.features.clone(), excluded: vec![] }, last)
        })
        .collect();
    report_failures(ctx, "prog", fails);
    run_graph(ctx, "c04", ctx.n(1500, 60_000));
    ctx.finish()
}
