//! C02 — observable behaviour is independent of JIT and optimisation configuration.
//! Differential over configurations of the same generated programs and evaluation histories,
//! anchored by the reference interpreter: a result that differs from the model in SOME
//! configurations but not in others is a configuration divergence (reported here); a result
//! that differs from the model identically in ALL configurations is a C01/C06 matter and is
//! only counted.

use crate::checks::{c01, c06};
use crate::progcheck::*;
use crate::runner::*;
use crate::worker::{Config, Workers};
use proptest::prelude::*;
use proptest::strategy::ValueTree;
use svproto::*;
use serde::{Deserialize, Serialize};
use svmodel::ast::*;
use svmodel::hist::HistOpts;
use svmodel::num::Expect;

#[derive(Clone, Debug, Serialize, Deserialize)]
pub enum Case02 {
    Prog(c01::ProgCase),
    Hist(c06::HistCase),
    /// a batch of numeric operator applications in the C10 shapes (purely differential: every
    /// configuration must give what STEEL_JIT=false with all switches off gives)
    Arith(Vec<crate::checks::c10::Item>),
}

pub fn configs(ctx: &Ctx) -> Vec<Config> {
    let d = Config::default_cfg;
    let mut v = vec![
        d(),
        Config::jit_off(),
        d().with("STEEL_INLINE", "1"),
        d().with("STEEL_INLINE_RECURSIVE", "1"),
        d().with("STEEL_MODULE_INLINE", "1"),
        d().with("STEEL_CLOSURE_LIFTING", "false"),
        Config::jit_off().with("STEEL_INLINE", "1").with("STEEL_MODULE_INLINE", "1").with("STEEL_CLOSURE_LIFTING", "false"),
    ];
    if !ctx.quick() {
        // every combination of the five switches, minus INLINE+INLINE_RECURSIVE together
        // (known finding KF-C02-inline-recursive-blowup: compilation does not finish)
        v.clear();
        for bits in 0..32u32 {
            let (jit, inl, rec, lift, modi) = (bits & 1 != 0, bits & 2 != 0, bits & 4 != 0, bits & 8 != 0, bits & 16 != 0);
            if inl && rec {
                continue;
            }
            let mut c = d();
            if !jit {
                c = c.with("STEEL_JIT", "false");
            }
            if inl {
                c = c.with("STEEL_INLINE", "1");
            }
            if rec {
                c = c.with("STEEL_INLINE_RECURSIVE", "1");
            }
            if !lift {
                c = c.with("STEEL_CLOSURE_LIFTING", "false");
            }
            if modi {
                c = c.with("STEEL_MODULE_INLINE", "1");
            }
            v.push(c);
        }
    }
    v
}

/// Observable verdict of one configuration: Ok(()) = agrees with the model, Err(sig, detail)
fn split(results: Vec<(Config, Entry, PropResult)>) -> PropResult {
    let total = results.len();
    let fails: Vec<&(Config, Entry, PropResult)> = results.iter().filter(|r| r.2.is_err()).collect();
    if fails.is_empty() {
        return Ok(());
    }
    // identical failure in every configuration: common mode, not a divergence
    let sigs: std::collections::BTreeSet<String> = fails.iter().map(|r| r.2.as_ref().err().unwrap().sig.clone()).collect();
    if fails.len() == total && sigs.len() == 1 {
        return Ok(());
    }
    let (cfg, entry, r) = fails[0];
    let f = r.as_ref().err().unwrap();
    let agreeing: Vec<String> = results.iter().filter(|r| r.2.is_ok()).map(|r| format!("{}/{:?}", r.0.label(), r.1)).collect();
    let sub = f.sig.split_once(':').map(|x| x.1).unwrap_or(&f.sig).to_string();
    let jit_on = !cfg.0.iter().any(|(k, v)| k == "STEEL_JIT" && v == "false");
    let class = if jit_on && results.iter().any(|r| r.2.is_ok() && r.0 .0.iter().any(|(k, v)| k == "STEEL_JIT" && v == "false")) { "jitdiv" } else { "cfgdiv" };
    Err(Failure::new(
        format!("c02:{}:{}", class, sub),
        format!("diverging configuration: {} entry {:?}\nagreeing with the reference: {}\n{}", cfg.label(), entry, agreeing.join(", "), f.detail),
    ))
}

pub fn check_prog(ctx: &Ctx, ws: &mut Workers, c: &c01::ProgCase, counting: bool, cfgs: &[Config]) -> PropResult {
    let Some(m) = model_run(&c.program) else {
        if counting {
            ctx.stats.class("outside-model-domain");
        }
        return Ok(());
    };
    let mut results = vec![];
    for cfg in cfgs {
        for entry in [Entry::Repl, Entry::Module] {
            match check_program_entry("c02", ws, cfg, &c.program, &m.result, &[], entry) {
                RunVerdict::Inconclusive => {
                    if counting {
                        ctx.stats.inconclusive.fetch_add(1, std::sync::atomic::Ordering::Relaxed);
                    }
                }
                RunVerdict::Done(r) => results.push((cfg.clone(), entry, r)),
            }
            ctx.stats.engine_runs.fetch_add(1, std::sync::atomic::Ordering::Relaxed);
        }
    }
    let all_fail_same = !results.is_empty() && results.iter().all(|r| r.2.is_err());
    if counting {
        ctx.stats.eval();
        if all_fail_same {
            ctx.stats.class("common-mode-failure-attributed-to-C01");
        }
        if c.features.iter().any(|f| f == "call-known-procedure" || f == "recursive-define" || f == "lambda-value") && m.result.steps >= 30 {
            ctx.stats.nontrivial(&c.text);
        }
        if ctx.stats.want_sample() && c.text.len() > 100 {
            ctx.stats.sample(serde_json::json!({"program": c.text, "configurations": cfgs.iter().map(|c| c.label()).collect::<Vec<_>>()}));
        }
    }
    split(results)
}

pub fn check_hist(ctx: &Ctx, ws: &mut Workers, c: &c06::HistCase, counting: bool, cfgs: &[Config]) -> PropResult {
    let Some(model) = c06::model_history(&c.history) else {
        return Ok(());
    };
    let mut results = vec![];
    for cfg in cfgs {
        match c06::check_history("c02", ws, cfg, &c.history, &model) {
            RunVerdict::Inconclusive => {
                if counting {
                    ctx.stats.inconclusive.fetch_add(1, std::sync::atomic::Ordering::Relaxed);
                }
            }
            RunVerdict::Done(r) => results.push((cfg.clone(), Entry::Repl, r)),
        }
        ctx.stats.engine_runs.fetch_add(1, std::sync::atomic::Ordering::Relaxed);
    }
    if counting {
        ctx.stats.eval();
        ctx.stats.class("history");
        if c.redefinitions > 0 {
            ctx.stats.nontrivial(&format!("{:?}", c.history));
        }
    }
    split(results)
}

fn check(ctx: &Ctx, ws: &mut Workers, c: &Case02, counting: bool, cfgs: &[Config]) -> PropResult {
    match c {
        Case02::Prog(p) => check_prog(ctx, ws, p, counting, cfgs),
        Case02::Hist(h) => check_hist(ctx, ws, h, counting, cfgs),
        Case02::Arith(items) => check_arith(ctx, ws, items, counting, cfgs),
    }
}

fn arith_obs(st: &StepResult) -> String {
    match st.outcome {
        Outcome::Ok => format!("ok {}", st.values.iter().filter(|v| *v != "#void").cloned().collect::<Vec<_>>().join(" ")),
        Outcome::Err => format!("error {}", st.err_kind),
        Outcome::Panic => format!("panic {}", st.err_msg),
    }
}

/// One item alone under every configuration; the observations must be identical.
fn check_arith_single(ctx: &Ctx, ws: &mut Workers, it: &crate::checks::c10::Item, cfgs: &[Config]) -> PropResult {
    for module in [false, true] {
        let (case, shown) = crate::checks::c10::make_case(&[(0, it)], module);
        let mut reference: Option<(String, String)> = None;
        for cfg in std::iter::once(Config::jit_off()).chain(cfgs.iter().cloned()) {
            let r = ws.run(&cfg, &case);
            ctx.stats.engine_runs.fetch_add(1, std::sync::atomic::Ordering::Relaxed);
            if r.end != End::Done {
                continue;
            }
            let Some(st) = r.steps.last() else { continue };
            let obs = arith_obs(st);
            match &reference {
                None => reference = Some((cfg.label(), obs)),
                Some((rl, ro)) => {
                    if *ro != obs {
                        let jit_on = !cfg.0.iter().any(|(k, v)| k == "STEEL_JIT" && v == "false");
                        let class = if jit_on { "jitdiv" } else { "cfgdiv" };
                        let sub = if obs.starts_with("panic") { "panic" } else if obs == "ok " { "lost-result-void" } else if ro.starts_with("error") { "missing-error" } else { "wrong-value" };
                        return Err(Failure::new(
                            format!("c02:{}:arith-{}", class, sub),
                            format!("diverging configuration: {}
{}
under {}: {}
under {}: {}", cfg.label(), shown, rl, ro, cfg.label(), obs),
                        ));
                    }
                }
            }
        }
    }
    Ok(())
}

pub fn check_arith(ctx: &Ctx, ws: &mut Workers, items: &[crate::checks::c10::Item], counting: bool, cfgs: &[Config]) -> PropResult {
    // The items the numeric model expects to succeed run together, one case per entry mode and configuration
    // (the model only selects them; the oracle is the comparison of the configurations); when the batches
    // differ anywhere - a value, the number of values, an error - every item of the batch is run alone,
    // which also names the culprit.  Items expected to raise run alone (a raise ends a batch).
    let oks: Vec<usize> = (0..items.len()).filter(|i| matches!(crate::checks::c10::expected(&items[*i]), Expect::Any(_))).collect();
    let mut alone: Vec<usize> = (0..items.len()).filter(|i| !oks.contains(i)).collect();
    if !oks.is_empty() {
        let listed: Vec<(usize, &crate::checks::c10::Item)> = oks.iter().enumerate().map(|(pos, i)| (pos, &items[*i])).collect();
        let mut differs = false;
        for module in [false, true] {
            let (case, _) = crate::checks::c10::make_case(&listed, module);
            let mut reference: Option<String> = None;
            for cfg in std::iter::once(Config::jit_off()).chain(cfgs.iter().cloned()) {
                let r = ws.run(&cfg, &case);
                ctx.stats.engine_runs.fetch_add(1, std::sync::atomic::Ordering::Relaxed);
                let obs = match (r.end == End::Done, r.steps.last()) {
                    (true, Some(st)) => arith_obs(st),
                    _ => {
                        differs = true;
                        continue;
                    }
                };
                if !obs.starts_with("ok ") {
                    differs = true;
                }
                match &reference {
                    None => reference = Some(obs),
                    Some(ro) => {
                        if *ro != obs {
                            differs = true;
                        }
                    }
                }
            }
        }
        if differs {
            alone.extend(oks.iter().copied());
        }
    }
    for i in alone {
        check_arith_single(ctx, ws, &items[i], cfgs)?;
    }
    if counting {
        ctx.stats.eval();
        ctx.stats.class("arithmetic-batch");
        ctx.stats.class_n("arithmetic-operator-applications", items.len() as u64);
        for it in items {
            if it.args.iter().any(|a| !a.is_exact()) {
                ctx.stats.class("arithmetic-application-with-inexact-operand");
            }
        }
        ctx.stats.nontrivial(&format!("{:?}", items));
    }
    Ok(())
}

pub fn run(ctx: &Ctx, replay: Option<&str>) -> i32 {
    ctx.set_rule(
        "the C01 program generator (5/8 of the cases), the C06 history generator (1/8) and batches of 40 numeric operator \
         applications from the C10 generator - all operand classes incl. doubles, ratios and bignums, 11 syntactic shapes (1/4; the \
         applications the numeric model expects to succeed run as one case per entry mode and configuration, and one by one \
         when the configurations differ anywhere); every case runs under 7 configurations (thorough: all 24 \
         combinations of STEEL_JIT, STEEL_INLINE, STEEL_INLINE_RECURSIVE, STEEL_CLOSURE_LIFTING, STEEL_MODULE_INLINE without \
         INLINE+INLINE_RECURSIVE), programs both as top-level text and as a required module. A case is a violation when some \
         configurations agree with the reference interpreter and others do not. Non-trivial = distinct program that calls a \
         defined procedure (compiled, and natively compiled with the JIT on) and runs >=30 reference steps, or a history with a \
         redefinition.",
    );
    ctx.assume("the reference interpreter anchors the differential: agreement among configurations alone is not accepted");
    c06::set_avoid(ctx);
    let cfgs = configs(ctx);
    ctx.extra("configurations", serde_json::json!(cfgs.iter().map(|c| c.label()).collect::<Vec<_>>()));
    if let Some(path) = replay {
        let Some(rf) = load_replay::<Case02>(std::path::Path::new(path)) else {
            // also accept C01 / C06 replay files
            if let Some(rf) = load_replay::<c01::ProgCase>(std::path::Path::new(path)) {
                let mut ws = Workers::new();
                let mut c = rf.case;
                c.text = render_program(&c.program);
                return verdict(ctx, path, check_prog(ctx, &mut ws, &c, false, &cfgs));
            }
            eprintln!("cannot read replay file {}", path);
            return 2;
        };
        let mut ws = Workers::new();
        return verdict(ctx, path, check(ctx, &mut ws, &rf.case, false, &cfgs));
    }
    {
        let mut ws = Workers::new();
        replay_tier::<Case02>(ctx, "cfg", &mut |c| check(ctx, &mut ws, c, false, &cfgs));
        // the JIT divergences found by the C01 generator are stored as C01-format replays
        replay_tier::<c01::ProgCase>(ctx, "prog", &mut |c| {
            let mut c = c.clone();
            c.text = render_program(&c.program);
            check_prog(ctx, &mut ws, &c, false, &cfgs)
        });
    }
    let total = ctx.n(2500, 60_000);
    let avoid = c01::avoid_list(ctx);
    // development aid: VERIF_C02_ARITH=1 makes every case an arithmetic batch
    let arith_only = std::env::var("VERIF_C02_ARITH").is_ok();
    let arith_n = 40usize;
    let fails = run_prop(
        ctx,
        "cfg",
        || {
            let avoid = avoid.clone();
            (any::<bool>(), any::<bool>(), any::<bool>(), prop::collection::vec(any::<u16>(), 0..600)).prop_map(move |(a, b, c, d)| {
                if (a && b && !c) || (!a && !b && c) || arith_only {
                    // one case in four is a batch of numeric operator applications
                    let mut runner = proptest::test_runner::TestRunner::new_with_rng(
                        proptest::test_runner::Config::default(),
                        proptest::test_runner::TestRng::from_seed(proptest::test_runner::RngAlgorithm::ChaCha, &{
                            let mut sd = [0u8; 32];
                            for (i, x) in d.iter().take(16).enumerate() {
                                sd[2 * i] = (*x & 0xff) as u8;
                                sd[2 * i + 1] = (*x >> 8) as u8;
                            }
                            sd
                        }),
                    );
                    let items: Vec<crate::checks::c10::Item> = (0..arith_n).filter_map(|_| crate::checks::c10::item().new_tree(&mut runner).ok().map(|t| t.current())).collect();
                    Case02::Arith(items)
                } else if a && b && c {
                    // one case in eight is a history
                    Case02::Hist(c06::case_from_choices(&d, &HistOpts { avoid: c06::avoid(), max_ops: 25, fail_weight: 2, bulk: false }))
                } else {
                    Case02::Prog(c01::case_from_choices(&d, c01::opts(avoid.clone())))
                }
            })
        },
        total,
        |ws, c, counting| match check(ctx, ws, c, counting, &cfgs) {
            Err(f) => {
                let f = if let Case02::Prog(p) = c { f.with_features(&p.features) } else { f };
                if let Some(k) = ctx.match_known(&f) {
                    if counting {
                        ctx.note_known_hit(&k.id);
                        ctx.dump_known_case(k, "cfg", c, &f);
                    }
                    Ok(())
                } else if ctx.survey(&f) {
                    Ok(())
                } else {
                    Err(f)
                }
            }
            ok => ok,
        },
    );
    // reduce program cases on the AST
    let mut ws = Workers::new();
    let fails: Vec<(Case02, Failure)> = fails
        .into_iter()
        .map(|(c, f)| match &c {
            Case02::Prog(p) => {
                let mut last = f.clone();
                // the reduction has a wall-clock budget: past it every further candidate is rejected
                let reduce_deadline = std::time::Instant::now() + std::time::Duration::from_secs(if ctx.quick() { 150 } else { 900 });
                let reduced = svmodel::shrink::reduce(&p.program, 600, &mut |q| {
                    if std::time::Instant::now() > reduce_deadline {
                        return false;
                    }
                    let cand = c01::ProgCase { program: q.clone(), text: render_program(q), features: vec![], excluded: vec![] };
                    match check_prog(ctx, &mut ws, &cand, false, &cfgs) {
                        Err(g) if g.sig == f.sig => {
                            last = g;
                            true
                        }
                        _ => false,
                    }
                });
                let text = render_program(&reduced);
                (Case02::Prog(c01::ProgCase { program: reduced, text, features: p.features.clone(), excluded: vec![] }), last)
            }
            _ => (c, f),
        })
        .collect();
    report_failures(ctx, "cfg", fails);
    ctx.finish()
}

fn verdict(ctx: &Ctx, path: &str, r: PropResult) -> i32 {
    match r {
        Ok(()) => {
            println!("replay {}: property holds", path);
            0
        }
        Err(f) => {
            println!("VIOLATION property={} replay={}", ctx.prop, path);
            println!("  sig: {}\n{}", f.sig, f.detail);
            1
        }
    }
}
