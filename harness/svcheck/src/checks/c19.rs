//! C19 — unreachable mutable storage, including cycles, is eventually reclaimed.
//! Domain: allocation patterns with a bounded live set x iteration counts x collection regime
//! (natural collections only, or the gc-stress hook forcing one every P allocations).
//! Oracle (heap statistics hook, read after a requested full collection): the number of live
//! slots of both free lists does not depend on the number of iterations; under forced collections
//! (which never grow a mostly empty heap) the size of the free lists stays bounded as well; a weak
//! box whose target became unreachable says so after a collection.

use crate::runner::*;
use crate::worker::{Config, Workers};
use proptest::prelude::*;
use serde::{Deserialize, Serialize};
use svproto::*;

#[derive(Clone, Copy, Debug, Serialize, Deserialize, PartialEq)]
pub enum Pattern {
    AcyclicBoxes,
    AcyclicVectors,
    AcyclicStructs,
    RingBoxes,
    RingVectors,
    RingMakeVector,
    RingStructs,
    RingMixed,
    SelfCapturingClosure,
    ClosureBoxCycle,
    DeadContinuation,
    DeadThread,
    HashOfBoxes,
    GrowAndDropList,
    /// rings kept alive only by a host root (`SteelVal::as_rooted` taken by a host function of the worker),
    /// eight at a time: the root taken 8 iterations ago is released (after collections have run since it was taken)
    HostRoots,
    /// rings referenced only from a global that is then redefined (through `eval`, 150 definitions per
    /// top-level evaluation): the shadowed slots are recycled when a later evaluation starts
    ShadowedGlobals,
}
pub const PATTERNS: &[Pattern] = &[
    Pattern::AcyclicBoxes,
    Pattern::AcyclicVectors,
    Pattern::AcyclicStructs,
    Pattern::RingBoxes,
    Pattern::RingVectors,
    Pattern::RingMakeVector,
    Pattern::RingStructs,
    Pattern::RingMixed,
    Pattern::SelfCapturingClosure,
    Pattern::ClosureBoxCycle,
    Pattern::DeadContinuation,
    Pattern::DeadThread,
    Pattern::HashOfBoxes,
    Pattern::GrowAndDropList,
    Pattern::HostRoots,
    Pattern::ShadowedGlobals,
];

#[derive(Clone, Debug, Serialize, Deserialize)]
pub struct Case19 {
    pub pattern: Pattern,
    /// cycle length / batch size
    pub k: u64,
    pub n: u64,
    /// gc-stress period (0 = natural collections only)
    pub period: u64,
    /// live boxes kept in a global ring buffer while the garbage is produced
    pub live: u64,
    /// scaled heap (hook `#%verif-heap-chunk`): free lists grow by at least `chunk` slots instead of
    /// 25 600 and are compacted after more than `limit` growth steps instead of 9, so that the
    /// grow-and-compact cycle of natural collections takes thousands instead of 5*10^7 allocations
    /// (0 = the built-in policy)
    #[serde(default)]
    pub chunk: u64,
    #[serde(default)]
    pub limit: u64,
}

const PRELUDE: &str = r#"(struct cell (next val) #:mutable)
(define live-ring (make-vector 64 #f))
(define (keep! i v) (vector-set! live-ring (modulo i 64) v))
(define (ring-boxes k i) (let* ((first (box i)) (last (let loop ((j 1) (acc first)) (if (>= j k) acc (loop (+ j 1) (box acc)))))) (set-box! first last) last))
(define (ring-vectors k i) (let* ((first (vector i 0)) (last (let loop ((j 1) (acc first)) (if (>= j k) acc (loop (+ j 1) (vector acc j)))))) (vector-set! first 1 last) last))
(define (ring-make-vector k i) (let* ((first (make-vector 2 i)) (last (let loop ((j 1) (acc first)) (if (>= j k) acc (loop (+ j 1) (let ((v (make-vector 2 j))) (vector-set! v 0 acc) v)))))) (vector-set! first 1 last) last))
(define (ring-structs k i) (let* ((first (cell #f i)) (last (let loop ((j 1) (acc first)) (if (>= j k) acc (loop (+ j 1) (cell acc j)))))) (set-cell-next! first last) last))
(define (ring-mixed k i) (let* ((first (box i)) (last (let loop ((j 1) (acc first)) (if (>= j k) acc (loop (+ j 1) (if (even? j) (vector acc j) (cell acc j))))))) (set-box! first last) last))
(define (self-closure i) (letrec ((f (lambda () (if (< i 0) f i)))) f))
(define (closure-box-cycle i) (let* ((b (box i)) (f (lambda () (unbox b)))) (set-box! b f) f))
(define (dead-continuation i) (let ((b (box i)) (kept #f)) (+ 1 (call/cc (lambda (k) (set! kept k) 1))) (unbox b)))
(define root-handles (make-vector 8 #f))
(define (host-roots k i)
  (let ((slot (modulo i 8)))
    (when (vector-ref root-handles slot) (host-unroot! (vector-ref root-handles slot)))
    (vector-set! root-handles slot (host-root! (vector (box i) i (ring-boxes k i))))))
(define (shadow-loop k i n) (if (< i n) (begin (eval `(define g-shadowed (ring-boxes ,k ,i))) (shadow-loop k (+ i 1) n)) 'done))
(define (run pattern k n live)
  (let loop ((i 0))
    (if (= i n)
        'done
        (begin
          (when (< (modulo i 64) live) (keep! i (box i)))
          (cond ((= pattern 0) (box i))
                ((= pattern 1) (vector i i))
                ((= pattern 2) (cell #f i))
                ((= pattern 3) (ring-boxes k i))
                ((= pattern 4) (ring-vectors k i))
                ((= pattern 5) (ring-make-vector k i))
                ((= pattern 6) (ring-structs k i))
                ((= pattern 7) (ring-mixed k i))
                ((= pattern 8) (self-closure i))
                ((= pattern 9) (closure-box-cycle i))
                ((= pattern 10) (dead-continuation i))
                ((= pattern 11) (when (= 0 (modulo i 500)) (thread-join! (spawn-native-thread (lambda () (ring-boxes k i) (vector i) 0)))))
                ((= pattern 12) (hash 'a (box i) 'b (vector (box i))))
                ((= pattern 14) (host-roots k i))
                (else (let grow ((j 0) (acc '())) (if (< j k) (grow (+ j 1) (cons (box j) acc)) (length acc)))))
          (loop (+ i 1))))))
(define (stats) (#%gc-collect) (#%verif-heap-stats))"#;

fn pattern_index(p: Pattern) -> usize {
    PATTERNS.iter().position(|x| *x == p).unwrap()
}

fn parse_stats(v: &str) -> Option<[i64; 6]> {
    let nums: Vec<i64> = v.split(|c: char| !c.is_ascii_digit() && c != '-').filter(|t| !t.is_empty()).filter_map(|t| t.parse().ok()).collect();
    if nums.len() == 6 {
        Some([nums[0], nums[1], nums[2], nums[3], nums[4], nums[5]])
    } else {
        None
    }
}

pub fn check(ctx: &Ctx, ws: &mut Workers, c: &Case19, counting: bool) -> PropResult {
    let mut off_ok = false;
    for cfg in [Config::jit_off(), Config::default_cfg()] {
        let jit_on = cfg.0.is_empty();
        match check_cfg(ctx, ws, c, counting, &cfg) {
            Ok(conclusive) => {
                if !jit_on && conclusive {
                    off_ok = true;
                }
            }
            Err(f) => {
                if jit_on && off_ok {
                    let sub = f.sig.split_once(':').map(|x| x.1).unwrap_or(&f.sig).to_string();
                    return Err(Failure::new(format!("c19:jitdiv:{}", sub), format!("(the same case passes under STEEL_JIT=false)\n{}", f.detail)));
                }
                return Err(f);
            }
        }
    }
    if counting {
        ctx.stats.eval();
        ctx.stats.nontrivial(&format!("{:?}", c));
        if ctx.stats.want_sample() {
            ctx.stats.sample(serde_json::to_value(c).unwrap());
        }
    }
    Ok(())
}

fn check_cfg(ctx: &Ctx, ws: &mut Workers, c: &Case19, counting: bool, cfg: &Config) -> Result<bool, Failure> {
    {
        let cfg = cfg.clone();
        let pi = pattern_index(c.pattern);
        let call = |n: u64| format!("(run {} {} {} {})\n(stats)", pi, c.k.max(1), n, c.live);
        let mut steps = vec![Step::Eval { src: PRELUDE.to_string() }, Step::Eval { src: "(stats)".into() }];
        let scaled = c.chunk > 0 && c.period == 0;
        if scaled {
            steps[0] = Step::Eval { src: format!("(#%verif-heap-chunk {} {})\n{}", c.chunk, c.limit, PRELUDE) };
        }
        if c.period > 0 {
            steps.push(Step::GcStress { n: c.period });
        }
        let mut stat_steps = vec![1usize];
        if c.pattern == Pattern::ShadowedGlobals {
            // one top-level evaluation per 150 redefinitions (the recycler of shadowed global slots runs when an
            // evaluation starts)
            let mut at = 0u64;
            for total in [c.n, 5 * c.n] {
                while at < total {
                    let upto = (at + 150).min(total);
                    steps.push(Step::Eval { src: format!("(shadow-loop {} {} {})", c.k.max(1), at, upto) });
                    at = upto;
                }
                steps.push(Step::Eval { src: "(stats)".into() });
                stat_steps.push(steps.len() - 1);
            }
        } else {
            steps.push(Step::Eval { src: call(c.n) });
            stat_steps.push(steps.len() - 1);
            steps.push(Step::Eval { src: call(4 * c.n) });
            stat_steps.push(steps.len() - 1);
        }
        let mut case = Case::new(steps);
        case.timeout_ms = 120_000;
        case.mem_mb = 6000;
        let r = ws.run(&cfg, &case);
        ctx.stats.engine_runs.fetch_add(1, std::sync::atomic::Ordering::Relaxed);
        let shown = format!(
            "config: {}\npattern {:?} (k = {}), live set {} boxes, {} then {} iterations, {}\n",
            cfg.label(),
            c.pattern,
            c.k,
            c.live,
            c.n,
            4 * c.n,
            if c.period > 0 {
                format!("a full collection forced every {} allocations", c.period)
            } else if scaled {
                format!("natural collections only, scaled heap: free lists grow by >= {} slots and are compacted after more than {} growth steps", c.chunk, c.limit)
            } else {
                "natural collections only".to_string()
            }
        );
        let key = format!("{:?}", c.pattern);
        match r.end {
            End::Done => {}
            End::Watchdog | End::Oom => {
                if counting {
                    ctx.stats.inconclusive.fetch_add(1, std::sync::atomic::Ordering::Relaxed);
                }
                return Ok(false);
            }
            End::Signal(s) => {
                if r.stderr_tail.contains("memory allocation of") {
                    if counting {
                        ctx.stats.inconclusive.fetch_add(1, std::sync::atomic::Ordering::Relaxed);
                    }
                    return Ok(false);
                }
                return Err(Failure::new(format!("c19:signal:{}", key), format!("{}engine process died with signal {}\nstderr: {}", shown, s, r.stderr_tail)));
            }
            End::Exit(x) => return Err(Failure::new("c19:exit", format!("{}exit {}", shown, x))),
        }
        let mut st3 = vec![];
        for st in r.steps.iter() {
            // (a failing intermediate step, e.g. a redefinition loop)
            if st.outcome != Outcome::Ok {
                return Err(Failure::new(format!("c19:error:{}", key), format!("{}a step ended with {:?} {}: {}", shown, st.outcome, st.err_kind, st.err_msg)));
            }
        }
        for i in stat_steps.iter().copied() {
            let Some(st) = r.steps.get(i) else {
                return Err(Failure::new(format!("c19:missing-step:{}", key), shown));
            };
            if st.outcome != Outcome::Ok {
                return Err(Failure::new(format!("c19:error:{}", key), format!("{}step {} ended with {:?} {}: {}", shown, i, st.outcome, st.err_kind, st.err_msg)));
            }
            let v = st.values.iter().rev().find(|v| v.starts_with('(')).cloned().unwrap_or_default();
            let Some(s) = parse_stats(&v) else {
                return Err(Failure::new(format!("c19:bad-stats:{}", key), format!("{}{}", shown, v)));
            };
            st3.push(s);
        }
        let live = |s: &[i64; 6]| (s[0] - s[1], s[3] - s[4]);
        let (l0v, l0c) = live(&st3[0]);
        let (l1v, l1c) = live(&st3[1]);
        let (l2v, l2c) = live(&st3[2]);
        let table = format!(
            "(value slots, free, -, vector slots, free, -) after a full collection\n  before:            {:?}\n  after {:>9} it: {:?}\n  after {:>9} more: {:?}\nlive value slots {} -> {} -> {}, live vector slots {} -> {} -> {}",
            st3[0], c.n, st3[1], 4 * c.n, st3[2], l0v, l1v, l2v, l0c, l1c, l2c
        );
        let slack = 64 + c.live as i64 + 2 * c.k as i64 + match c.pattern {
                Pattern::HostRoots => 8 * (c.k as i64 + 3),
                // up to 800 shadowed definitions wait for the recycler (its threshold cycles 100, 200, 400, 800), plus one step of 150
                Pattern::ShadowedGlobals => 1000 * (c.k as i64 + 1),
                _ => 0,
            };
        if l2v > l1v + slack || l2c > l1c + slack || l1v > l0v + slack + 64 || l1c > l0c + slack + 64 {
            return Err(Failure::new(format!("c19:live-slots-grow:{}", key), format!("{}{}\nthe number of live slots grows with the iteration count (allowed slack {})", shown, table, slack)));
        }
        if c.period == 0 && (st3[2][0] > 60_000_000 || st3[2][3] > 60_000_000) {
            // natural collections double a free list ten times and then compact it: with a small live set
            // its size never exceeds 2^10 chunks of 25 600 slots (2.6*10^7); beyond twice that it is not
            // being compacted (only long thorough runs allocate enough to get here)
            return Err(Failure::new(
                format!("c19:heap-size-grows:{}", key),
                format!("{}{}\na free list has more than 6*10^7 slots although the live set is bounded: it is never compacted", shown, table),
            ));
        }
        if scaled {
            // after a compaction a free list holds the reachable slots R plus max(R, chunk) free ones; it then
            // doubles at most `limit` times at full collections (and once more when an allocation finds it
            // full) before it is compacted again: its size never exceeds (2R + chunk) * 2^(limit+1).  R is at
            // most the live count read at the three probes plus the transient slack.  One more factor of 2 of
            // margin; a list that is never compacted holds about as many slots as were ever allocated.
            let r_v = l0v.max(l1v).max(l2v) + slack + 64;
            let r_c = l0c.max(l1c).max(l2c) + slack + 64;
            let bound = |r: i64| (2 * r + c.chunk as i64) << (c.limit + 2);
            for st in [&st3[1], &st3[2]] {
                if st[0] > bound(r_v) || st[3] > bound(r_c) {
                    return Err(Failure::new(
                        format!("c19:heap-size-grows:{}", key),
                        format!(
                            "{}{}\na free list is larger than the grow-and-compact policy allows for this live set (bounds: {} value slots, {} vector slots): it is not being compacted",
                            shown, table, bound(r_v), bound(r_c)
                        ),
                    ));
                }
            }
        }
        if c.period > 0 {
            // forced collections do not double a mostly empty heap, so its size stays put too
            // (a list may still be extended by one chunk of 25600 slots when it fills up between two forced collections)
            let bound = |a: i64| 4 * a.max(65_536) + 8 * slack;
            if st3[2][0] > bound(st3[1][0].max(st3[0][0])) || st3[2][3] > bound(st3[1][3].max(st3[0][3])) {
                return Err(Failure::new(
                    format!("c19:heap-size-grows:{}", key),
                    format!("{}{}\nthe free lists keep growing although the live set is bounded and every collection was forced on a mostly empty heap", shown, table),
                ));
            }
        }
        if counting && cfg.0.is_empty() {
            ctx.stats.class(&format!("pattern:{:?}", c.pattern));
            ctx.stats.class(if c.period > 0 { "regime:forced-collections" } else if scaled { "regime:natural-collections-scaled-heap" } else { "regime:natural-collections" });
            ctx.stats.class_n("full-collections", r.steps.last().and_then(|s| s.hooks.get("full_collections").copied()).unwrap_or(0) as u64);
            ctx.stats.class_n("compactions", r.steps.last().and_then(|s| s.hooks.get("compactions").copied()).unwrap_or(0) as u64);
        }
    }
    Ok(true)
}

const WEAK: &str = r#"(define strong (box 'kept))
(define w-live (make-weak-box strong))
(define w-dead (make-weak-box (box 'dropped)))
(define (churn n) (let loop ((i 0)) (if (< i n) (begin (box i) (vector i) (loop (+ i 1))) 'done)))
(churn 5000)
(#%gc-collect)
(churn 5000)
(#%gc-collect)
(list (weak-box-value w-dead #f) (unbox strong))"#;

pub fn run(ctx: &Ctx, replay: Option<&str>) -> i32 {
    ctx.set_rule(
        "16 allocation patterns with a bounded live set (0-40 boxes kept in a ring buffer): acyclic boxes / vectors / structs, \
         rings of length 1-9 through boxes, vectors built with vector and with make-vector, mutable struct fields, a mix; \
         closures that capture themselves directly and through a box; garbage referenced only from a dropped continuation; \
         garbage produced by native threads that have been joined; hash maps of boxes; lists of boxes grown and dropped; \
         rings held only by host roots (SteelVal::as_rooted taken by a host function, released eight iterations later); rings referenced only from a global that is redefined again and again (150 \
         redefinitions per top-level evaluation, so the recycler of shadowed slots gets to run). Each \
         runs n then 4n more iterations (n = 2000..40000; thorough up to 3*10^6) under natural collections or with a full \
         collection forced every 100-3000 allocations; heap statistics are read after a requested full collection before, \
         between and after; two thirds of the natural-collection cases run on a scaled heap (growth chunk 8-256 slots \
         instead of 25 600, compaction after 1-5 instead of 9 growth steps), where a case goes through tens to thousands of \
         grow-and-compact cycles. Oracle: the live slot counts of both free lists do not grow with the iteration count (slack 64 + \
         live set + 2k); under forced collections and on the scaled heap the free lists' sizes stay within the bound the \
         growth policy implies for the live set. One fixed weak-box scenario. \
         Non-trivial = every distinct case.",
    );
    ctx.assume("hooks: #%verif-heap-stats (slots, free slots by recount, cached free count for both free lists), gc-stress (forced collections of a <50% full heap do not double it), #%verif-heap-chunk (scaled growth chunk and compaction limit; the policy code is unchanged); (#%gc-collect) runs a full collection");
    if let Some(path) = replay {
        let Some(rf) = load_replay::<Case19>(std::path::Path::new(path)) else {
            eprintln!("cannot read replay file {}", path);
            return 2;
        };
        let mut ws = Workers::new();
        return match check(ctx, &mut ws, &rf.case, false) {
            Ok(()) => {
                println!("replay {}: property holds", path);
                0
            }
            Err(f) => {
                println!("VIOLATION property={} replay={}", ctx.prop, path);
                println!("  sig: {}\n{}", f.sig, f.detail);
                1
            }
        };
    }
    let mut ws0 = Workers::new();
    replay_tier::<Case19>(ctx, "reclaim", &mut |c| check(ctx, &mut ws0, c, false));
    // the weak box scenario (fixed, both tiers)
    for cfg in [Config::jit_off(), Config::default_cfg()] {
        let mut case = Case::new(vec![Step::Eval { src: WEAK.to_string() }]);
        case.timeout_ms = 60_000;
        let r = ws0.run(&cfg, &case);
        if r.end == End::Done {
            if let Some(st) = r.steps.first() {
                let got = st.values.iter().rev().find(|v| *v != "#void").cloned().unwrap_or_default();
                if st.outcome != Outcome::Ok || got != "(#f y:\"kept\")" {
                    let f = Failure::new("c19:weak-box", format!("config: {}\n{}\nexpected (#f y:\"kept\")\nactual {:?} {} {}", cfg.label(), WEAK, st.outcome, st.err_msg, got));
                    if ctx.match_known(&f).map(|k| ctx.note_known_hit(&k.id)).is_none() && !ctx.survey(&f) {
                        ctx.violation("weak", &serde_json::json!({"weak": WEAK}), &f);
                    }
                } else {
                    ctx.stats.class("weak-box-of-unreachable-target-reports-gone");
                }
            }
        }
    }
    let big = ctx.quick();
    let fails = run_prop(
        ctx,
        "reclaim",
        || {
            let ns: Vec<u64> = if big { vec![2000, 10_000, 40_000] } else { vec![10_000, 100_000, 1_000_000, 3_000_000] };
            (
                prop::sample::select(PATTERNS.to_vec()),
                1u64..10,
                prop::sample::select(ns),
                prop::sample::select(vec![0u64, 0, 0, 100, 700, 3000]),
                prop::sample::select(vec![0u64, 1, 7, 40]),
                prop::sample::select(vec![0u64, 8, 16, 64, 256]),
                prop::sample::select(vec![1u64, 2, 3, 5]),
            )
                .prop_map(|(pattern, k, n, period, live, chunk, limit)| {
                    // two thirds of the natural-collection cases run on the scaled heap (with at least 10^4 iterations,
                    // so that many grow-and-compact cycles happen)
                    let scaled = period == 0 && chunk > 0;
                    let n = if scaled { n.max(10_000) } else { n };
                    // (a redefinition costs a compilation: fewer iterations)
                    let n = if pattern == Pattern::ShadowedGlobals { n.min(4_000) } else { n };
                    Case19 { pattern, k, n, period, live, chunk: if scaled { chunk } else { 0 }, limit: if scaled { limit } else { 0 } }
                })
        },
        ctx.n(250, 3000),
        |ws, c, counting| match check(ctx, ws, c, counting) {
            Err(f) => {
                if let Some(k) = ctx.match_known(&f) {
                    if counting {
                        ctx.note_known_hit(&k.id);
                        ctx.dump_known_case(k, "reclaim", c, &f);
                    }
                    Ok(())
                } else if ctx.survey_case("reclaim", c, &f) {
                    Ok(())
                } else {
                    Err(f)
                }
            }
            ok => ok,
        },
    );
    report_failures(ctx, "reclaim", fails);
    ctx.finish()
}
