//! C17 — a running script can always be interrupted.
//! Domain: non-terminating program shapes x interrupt point (a script step count, delivered by the
//! deterministic step hook; a 1.5 s timer delivers it to code that does not pass the counted
//! dispatch point) x JIT on/off.
//! Oracle: the evaluation ends with the interrupt error; the number of script steps executed after
//! the request is bounded; afterwards the engine evaluates a probe program correctly.

use crate::runner::*;
use crate::worker::{Config, Workers};
use proptest::prelude::*;
use serde::{Deserialize, Serialize};
use svproto::*;

#[derive(Clone, Debug, Serialize, Deserialize, PartialEq)]
pub enum Shape {
    SelfTailLoop,
    MutualTailLoop,
    NonTailRecursionInLoop,
    NamedLetLoop,
    DoLoop,
    MapCallback,
    FoldCallback,
    ForEachCallback,
    Transduce,
    /// an endless loop of small transducer pipelines
    TransduceSmall,
    /// a service loop whose handler swallows every error (including the interrupt error)
    HandlerSwallowsInLoop,
    /// the guarded body fails quickly, the handler retries
    RetryLoop,
    LoopInsideHandlerBody,
    GeneratorViaContinuations,
    DynamicWindInLoop,
    LoopInsideWindThunk,
    ClosureHeavy,
    AllocationHeavy,
    StringPortLoop,
    /// every iteration assigns a global: the running thread itself goes through a world stop
    GlobalSetLoop,
    /// every iteration assigns a global and allocates boxes (world stops for assignments and collections)
    GlobalSetAndAllocate,
    /// every iteration defines a global through eval
    DefineLoop,
    /// a loop that requests collections
    CollectLoop,
}

pub const SHAPES: &[Shape] = &[
    Shape::SelfTailLoop,
    Shape::MutualTailLoop,
    Shape::NonTailRecursionInLoop,
    Shape::NamedLetLoop,
    Shape::DoLoop,
    Shape::MapCallback,
    Shape::FoldCallback,
    Shape::ForEachCallback,
    Shape::Transduce,
    Shape::TransduceSmall,
    Shape::HandlerSwallowsInLoop,
    Shape::RetryLoop,
    Shape::LoopInsideHandlerBody,
    Shape::GeneratorViaContinuations,
    Shape::DynamicWindInLoop,
    Shape::LoopInsideWindThunk,
    Shape::ClosureHeavy,
    Shape::AllocationHeavy,
    Shape::StringPortLoop,
    Shape::GlobalSetLoop,
    Shape::GlobalSetAndAllocate,
    Shape::DefineLoop,
    Shape::CollectLoop,
];

#[derive(Clone, Debug, Serialize, Deserialize)]
pub struct Case17 {
    pub shape: Shape,
    pub after_steps: u64,
    /// the request is raised after the interrupt check of its step (the step's instruction runs with the
    /// request pending, as with a request from another thread), not right before it
    #[serde(default)]
    pub late: bool,
    /// the request is made by another thread after this many microseconds (0 = at the script step `after_steps`)
    #[serde(default)]
    pub async_us: u64,
    /// size parameter of the shape (length of the list a callback loop walks, depth of the
    /// recursion, work per request)
    pub k: u64,
}

fn program(c: &Case17) -> (String, String) {
    let k = c.k.max(1);
    let (defs, call): (String, &str) = match c.shape {
        Shape::SelfTailLoop => ("(define (lp i) (lp (+ i 1)))".into(), "(lp 0)"),
        Shape::MutualTailLoop => ("(define (ping i) (pong (+ i 1)))\n(define (pong i) (ping (+ i 1)))".into(), "(ping 0)"),
        Shape::NonTailRecursionInLoop => (format!("(define (sum n) (if (= n 0) 0 (+ 1 (sum (- n 1)))))\n(define (lp acc) (lp (+ acc (sum {}))))", 10 + k % 2000), "(lp 0)"),
        Shape::NamedLetLoop => ("(define (run) (let loop ((i 0) (acc '())) (loop (+ i 1) (if (> (length acc) 10) '() (cons i acc)))))".into(), "(run)"),
        Shape::DoLoop => ("(define (run) (do ((i 0 (+ i 1))) ((< i 0) i) (* i i)))".into(), "(run)"),
        Shape::MapCallback => (format!("(define data (range 0 {}))\n(define (lp) (map (lambda (x) (+ x 1)) data) (lp))", 1 + k % 5000), "(lp)"),
        Shape::FoldCallback => (format!("(define data (range 0 {}))\n(define (lp acc) (lp (foldl (lambda (x a) (+ x a)) 0 data)))", 1 + k % 5000), "(lp 0)"),
        Shape::ForEachCallback => (format!("(define data (range 0 {}))\n(define b (box 0))\n(define (lp) (for-each (lambda (x) (set-box! b x)) data) (lp))", 1 + k % 5000), "(lp)"),
        Shape::Transduce => ("(define data (range 0 30000000))".into(), "(transduce data (mapping (lambda (x) x)) (filtering (lambda (x) #t)) (into-for-each (lambda (x) x)))"),
        Shape::TransduceSmall => (format!("(define data (range 0 {}))\n(define (lp) (transduce data (mapping (lambda (x) (+ x 1))) (into-list)) (lp))", 1 + k % 200), "(lp)"),
        Shape::HandlerSwallowsInLoop => (
            format!("(define (work n) (if (= n 0) 'done (work (- n 1))))\n(define (handle req) (with-handler (lambda (err) 'request-failed) (work {})))\n(define (serve req) (handle req) (serve req))", 1 + k % 3000),
            "(serve 'ping)",
        ),
        Shape::RetryLoop => ("(define (attempt) (car 5))\n(define (retry n) (with-handler (lambda (err) (retry (+ n 1))) (attempt)))".into(), "(retry 0)"),
        Shape::LoopInsideHandlerBody => ("(define (lp i) (lp (+ i 1)))".into(), "(with-handler (lambda (err) (list (quote handled) err)) (lp 0))"),
        Shape::GeneratorViaContinuations => (
            "(define saved #f)\n(define (next) (call/cc (lambda (k) (set! saved k) 1)))\n(define (lp acc) (lp (+ acc (next))))".into(),
            "(lp 0)",
        ),
        Shape::DynamicWindInLoop => ("(define b (box 0))\n(define (lp i) (dynamic-wind (lambda () (set-box! b 1)) (lambda () i) (lambda () (set-box! b 0))) (lp (+ i 1)))".into(), "(lp 0)"),
        Shape::LoopInsideWindThunk => ("(define (lp i) (lp (+ i 1)))".into(), "(dynamic-wind (lambda () 0) (lambda () (lp 0)) (lambda () 0))"),
        Shape::ClosureHeavy => ("(define (compose f g) (lambda (x) (f (g x))))\n(define (lp f i) (lp (if (= 0 (modulo i 50)) (lambda (x) x) (compose f (lambda (x) (+ x 1)))) (+ i (f 0))))".into(), "(lp (lambda (x) 1) 1)"),
        Shape::AllocationHeavy => ("(define (lp acc i) (lp (if (> i 1000) (list) (cons (vector i (box i)) acc)) (if (> i 1000) 0 (+ i 1))))".into(), "(lp '() 0)"),
        Shape::GlobalSetLoop => ("(define g 0)\n(define (lp) (set! g (+ g 1)) (lp))".into(), "(lp)"),
        Shape::GlobalSetAndAllocate => (format!("(define g 0)\n(define keep (box '()))\n(define (lp i) (set! g (+ g 1)) (set-box! keep (if (> i {}) '() (cons (vector i (box i)) (unbox keep)))) (lp (if (> i {}) 0 (+ i 1))))", 100 + k % 3000, 100 + k % 3000), "(lp 0)"),
        Shape::DefineLoop => ("(define (lp i) (eval `(define fresh-global ,i)) (lp (+ i 1)))".into(), "(lp 0)"),
        Shape::CollectLoop => ("(define (lp i) (when (= 0 (modulo i 50)) (#%gc-collect)) (lp (+ i (unbox (box 1)))))".into(), "(lp 0)"),
        Shape::StringPortLoop => ("(define (lp i) (let ((p (open-output-string))) (write i p) (lp (+ i (string-length (get-output-string p))))))".into(), "(lp 0)"),
    };
    (defs, call.to_string())
}

const PROBE: &str = "(list (+ 1 2) (let loop ((i 0)) (if (< i 1000) (loop (+ i 1)) i)) (map (lambda (x) (* x x)) (list 1 2 3)))";
const PROBE_EXPECT: &str = "(i:3 i:1000 (i:1 i:4 i:9))";
/// script steps allowed between the request and the end of the evaluation
const BOUND: i64 = 50_000;

pub fn check(ctx: &Ctx, ws: &mut Workers, c: &Case17, counting: bool) -> PropResult {
    let (defs, call) = program(c);
    // a request made by another thread: the hook's delay point between the requester's two stores widens that window
    let defs = if c.async_us > 0 { format!("(#%verif-delays 256 1 {})\n{}", [0u64, 300, 2000][(c.k % 3) as usize], defs) } else { defs };
    for cfg in [Config::jit_off(), Config::default_cfg()] {
        let jit_on = cfg.0.is_empty();
        let shown = format!("config: {}\nshape: {:?}  interrupt requested {} {} script steps\n{}\n{}", cfg.label(), c.shape, if c.late { "right after the check of step" } else { "after" }, c.after_steps, defs, call);
        let mut attempt = 0;
        loop {
            attempt += 1;
            let steps = vec![Step::Eval { src: defs.clone() }, Step::EvalInterrupt { src: call.clone(), after_steps: if c.async_us > 0 { c.async_us | (1 << 61) } else if c.late { c.after_steps | (1 << 62) } else { c.after_steps } }, Step::Eval { src: PROBE.to_string() }];
            let mut case = Case::new(steps);
            case.timeout_ms = 12_000 * attempt;
            case.mem_mb = 4096;
            let r = ws.run(&cfg, &case);
            ctx.stats.engine_runs.fetch_add(1, std::sync::atomic::Ordering::Relaxed);
            let tag = if jit_on { "jit" } else { "interp" };
            match r.end {
                End::Done => {}
                End::Watchdog => {
                    // the request is delivered after at most 1.5 s: a watchdog at 12 s (then 24 s) means the
                    // evaluation did not stop for more than 10 s after it
                    if attempt < 2 {
                        continue;
                    }
                    return Err(Failure::new(
                        format!("c17:{}:not-interrupted:{:?}", tag, c.shape),
                        format!("{}\nthe evaluation was still running more than 20 s after the interrupt request (two attempts)", shown),
                    ));
                }
                End::Oom => {
                    if counting {
                        ctx.stats.inconclusive.fetch_add(1, std::sync::atomic::Ordering::Relaxed);
                    }
                    break;
                }
                End::Signal(s) => return Err(Failure::new(format!("c17:{}:signal:{:?}", tag, c.shape), format!("{}\nengine process died with signal {}\nstderr: {}", shown, s, r.stderr_tail))),
                End::Exit(x) => return Err(Failure::new(format!("c17:{}:exit", tag), format!("{}\nengine process exited with status {}", shown, x))),
            }
            if r.steps.len() < 3 {
                return Err(Failure::new(format!("c17:{}:truncated", tag), format!("{}\nonly {} steps ran", shown, r.steps.len())));
            }
            let st = &r.steps[1];
            match st.outcome {
                Outcome::Panic => return Err(Failure::new(format!("c17:{}:panic:{:?}", tag, c.shape), format!("{}\npanic: {}", shown, st.err_msg))),
                Outcome::Ok => return Err(Failure::new(format!("c17:{}:ran-to-completion:{:?}", tag, c.shape), format!("{}\nthe evaluation returned normally: {:?}", shown, st.values))),
                Outcome::Err => {
                    if !st.err_msg.to_lowercase().contains("interrupt") {
                        return Err(Failure::new(
                            format!("c17:{}:other-error:{:?}", tag, c.shape),
                            format!("{}\nthe evaluation ended with another error {}: {}", shown, st.err_kind, st.err_msg),
                        ));
                    }
                }
            }
            let fired = st.hooks.get("interrupt_fired_at").copied().unwrap_or(0);
            let end = st.hooks.get("steps").copied().unwrap_or(0);
            if fired > 0 && end - fired > BOUND {
                return Err(Failure::new(
                    format!("c17:{}:late:{:?}", tag, c.shape),
                    format!("{}\nthe request was made at script step {}, the evaluation ended at step {} ({} steps later, bound {})", shown, fired, end, end - fired, BOUND),
                ));
            }
            let probe = &r.steps[2];
            let got = probe.values.iter().rev().find(|v| *v != "#void").cloned().unwrap_or_default();
            if probe.outcome != Outcome::Ok || got != PROBE_EXPECT {
                return Err(Failure::new(
                    format!("c17:{}:engine-not-usable:{:?}", tag, c.shape),
                    format!("{}\nafter the interrupt and resume the probe program gave {:?} {} {}\nexpected {}", shown, probe.outcome, probe.err_msg, got, PROBE_EXPECT),
                ));
            }
            if counting {
                ctx.stats.class(&format!("{}:{:?}", tag, c.shape));
                if c.late {
                    ctx.stats.class("request-raised-right-after-a-check");
                }
                if c.async_us > 0 {
                    ctx.stats.class("request-made-by-another-thread-after-a-delay");
                }
                ctx.stats.class_n(&format!("{}:steps-between-request-and-stop", tag), (end - fired).max(0) as u64);
                if fired == 0 {
                    ctx.stats.class(&format!("{}:delivered-by-timer", tag));
                }
            }
            break;
        }
    }
    if counting {
        ctx.stats.eval();
        ctx.stats.nontrivial(&format!("{:?}", c));
        if ctx.stats.want_sample() {
            ctx.stats.sample(serde_json::json!({"shape": format!("{:?}", c.shape), "after_steps": c.after_steps, "program": format!("{}\n{}", defs, call)}));
        }
    }
    Ok(())
}

pub fn run(ctx: &Ctx, replay: Option<&str>) -> i32 {
    ctx.set_rule(
        "19 non-terminating program shapes (self / mutual tail loops, non-tail recursion inside a loop, named let, do, loops \
         driven by map / foldl / for-each callbacks over lists of 1-5000 elements, one transduce over 3*10^7 elements, an endless \
         loop of small transducer pipelines, a service loop whose handler swallows every error, a retry loop whose attempts fail \
         at once, a loop inside a handler's body, a generator via continuations, dynamic-wind in a loop and a loop inside a wind \
         thunk, closure heavy, allocation heavy, string ports) x a request point drawn from 1..3*10^6 script steps (plus the \
         fixed points 1, 2, 1000) x JIT on/off. The request is made by the step hook at exactly that step (a timer makes it \
         after 1.5 s for code that does not pass the counted dispatch point). Required: the evaluation ends with the interrupt \
         error, at most 50000 script steps after the request, and the probe program then evaluates correctly. Non-trivial = \
         every distinct (shape, size, point).",
    );
    ctx.assume("hook: STEPS counter incremented at the interpreter's dispatch point; the interrupt is requested through ThreadStateController::interrupt, as a host would; an evaluation still running 10 s (and on a second attempt 22 s) after the request is judged not interruptible");
    if let Some(path) = replay {
        let Some(rf) = load_replay::<Case17>(std::path::Path::new(path)) else {
            eprintln!("cannot read replay file {}", path);
            return 2;
        };
        let mut ws = Workers::new();
        return match check(ctx, &mut ws, &rf.case, false) {
            Ok(()) => {
                println!("replay {}: property holds", path);
                0
            }
            Err(f) => {
                println!("VIOLATION property={} replay={}", ctx.prop, path);
                println!("  sig: {}\n{}", f.sig, f.detail);
                1
            }
        };
    }
    {
        let mut ws = Workers::new();
        replay_tier::<Case17>(ctx, "intr", &mut |c| check(ctx, &mut ws, c, false));
    }
    let fails = run_prop(
        ctx,
        "intr",
        || {
            (prop::sample::select(SHAPES.to_vec()), prop_oneof![1 => Just(1u64), 1 => Just(2u64), 1 => Just(1000u64), 3 => 1000u64..1040, 5 => 1u64..3_000_000], any::<u16>(), any::<bool>())
                .prop_map(|(shape, after_steps, k, late)| {
                    // one case in five: the request comes from another thread after 0.2 - 66 ms
                    let async_us = if k % 5 == 0 { 200 + (after_steps % 65_000) } else { 0 };
                    Case17 { shape, after_steps, k: k as u64, late, async_us }
                })
        },
        ctx.n(400, 8000),
        |ws, c, counting| match check(ctx, ws, c, counting) {
            Err(f) => {
                if let Some(k) = ctx.match_known(&f) {
                    if counting {
                        ctx.note_known_hit(&k.id);
                        ctx.dump_known_case(k, "intr", c, &f);
                    }
                    Ok(())
                } else if ctx.survey_case("intr", c, &f) {
                    Ok(())
                } else {
                    Err(f)
                }
            }
            ok => ok,
        },
    );
    report_failures(ctx, "intr", fails);
    ctx.finish()
}
