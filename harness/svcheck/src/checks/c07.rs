//! C07 — no input can crash the host; errors are returned and leave the engine usable.
//! Three generated-input sub-checks, one evidence file:
//!  (a) text: programs of the C01 generator mutated at token level, token soups from a
//!      dictionary of every special form / reader prefix, and arbitrary Unicode strings;
//!  (b) builtin argument fuzz: every exported builtin (minus an I/O / process / thread /
//!      clock denylist) called with 0-4 arguments drawn from a pool that covers every value
//!      kind and boundary magnitude;
//!  (c) histories (C06 generator) with many failing steps.
//! Oracle: every evaluation ends Ok or Err — never a panic, abort, signal; after the input a
//! fixed probe program must still compute the model's answers (definitions made earlier are
//! intact, a closure counter and a box keep their state) and both VM stacks must be empty.

use crate::checks::{c01, c06};
use crate::runner::*;
use crate::worker::{Config, Workers};
use proptest::prelude::*;
use serde::{Deserialize, Serialize};
use svmodel::hist::HistOpts;
use svproto::*;

// ---------------------------------------------------------------------------------------
// shared: prelude + probe

const PRELUDE: &str = "(define (probe-fib n) (if (< n 2) n (+ (probe-fib (- n 1)) (probe-fib (- n 2)))))\n(define probe-counter (let ((n 0)) (lambda () (set! n (+ n 1)) n)))\n(define probe-box (box 41))\n(define probe-param (make-parameter 1))\n(define probe-winds (box 0))\n(probe-counter)";
const PROBE: &str = "(#%verif-depths)\n(list (probe-fib 10) (probe-counter) (begin (set-box! probe-box (+ 1 (unbox probe-box))) (unbox probe-box)) (probe-param) (unbox probe-winds) (with-output-to-string (lambda () (display \"w\"))))\n(display \"probe-out\")";
const PROBE_EXPECT: &str = "(i:0 . i:0) (i:55 i:2 i:42 i:1 i:0 s:\"w\")";

/// "file.rs:line" of a panic message of the form "... @ /path/to/file.rs:line"
fn panic_site(msg: &str) -> String {
    match msg.rsplit_once(" @ ") {
        Some((_, loc)) => {
            let loc = loc.lines().next().unwrap_or("");
            let parts: Vec<&str> = loc.rsplit('/').take(2).collect();
            parts.into_iter().rev().collect::<Vec<_>>().join("/")
        }
        None => "unknown".to_string(),
    }
}

/// judge the result of [prelude, input..., probe]; `inputs` = number of input steps
fn judge_usable(tag: &str, r: &CaseResult, inputs: usize, shown: &str, cfg: &Config) -> Result<bool, Failure> {
    let ctxt = format!("config: {}\ninput:\n{}", cfg.label(), shown);
    match r.end {
        End::Done => {}
        End::Watchdog | End::Oom => return Ok(false),
        End::Signal(s) => {
            return Err(Failure::new(
                format!("{}:signal:{}", tag, r.stderr_tail.lines().find(|l| l.contains("[panic ")).map(panic_site).unwrap_or_else(|| format!("sig{}", s))),
                format!("{}\nengine process died with signal {} in step {}\nstderr: {}", ctxt, s, r.steps.len(), r.stderr_tail),
            ))
        }
        End::Exit(c) => return Err(Failure::new(format!("{}:exit", tag), format!("{}\nengine process exited with status {} in step {}", ctxt, c, r.steps.len()))),
    }
    for (i, st) in r.steps.iter().enumerate() {
        if st.outcome == Outcome::Panic && st.err_msg.contains("capacity overflow") {
            // a request for more memory than the address space holds ((range 4611686018427387904)):
            // resource exhaustion, judged like an out-of-memory abort
            return Ok(false);
        }
        if st.outcome == Outcome::Panic {
            return Err(Failure::new(format!("{}:panic:{}", tag, panic_site(&st.err_msg)), format!("{}\nstep {} panicked: {}", ctxt, i, st.err_msg)));
        }
    }
    if r.steps.len() != inputs + 2 {
        return Err(Failure::new(format!("{}:truncated", tag), format!("{}\nonly {} of {} steps ran", ctxt, r.steps.len(), inputs + 2)));
    }
    let probe = r.steps.last().unwrap();
    let got = probe.values.iter().filter(|v| *v != "#void").cloned().collect::<Vec<_>>().join(" ");
    if probe.outcome != Outcome::Ok || got != PROBE_EXPECT || !probe.stdout.contains("probe-out") {
        return Err(Failure::new(
            format!("{}:engine-not-usable", tag),
            format!("{}\nprobe program after the input: outcome {:?} {} {}\nvalues {:?} stdout {:?}\nexpected {} and stdout \"probe-out\"", ctxt, probe.outcome, probe.err_kind, probe.err_msg, probe.values, probe.stdout, PROBE_EXPECT),
        ));
    }
    Ok(true)
}

// ---------------------------------------------------------------------------------------
// (a) text

const DICT: &[&str] = &[
    "(", ")", "[", "]", "{", "}", "'", "`", ",", ",@", "#(", "#u8(", ".", "...", "#;", "#|", "|#", "|", "\"", "\\", ";", "#\\", "#\\a", "#\\space", "#t", "#f",
    "#true", "#false", "0", "1", "-1", "1/2", "1/0", "1.5", "1e400", "+inf.0", "-nan.0", "#x", "#xff", "#b102", "#e1.5", "#i1/2", "1+2i", "9223372036854775808",
    "define", "lambda", "let", "let*", "letrec", "if", "cond", "case", "else", "=>", "and", "or", "when", "unless", "begin", "set!", "quote", "quasiquote", "unquote",
    "unquote-splicing", "define-syntax", "syntax-rules", "require", "provide", "struct", "define-values", "call/cc", "dynamic-wind", "with-handler", "error", "apply",
    "map", "do", "delay", "force", "make-parameter", "parameterize", "x", "y", "f", "car", "list", "+", "#:key", "#%prim.car", "%plain-let", "λ", "\u{0}", "\u{feff}", " ",
    "\n", "\t",
];

#[derive(Clone, Debug, Serialize, Deserialize)]
pub enum TextCase {
    /// a generated program with token-level mutations applied: (choices for the program, edits)
    Mutated { text: String },
    Soup { text: String },
    Unicode { text: String },
    /// a run time error raised inside the extent of dynamic-wind / parameterize /
    /// with-output-to-string (possibly a few calls deep): the unwinding must restore the state
    Unwind { text: String },
    /// a program that fails part way through - definitions before the failing form were evaluated, those after
    /// it only compiled - followed by a second evaluation that reads, assigns, calls or redefines those names
    Partial { text: String, follow: String },
}

impl TextCase {
    fn text(&self) -> &str {
        match self {
            TextCase::Mutated { text } | TextCase::Soup { text } | TextCase::Unicode { text } | TextCase::Unwind { text } | TextCase::Partial { text, .. } => text,
        }
    }
    fn follow(&self) -> Option<&str> {
        match self {
            TextCase::Partial { follow, .. } => Some(follow),
            _ => None,
        }
    }
}

fn partial_text(first: u8, fail: u8, follow: u8) -> TextCase {
    let f = FAILING[fail as usize % FAILING.len()];
    let text = match first % 8 {
        0 => format!("(define pa 1) {} (define pb 2)", f),
        1 => format!("(define pa 1) (define (pf) (+ pb 1)) {} (define pb 2)", f),
        2 => format!("(define pa 1) (define pb {}) (define pc 3)", f),
        3 => format!("(define pz (box 5)) (define pa 1) {} (define pb (lambda () pa))", f),
        4 => "(define pa 1) (this-name-is-free) (define pb 2)".to_string(),
        // a redefinition of something the probe uses, in a program that is rejected at compile time: no effect
        5 => "(define probe-box (box 7)) (this-name-is-free)".to_string(),
        // a redefinition whose right hand side fails at run time: the earlier definition stays
        // (KF-C07-failed-redefinition-unbinds: on the unchanged tree the name is unbound afterwards)
        6 => format!("(define probe-box {})", f),
        _ => "(define (probe-counter) 0) (define pa 1) (this-name-is-free 1 2)".to_string(),
    };
    let follow = match follow % 8 {
        0 => "(set! pb 3)",
        1 => "pb",
        2 => "(define (use) pb) (use)",
        3 => "(set! pa 5) (list pa)",
        4 => "(define pb 9) (list pa pb)",
        5 => "(pf)",
        6 => "(set! pc (list pb pa))",
        _ => "(begin (set! pb (lambda () 1)) (pb))",
    };
    TextCase::Partial { text, follow: follow.to_string() }
}

const FAILING: &[&str] = &["(car 5)", "(error \"boom\")", "(vector-ref (vector) 1)", "(raise 'boom)", "(+ 1 \"a\")", "(hash-ref (hash) 'k)", "(list-ref (list 1) 3)", "((lambda (x) x))", "(string-ref \"\" 0)", "(exact->inexact 'a)"];

fn unwind_text(wrapper: u8, fail: u8, depth: u8, caught: bool) -> String {
    let mut e = FAILING[fail as usize % FAILING.len()].to_string();
    for i in 0..(depth % 4) {
        e = match i % 3 {
            0 => format!("(+ 1 {})", e),
            1 => format!("(let ((t {})) t)", e),
            _ => format!("((lambda (k) (list k {})) 0)", e),
        };
    }
    // handlers that are not a one-argument procedure: the error path itself must stay an ordinary error
    let handler = ["5", "(lambda () 0)", "(lambda (a b) (list a b))", "(lambda args 0)", "car", "(lambda (err) (car err))", "'sym", "(lambda (a b c) a)"][(fail as usize / FAILING.len()) % 8];
    let w = match wrapper % 9 {
        5 => format!("(call-with-exception-handler {} (lambda () {}))", handler, e),
        6 => format!("(with-handler {} {})", handler, e),
        7 => format!("(+ 1 (length (transduce (list 1 2) (mapping (lambda (x) {})) (into-list))))", e),
        8 => format!("(foldl (lambda (x acc) (+ acc (car (map (lambda (y) {}) (list x))))) 0 (list 1 2))", e),
        0 => format!("(dynamic-wind (lambda () (set-box! probe-winds (+ (unbox probe-winds) 1))) (lambda () {}) (lambda () (set-box! probe-winds (- (unbox probe-winds) 1))))", e),
        1 => format!("(parameterize ((probe-param 2)) {})", e),
        2 => format!("(with-output-to-string (lambda () (display \"in\") {}))", e),
        3 => format!("(parameterize ((probe-param 3)) (dynamic-wind (lambda () (set-box! probe-winds (+ (unbox probe-winds) 1))) (lambda () (with-output-to-string (lambda () {}))) (lambda () (set-box! probe-winds (- (unbox probe-winds) 1)))))", e),
        _ => format!("(dynamic-wind (lambda () (set-box! probe-winds (+ (unbox probe-winds) 1))) (lambda () (dynamic-wind (lambda () (set-box! probe-winds (+ (unbox probe-winds) 10))) (lambda () {}) (lambda () (set-box! probe-winds (- (unbox probe-winds) 10))))) (lambda () (set-box! probe-winds (- (unbox probe-winds) 1))))", e),
    };
    // sometimes inside a call whose arguments are live locals on the operand stack
    let w = if (depth / 4) % 2 == 1 { format!("((lambda (p q) (+ 1 {} p q)) 10 20)", w) } else { w };
    if caught {
        format!("(with-handler (lambda (err) 'caught) {})", w)
    } else {
        w
    }
}

fn tokenize(s: &str) -> Vec<String> {
    // coarse tokenizer: delimiters are their own tokens, everything else splits on whitespace
    let mut out = vec![];
    let mut cur = String::new();
    let mut in_str = false;
    for c in s.chars() {
        if in_str {
            cur.push(c);
            if c == '"' {
                in_str = false;
                out.push(std::mem::take(&mut cur));
            }
            continue;
        }
        match c {
            '(' | ')' | '[' | ']' | '\'' | '`' | ',' => {
                if !cur.is_empty() {
                    out.push(std::mem::take(&mut cur));
                }
                out.push(c.to_string());
            }
            '"' => {
                if !cur.is_empty() {
                    out.push(std::mem::take(&mut cur));
                }
                cur.push(c);
                in_str = true;
            }
            c if c.is_whitespace() => {
                if !cur.is_empty() {
                    out.push(std::mem::take(&mut cur));
                }
            }
            c => cur.push(c),
        }
    }
    if !cur.is_empty() {
        out.push(cur);
    }
    out
}

fn mutate(text: &str, edits: &[(u8, u16, u16)]) -> String {
    let mut toks = tokenize(text);
    for (kind, a, b) in edits {
        if toks.is_empty() {
            break;
        }
        let i = (*a as usize * toks.len()) >> 16;
        let j = (*b as usize * toks.len()) >> 16;
        match kind % 6 {
            0 => {
                toks.remove(i);
            }
            1 => {
                let t = toks[i].clone();
                toks.insert(i, t);
            }
            2 => toks.swap(i, j),
            3 => {
                let d = DICT[(*b as usize * DICT.len()) >> 16].to_string();
                toks.insert(i, d);
            }
            4 => {
                let d = DICT[(*b as usize * DICT.len()) >> 16].to_string();
                toks[i] = d;
            }
            _ => {
                // move a sub-range elsewhere
                let (lo, hi) = if i <= j { (i, j) } else { (j, i) };
                let chunk: Vec<String> = toks.drain(lo..hi).collect();
                let at = (*a as usize % (toks.len() + 1)).min(toks.len());
                for (k, t) in chunk.into_iter().enumerate() {
                    toks.insert(at + k, t);
                }
            }
        }
    }
    toks.join(" ")
}

fn text_case() -> impl Strategy<Value = TextCase> {
    let mutated = (c01::choices(300), prop::collection::vec((any::<u8>(), any::<u16>(), any::<u16>()), 1..6)).prop_map(|(d, edits)| {
        let c = c01::case_from_choices(&d, c01::opts(vec![]));
        TextCase::Mutated { text: mutate(&c.text, &edits) }
    });
    let soup = prop::collection::vec((0..DICT.len(), any::<bool>()), 1..24).prop_map(|v| {
        let mut s = String::new();
        for (i, sp) in v {
            s.push_str(DICT[i]);
            if sp {
                s.push(' ');
            }
        }
        TextCase::Soup { text: s }
    });
    let unicode = ".{0,60}".prop_map(|s| TextCase::Unicode { text: s });
    let unwind = (any::<u8>(), any::<u8>(), any::<u8>(), any::<bool>()).prop_map(|(w, f, d, c)| TextCase::Unwind { text: unwind_text(w, f, d, c) });
    let partial = (any::<u8>(), any::<u8>(), any::<u8>()).prop_map(|(a, b, c)| partial_text(a, b, c));
    prop_oneof![6 => mutated, 3 => soup, 1 => unicode, 2 => unwind, 1 => partial]
}

fn check_text(ctx: &Ctx, ws: &mut Workers, c: &TextCase, counting: bool) -> PropResult {
    for cfg in [Config::default_cfg(), Config::jit_off()] {
        let mut steps = vec![
            Step::Eval { src: PRELUDE.to_string() },
            // divergent mutants are stopped by the step-count interrupt
            Step::EvalInterrupt { src: c.text().to_string(), after_steps: 3_000_000 },
        ];
        if let Some(f) = c.follow() {
            steps.push(Step::Eval { src: f.to_string() });
        }
        steps.push(Step::Eval { src: PROBE.to_string() });
        let inputs = steps.len() - 2;
        let shown = match c.follow() {
            Some(f) => format!("{}\n;; next evaluation\n{}", c.text(), f),
            None => c.text().to_string(),
        };
        let mut case = Case::new(steps);
        case.timeout_ms = 30_000;
        case.continue_after_panic = false;
        let r = ws.run(&cfg, &case);
        ctx.stats.engine_runs.fetch_add(1, std::sync::atomic::Ordering::Relaxed);
        match judge_usable("c07a", &r, inputs, &shown, &cfg) {
            Ok(true) => {
                // an unwinding case wrapped in a catch-all handler: every body raises, so the handler's value is
                // the value of the form (C08's clause "a raised error reaches the nearest enclosing handler", checked
                // here because these bodies use forms the reference interpreter does not model)
                if let TextCase::Unwind { text } = c {
                    if text.starts_with("(with-handler (lambda (err) 'caught) ") && text.matches("with-handler").count() == 1 && !text.contains("call-with-exception-handler") && !text.contains("(raise ") && !text.contains("((lambda (x) x))") {
                        // (`raise` is unbound and the immediately applied lambda's arity is checked statically: those
                        // two bodies are rejected at compile time, before any handler exists)
                        let st = &r.steps[1];
                        let caught = st.outcome == Outcome::Ok && st.values.iter().any(|v| v == "y:\"caught\"");
                        if !caught {
                            return Err(Failure::new(
                                "c07a:handler-skipped",
                                format!("config: {}\ninput:\n{}\nthe enclosing handler's value 'caught was expected, got {:?} {} {} {:?}", cfg.label(), text, st.outcome, st.err_kind, st.err_msg, st.values),
                            ));
                        }
                    }
                }
                if counting && cfg.0.is_empty() {
                    let st = &r.steps[1];
                    let class = match st.outcome {
                        Outcome::Ok => "text:evaluated-ok".to_string(),
                        _ => format!("text:error-{}", st.err_kind),
                    };
                    ctx.stats.class(&class);
                    // non-trivial: got past the lexer/parser (reached expansion or later)
                    if st.outcome == Outcome::Ok || (st.err_kind != "Parse" && st.err_kind != "UnexpectedToken") {
                        ctx.stats.nontrivial(c.text());
                    }
                }
            }
            Ok(false) => {
                if counting {
                    ctx.stats.inconclusive.fetch_add(1, std::sync::atomic::Ordering::Relaxed);
                }
            }
            Err(f) => return Err(f),
        }
    }
    if counting {
        ctx.stats.eval();
        if ctx.stats.want_sample() && c.text().len() > 30 {
            ctx.stats.sample(serde_json::json!({"text": c.text()}));
        }
    }
    Ok(())
}

// ---------------------------------------------------------------------------------------
// (b) builtin argument fuzz

const ARG_POOL: &[&str] = &[
    "0", "1", "-1", "2", "255", "256", "2147483647", "2147483648", "-2147483649", "4294967296", "9007199254740993", "4611686018427387904",
    "9223372036854775807", "-9223372036854775808", "9223372036854775808", "-9223372036854775809", "(expt 10 40)", "1/2", "-7/3", "(/ (expt 10 30) 7)",
    "0.0", "(- 0.0)", "1.5", "-2.5", "1e308", "5e-324", "+inf.0", "-inf.0", "+nan.0", "\"\"", "\"a\"", "\"hello world\"", "\"λx\"", "(make-string 10000 #\\a)",
    "#\\a", "(integer->char 0)", "(integer->char 1114111)", "#\\λ", "'a", "'sym", "'()", "'(1 2 3)", "(cons 1 2)", "(cons 1 (cons 2 3))", "'((1 2) (3))",
    "(vector)", "(vector 1 2 3)", "'#(1 2)", "(hash)", "(hash 'a 1 'b 2)", "(hashset)", "(hashset 1 2)", "(bytes)", "(bytes 1 2 255)", "#t", "#f", "void",
    "(lambda (x) x)", "(lambda () 1)", "(lambda args args)", "car", "+", "(box 1)", "(fuzz-pt 1 2)", "(open-input-string \"abc\")", "(open-output-string)",
    "(range 0 5)", "(list 1.5 'a \"s\")", "(make-vector 3 0)", "(string->symbol \"\")",
];

const DENY_SUBSTR: &[&str] = &[
    "file", "path", "directory", "dir", "port", "stdin", "stdout", "stderr", "tcp", "http", "socket", "command", "process", "spawn", "thread", "sleep", "exit",
    "eval", "load", "require", "dylib", "time", "instant", "duration", "random", "rand", "channel", "mutex", "lock", "child", "env", "read", "write", "flush",
    "delete", "create", "copy", "glob", "canonical", "which", "git", "future", "async", "await", "poll", "block", "wait", "join", "interrupt", "pause", "resume",
    "emit", "expand", "compile", "engine", "module", "macro", "syntax", "vtable", "breakpoint", "inspect", "stack", "call-with", "callcc", "call/cc", "continuation",
    "display", "print", "log", "debug", "trace", "panic", "assert", "memory", "gc", "will", "weak", "local-time", "current", "make-tls", "get-tls", "set-tls",
    "input", "output", "transduce", "stream", "iter", "with-handler", "dynamic-wind", "profil", "jit", "verif", "arity", "function-name", "doc", "help",
    "steel-home", "home", "ps", "kill", "signal", "pid", "terminal", "readline", "repl", "error-with-span", "raise-error", "poke", "box-strong", "ffi", "#%prim",
    "command-line", "args", "make-struct-type", "struct", "private", "black-box", "unsafe", "native", "sort", "apply", "map", "filter", "fold", "reduce", "for-each",
];

#[derive(Clone, Debug, Serialize, Deserialize)]
pub struct CallBatch {
    /// (builtin name, indices into ARG_POOL)
    pub calls: Vec<(String, Vec<u16>)>,
}

fn render_call(name: &str, args: &[u16]) -> String {
    let a: Vec<&str> = args.iter().map(|i| ARG_POOL[(*i as usize * ARG_POOL.len()) >> 16]).collect();
    if a.is_empty() {
        format!("({})", name)
    } else {
        format!("({} {})", name, a.join(" "))
    }
}

fn builtin_names(ws: &mut Workers) -> Vec<String> {
    let r = ws.run(&Config::default_cfg(), &Case::new(vec![Step::Special { name: "builtin-names".into(), args: vec![] }]));
    let mut names: Vec<String> = r.steps.first().map(|s| s.values.clone()).unwrap_or_default().into_iter().filter_map(|l| l.split_once('\t').map(|x| x.1.to_string())).collect();
    names.sort();
    names.dedup();
    names
        .into_iter()
        .filter(|n| {
            let l = n.to_lowercase();
            !n.starts_with("#%") && !n.starts_with('%') && !n.starts_with("##") && !n.contains(' ') && !n.contains('|') && !DENY_SUBSTR.iter().any(|d| l.contains(d))
        })
        .collect()
}

fn check_calls(ctx: &Ctx, ws: &mut Workers, b: &CallBatch, counting: bool) -> PropResult {
    let cfg = Config::default_cfg();
    let mut steps = vec![Step::Eval { src: format!("{}\n(struct fuzz-pt (x y))", PRELUDE) }];
    for (name, args) in &b.calls {
        steps.push(Step::Eval { src: render_call(name, args) });
    }
    steps.push(Step::Eval { src: PROBE.to_string() });
    let mut case = Case::new(steps);
    case.timeout_ms = 30_000;
    case.mem_mb = 4096;
    let r = ws.run(&cfg, &case);
    ctx.stats.engine_runs.fetch_add(1, std::sync::atomic::Ordering::Relaxed);
    let shown: Vec<String> = b.calls.iter().map(|(n, a)| render_call(n, a)).collect();
    // name the call that was running when the process died / panicked
    let culprit = r.steps.len().saturating_sub(1).min(shown.len().saturating_sub(1));
    let focus = if r.end != End::Done || r.steps.iter().any(|s| s.outcome == Outcome::Panic) {
        let idx = if r.end != End::Done { culprit } else { r.steps.iter().position(|s| s.outcome == Outcome::Panic).unwrap().saturating_sub(1) };
        format!("failing call: {}\nwhole batch:\n{}", shown.get(idx).cloned().unwrap_or_default(), shown.join("\n"))
    } else {
        shown.join("\n")
    };
    match judge_usable("c07b", &r, b.calls.len(), &focus, &cfg) {
        Ok(true) => {
            if counting {
                for (i, (name, args)) in b.calls.iter().enumerate() {
                    ctx.stats.eval();
                    let st = &r.steps[i + 1];
                    let passed_arity = !(st.outcome == Outcome::Err && st.err_kind == "ArityMismatch");
                    if passed_arity {
                        ctx.stats.nontrivial(&render_call(name, args));
                    }
                    ctx.stats.class(if st.outcome == Outcome::Ok { "call:ok" } else if passed_arity { "call:error" } else { "call:arity-error" });
                }
                if ctx.stats.want_sample() {
                    ctx.stats.sample(serde_json::json!({"calls": shown.iter().take(6).collect::<Vec<_>>()}));
                }
            }
            Ok(())
        }
        Ok(false) => {
            if counting {
                ctx.stats.inconclusive.fetch_add(1, std::sync::atomic::Ordering::Relaxed);
                ctx.stats.class(if r.end == End::Oom { "batch:resource-limit" } else { "batch:watchdog" });
            }
            Ok(())
        }
        Err(f) => Err(f),
    }
}

// ---------------------------------------------------------------------------------------

#[derive(Clone, Debug, Serialize, Deserialize)]
pub enum Case07 {
    Text(TextCase),
    Calls(CallBatch),
    Hist(c06::HistCase),
}

fn check(ctx: &Ctx, ws: &mut Workers, c: &Case07, counting: bool) -> PropResult {
    match c {
        Case07::Text(t) => check_text(ctx, ws, t, counting),
        Case07::Calls(b) => check_calls(ctx, ws, b, counting),
        Case07::Hist(h) => {
            let cfgs = [Config::default_cfg(), Config::jit_off()];
            let r = c06::check_case(ctx, ws, h, false, &cfgs, "c07c");
            if counting {
                ctx.stats.eval();
                ctx.stats.class("history-with-failing-steps");
                if h.failing_steps >= 2 {
                    ctx.stats.nontrivial(&format!("{:?}", h.history));
                }
            }
            r
        }
    }
}

fn handle(ctx: &Ctx, c: &Case07, r: PropResult, counting: bool, sub: &str) -> PropResult {
    match r {
        Err(f) => {
            if let Some(k) = ctx.match_known(&f) {
                if counting {
                    ctx.note_known_hit(&k.id);
                    ctx.dump_known_case(k, sub, c, &f);
                }
                Ok(())
            } else if ctx.survey(&f) {
                Ok(())
            } else {
                Err(f)
            }
        }
        ok => ok,
    }
}

/// a stored program of the C01 generator (panics / aborts of the JIT tier found there)
fn check_prog(ctx: &Ctx, ws: &mut Workers, c: &crate::checks::c01::ProgCase) -> PropResult {
    let mut c = c.clone();
    c.text = svmodel::ast::render_program(&c.program);
    let cfgs = [Config::default_cfg(), Config::jit_off()];
    crate::checks::c01::check_case_with(ctx, ws, &c, false, &cfgs, true, "c07", &[crate::progcheck::Entry::Repl, crate::progcheck::Entry::Module], false, &|_, _| false)
}

pub fn run(ctx: &Ctx, replay: Option<&str>) -> i32 {
    ctx.set_rule(
        "(a) texts: C01 programs with 1-5 token-level mutations (delete, duplicate, swap, splice/replace from a dictionary of special \
         forms and reader prefixes, move a range), token soups of 1-23 dictionary tokens, arbitrary Unicode strings <=60 chars; each \
         evaluated (JIT on/off) between a prelude and a probe program, divergent mutants stopped by the step-count interrupt hook. \
         (b) calls: every exported builtin that passes the denylist x 0-4 arguments from a 70-entry pool of value kinds and \
         boundary magnitudes, 40 calls per engine followed by the probe. (c) histories with failing steps (C06 generator, failure \
         weight 12). Non-trivial = (a) text that gets past the parser, (b) call that passes the arity check, (c) history with >=2 \
         failing steps; distinct by text.",
    );
    ctx.assume("a batch killed by the address-space limit after a huge allocation request, or by the watchdog, is inconclusive (resource class), not a crash");
    c06::set_avoid(ctx);
    if let Some(path) = replay {
        let Some(rf) = load_replay::<Case07>(std::path::Path::new(path)) else {
            // panics found by the C01 program generator are stored in its format
            if let Some(rf) = load_replay::<crate::checks::c01::ProgCase>(std::path::Path::new(path)) {
                let mut ws = Workers::new();
                return match check_prog(ctx, &mut ws, &rf.case) {
                    Ok(()) => {
                        println!("replay {}: property holds", path);
                        0
                    }
                    Err(f) => {
                        println!("VIOLATION property={} replay={}", ctx.prop, path);
                        println!("  sig: {}\n{}", f.sig, f.detail);
                        1
                    }
                };
            }
            eprintln!("cannot read replay file {}", path);
            return 2;
        };
        let mut ws = Workers::new();
        return match check(ctx, &mut ws, &rf.case, false) {
            Ok(()) => {
                println!("replay {}: property holds", path);
                0
            }
            Err(f) => {
                println!("VIOLATION property={} replay={}", ctx.prop, path);
                println!("  sig: {}\n{}", f.sig, f.detail);
                1
            }
        };
    }
    let names = {
        let mut ws = Workers::new();
        for sub in ["text", "calls", "hist"] {
            replay_tier::<Case07>(ctx, sub, &mut |c| check(ctx, &mut ws, c, false));
        }
        replay_tier::<crate::checks::c01::ProgCase>(ctx, "prog", &mut |c| check_prog(ctx, &mut ws, c));
        builtin_names(&mut ws)
    };
    ctx.extra("builtins_fuzzed", serde_json::json!(names.len()));
    if names.len() < 100 {
        eprintln!("INFRA: only {} builtin names enumerated", names.len());
        return 2;
    }
    // (a)
    let fails = run_prop(ctx, "text", || text_case().prop_map(Case07::Text), ctx.n(6000, 300_000), |ws, c, counting| {
        let r = check(ctx, ws, c, counting);
        handle(ctx, c, r, counting, "text")
    });
    report_failures(ctx, "text", fails);
    // (b)
    let names2 = names.clone();
    let fails = run_prop(
        ctx,
        "calls",
        move || {
            let names = names2.clone();
            prop::collection::vec((0..names.len(), prop::collection::vec(any::<u16>(), 0..=4)), 40..=40)
                .prop_map(move |v| Case07::Calls(CallBatch { calls: v.into_iter().map(|(i, a)| (names[i].clone(), a)).collect() }))
        },
        ctx.n(1500, 60_000),
        |ws, c, counting| {
            let r = check(ctx, ws, c, counting);
            handle(ctx, c, r, counting, "calls")
        },
    );
    // shrink a failing batch to the failing call alone where possible
    let mut ws = Workers::new();
    let fails: Vec<(Case07, Failure)> = fails
        .into_iter()
        .map(|(c, f)| {
            if let Case07::Calls(b) = &c {
                for call in &b.calls {
                    let single = Case07::Calls(CallBatch { calls: vec![call.clone()] });
                    if let Err(g) = check(ctx, &mut ws, &single, false) {
                        if g.sig == f.sig {
                            return (single, g);
                        }
                    }
                }
            }
            (c, f)
        })
        .collect();
    report_failures(ctx, "calls", fails);
    // (c)
    let fails = run_prop(
        ctx,
        "hist",
        || prop::collection::vec(any::<u16>(), 0..800).prop_map(|d| Case07::Hist(c06::case_from_choices(&d, &HistOpts { avoid: c06::avoid(), max_ops: 30, fail_weight: 12, bulk: false }))),
        ctx.n(300, 10_000),
        |ws, c, counting| {
            let r = check(ctx, ws, c, counting);
            handle(ctx, c, r, counting, "hist")
        },
    );
    report_failures(ctx, "hist", fails);
    ctx.finish()
}
