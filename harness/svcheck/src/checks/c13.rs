//! C13 — syntax-rules macros are hygienic and referentially transparent.
//! (a) hygiene, differential / metamorphic: a scenario (macro definition + use site) is run twice,
//!     once with use-site names that clash with the identifiers the template introduces or refers
//!     to, once alpha-renamed so that nothing clashes; both must give the same values;
//! (b) pattern matching against a reference matcher: generated patterns with literals, nested
//!     ellipses, items after an ellipsis and dotted tails; the template reports what every pattern
//!     variable was bound to; a use that no clause matches must be an error, never a panic.

use crate::runner::*;
use crate::worker::{Config, Workers};
use proptest::prelude::*;
use serde::{Deserialize, Serialize};
use svmodel::gen::Chooser;
use svmodel::macros::{self, MatchCase, Scenario};
use svproto::*;

#[derive(Clone, Debug, Serialize, Deserialize)]
pub enum Case13 {
    Hygiene(Scenario),
    Match(MatchCase),
}

/// (everything before the last top-level form, the last top-level form)
fn split_last_form(text: &str) -> (String, String) {
    let bytes: Vec<char> = text.chars().collect();
    let mut depth = 0i32;
    let mut start_of_last = 0usize;
    for (i, ch) in bytes.iter().enumerate() {
        match ch {
            '(' => {
                if depth == 0 {
                    start_of_last = i;
                }
                depth += 1;
            }
            ')' => depth -= 1,
            _ => {}
        }
    }
    (bytes[..start_of_last].iter().collect(), bytes[start_of_last..].iter().collect())
}

fn run_prog(ws: &mut Workers, cfg: &Config, module: &str, src: &str, as_module: bool) -> CaseResult {
    let mut steps = vec![];
    if !module.is_empty() {
        steps.push(Step::Module { name: "vmac".into(), src: module.to_string() });
    }
    if as_module {
        // the way `steel file.scm` runs a program: as the body of a module
        let (prefix, last) = split_last_form(src);
        steps.push(Step::Module { name: "vmain".into(), src: format!("(provide c13-result)\n{}\n(define c13-result {})", prefix, last) });
        steps.push(Step::Eval { src: "(require \"vmain\")\nc13-result".to_string() });
    } else {
        steps.push(Step::Eval { src: src.to_string() });
    }
    let mut case = Case::new(steps);
    case.timeout_ms = 15_000;
    ws.run(cfg, &case)
}

fn outcome_of(r: &CaseResult) -> (String, Option<Failure>) {
    match r.end {
        End::Done => {}
        End::Watchdog | End::Oom => return ("inconclusive".into(), None),
        End::Signal(s) => return ("signal".into(), Some(Failure::new("c13:signal", format!("engine process died with signal {}\nstderr: {}", s, r.stderr_tail)))),
        End::Exit(x) => return ("exit".into(), Some(Failure::new("c13:exit", format!("engine process exited with status {}", x)))),
    }
    let Some(st) = r.steps.last() else { return ("nothing".into(), None) };
    match st.outcome {
        Outcome::Panic => ("panic".into(), Some(Failure::new("c13:panic", format!("panic: {}", st.err_msg)))),
        Outcome::Err => (format!("error {}", st.err_kind), None),
        Outcome::Ok => (format!("ok {}", st.values.iter().filter(|v| *v != "#void").cloned().collect::<Vec<_>>().join(" ")), None),
    }
}

pub fn check(ctx: &Ctx, ws: &mut Workers, c: &Case13, counting: bool) -> PropResult {
    check_with(ctx, ws, c, counting, false)
}

/// `strict`: listed findings are reported like any other failure (replays)
pub fn check_with(ctx: &Ctx, ws: &mut Workers, c: &Case13, counting: bool, strict: bool) -> PropResult {
    for cfg in [Config::jit_off(), Config::default_cfg()] {
        match c {
            Case13::Hygiene(s) => {
              for as_module in [false, true] {
                let r1 = run_prog(ws, &cfg, &s.module, &s.renamed, as_module);
                let r2 = run_prog(ws, &cfg, &s.module, &s.clash, as_module);
                ctx.stats.engine_runs.fetch_add(2, std::sync::atomic::Ordering::Relaxed);
                let entry = if as_module { "module" } else { "repl" };
                let shown = format!(
                    "config: {} entry: {}\nscenario: {}\n{}program with clashing names:\n{}\nalpha-renamed program:\n{}",
                    cfg.label(),
                    entry,
                    s.kind,
                    if s.module.is_empty() { String::new() } else { format!("module vmac:\n{}\n", s.module) },
                    s.clash,
                    s.renamed
                );
                let (o1, f1) = outcome_of(&r1);
                let (o2, f2) = outcome_of(&r2);
                if let Some(mut f) = f1.or(f2) {
                    f.detail = format!("{}\n{}", shown, f.detail);
                    return Err(f);
                }
                if o1 == "inconclusive" || o2 == "inconclusive" {
                    if counting {
                        ctx.stats.inconclusive.fetch_add(1, std::sync::atomic::Ordering::Relaxed);
                    }
                    return Ok(());
                }
                if !o1.starts_with("ok ") {
                    // every scenario is a valid program: the expansion of the renamed variant must succeed
                    return Err(Failure::new(format!("c13:expansion-failed:{}:{}", entry, s.kind), format!("{}\nthe alpha-renamed program does not evaluate: {}", shown, o1)));
                }
                if o1 != o2 {
                    let f = Failure::new(
                        format!("c13:hygiene:{}:{}", entry, s.kind),
                        format!("{}\nvalues with clashing names: {}\nvalues after renaming:     {}", shown, o2, o1),
                    );
                    // a listed finding in one entry mode must not hide the other entry mode
                    if !strict {
                        if let Some(k) = ctx.match_known(&f) {
                            if counting {
                                ctx.note_known_hit(&k.id);
                                ctx.dump_known_case(k, "hygiene", c, &f);
                            }
                            continue;
                        }
                    }
                    return Err(f);
                }
              }
            }
            Case13::Match(m) => {
                let mut steps = vec![Step::Eval { src: m.definition.clone() }];
                for (u, _) in &m.uses {
                    steps.push(Step::Eval { src: u.clone() });
                }
                let mut case = Case::new(steps);
                case.timeout_ms = 15_000;
                case.continue_after_panic = true;
                let r = ws.run(&cfg, &case);
                ctx.stats.engine_runs.fetch_add(1, std::sync::atomic::Ordering::Relaxed);
                let shown = format!("config: {}\n{}", cfg.label(), m.definition);
                match r.end {
                    End::Done => {}
                    End::Watchdog | End::Oom => {
                        if counting {
                            ctx.stats.inconclusive.fetch_add(1, std::sync::atomic::Ordering::Relaxed);
                        }
                        return Ok(());
                    }
                    End::Signal(s) => return Err(Failure::new("c13:match:signal", format!("{}\nengine process died with signal {}\nstderr: {}", shown, s, r.stderr_tail))),
                    End::Exit(x) => return Err(Failure::new("c13:match:exit", format!("{}\nengine exited with {}", shown, x))),
                }
                let Some(d) = r.steps.first() else { return Ok(()) };
                if d.outcome == Outcome::Panic {
                    return Err(Failure::new("c13:match:panic-in-definition", format!("{}\npanic: {}", shown, d.err_msg)));
                }
                if d.outcome != Outcome::Ok {
                    // the definition is rejected: a syntax error is an allowed answer for a pattern the
                    // implementation does not support; counted, not compared
                    if counting {
                        ctx.stats.class("match:definition-rejected");
                        ctx.stats.class(&format!("match:definition-rejected:{}:{}", d.err_kind, d.err_msg.chars().take(70).collect::<String>()));
                    }
                    return Ok(());
                }
                for (i, (u, exp)) in m.uses.iter().enumerate() {
                    let Some(st) = r.steps.get(i + 1) else { break };
                    let got = st.values.iter().rev().find(|v| *v != "#void").cloned().unwrap_or_default();
                    match (st.outcome.clone(), exp) {
                        (Outcome::Panic, _) => return Err(Failure::new("c13:match:panic", format!("{}\nuse: {}\npanic: {}", shown, u, st.err_msg))),
                        (Outcome::Ok, Some(e)) if got == *e => {}
                        (Outcome::Err, None) => {}
                        (Outcome::Ok, Some(e)) => return Err(Failure::new("c13:match:wrong-binding", format!("{}\nuse: {}\nexpected: {}\nactual:   {}", shown, u, e, got))),
                        (Outcome::Err, Some(e)) => return Err(Failure::new("c13:match:rejected-matching-use", format!("{}\nuse: {}\nexpected: {}\nactual: error {}: {}", shown, u, e, st.err_kind, st.err_msg))),
                        (Outcome::Ok, None) => return Err(Failure::new("c13:match:accepted-non-matching-use", format!("{}\nuse: {}\nno clause matches, expected a syntax error\nactual: {}", shown, u, got))),
                    }
                }
            }
        }
    }
    if counting {
        ctx.stats.eval();
        match c {
            Case13::Hygiene(s) => {
                ctx.stats.class(&format!("hygiene:{}", s.kind));
                ctx.stats.nontrivial(&s.clash);
            }
            Case13::Match(m) => {
                for f in &m.features {
                    ctx.stats.class(&format!("match:{}", f));
                }
                if m.features.iter().any(|f| f == "ellipsis" || f == "dotted-tail" || f == "literal") && m.uses.len() >= 2 {
                    ctx.stats.nontrivial(&format!("{}{:?}", m.definition, m.uses));
                }
                if ctx.stats.want_sample() {
                    ctx.stats.sample(serde_json::json!({"definition": m.definition, "uses": m.uses}));
                }
            }
        }
    }
    Ok(())
}

pub fn run(ctx: &Ctx, replay: Option<&str>) -> i32 {
    ctx.set_rule(
        "(a) 11 scenario families x 6 template-introduced binder names / 8 template free identifiers: swap! and or-style \
         temporaries, use-site bindings of the template's free functions and special forms, a macro whose template uses another \
         macro introducing the same spelling, a macro-defining macro, recursive macros, let*-style binders, a macro imported from a \
         module whose private helper shares its name with a definition of the requiring program, binders inside lambda and named \
         let templates; each is run with clashing use-site names and alpha-renamed: equal values required (a scenario the \
         renamed variant of which does not evaluate is counted as unsupported). (b) generated syntax-rules definitions with 1-3 \
         clauses over patterns of depth <=3 (pattern variables, the literals => else in, data, one ellipsis per list possibly \
         followed by further items, dotted tail variables), 2-5 uses made by instantiating a clause's pattern and perturbing one \
         use in three; the template quotes what every variable matched; expected value from a reference matcher (first matching \
         clause), a use no clause matches must raise. Non-trivial = every hygiene case; match cases with an ellipsis, literal or \
         dotted tail and >=2 uses.",
    );
    ctx.assume("alpha-renaming use-site variables to names that occur nowhere else preserves the meaning of a program under hygienic expansion");
    if let Some(path) = replay {
        let Some(rf) = load_replay::<Case13>(std::path::Path::new(path)) else {
            eprintln!("cannot read replay file {}", path);
            return 2;
        };
        let mut ws = Workers::new();
        return match check_with(ctx, &mut ws, &rf.case, false, true) {
            Ok(()) => {
                println!("replay {}: property holds", path);
                0
            }
            Err(f) => {
                println!("VIOLATION property={} replay={}", ctx.prop, path);
                println!("  sig: {}\n{}", f.sig, f.detail);
                1
            }
        };
    }
    {
        let mut ws = Workers::new();
        for sub in ["hygiene", "match"] {
            replay_tier::<Case13>(ctx, sub, &mut |c| check_with(ctx, &mut ws, c, false, true));
        }
    }
    let handle = |sub: &str, c: &Case13, r: PropResult, counting: bool| -> PropResult {
        match r {
            Err(f) => {
                if let Some(k) = ctx.match_known(&f) {
                    if counting {
                        ctx.note_known_hit(&k.id);
                        ctx.dump_known_case(k, sub, c, &f);
                    }
                    Ok(())
                } else if ctx.survey_case(sub, c, &f) {
                    Ok(())
                } else {
                    Err(f)
                }
            }
            ok => ok,
        }
    };
    let avoid_capture = ctx.is_known_active("KF-C13-use-site-capture");
    if avoid_capture {
        ctx.stats.excluded("KF-C13-use-site-capture");
    }
    let fails = run_prop(
        ctx,
        "hygiene",
        || prop::collection::vec(any::<u16>(), 0..12).prop_map(move |d| Case13::Hygiene(macros::scenario(&mut Chooser::new(&d), avoid_capture))),
        ctx.n(1500, 20_000),
        |ws, c, counting| {
            let r = check(ctx, ws, c, counting);
            handle("hygiene", c, r, counting)
        },
    );
    report_failures(ctx, "hygiene", fails);
    let fails = run_prop(
        ctx,
        "match",
        || prop::collection::vec(any::<u16>(), 0..200).prop_map(|d| Case13::Match(macros::match_case(&mut Chooser::new(&d)))),
        ctx.n(6000, 300_000),
        |ws, c, counting| {
            let r = check(ctx, ws, c, counting);
            handle("match", c, r, counting)
        },
    );
    report_failures(ctx, "match", fails);
    ctx.finish()
}
