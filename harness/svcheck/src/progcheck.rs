//! Shared by the program-based checks (C01 C02 C04 C08 ...): run a generated program through
//! the reference interpreter and through the engine, compare.

use crate::runner::*;
use crate::worker::{Config, Workers};
use svmodel::ast::*;
use svmodel::interp::{Interp, PieceOutcome, PieceResult};
use svproto::*;

pub struct ModelRun {
    pub result: PieceResult,
    pub trace: std::collections::BTreeMap<&'static str, u64>,
}

/// None = the program is outside the modelled domain (fuel, unmodelled printed form).
pub fn model_run(prog: &Program) -> Option<ModelRun> {
    let mut it = Interp::new();
    let r = it.run_piece(prog);
    if r.outcome == PieceOutcome::OutOfFuel || r.unmodelled_print {
        return None;
    }
    Some(ModelRun { result: r, trace: it.trace.clone() })
}

/// top-level values that are compared: voids dropped (Steel's top-level macros add some), and
/// every procedure rendered alike (which library procedures are native is not observable)
pub fn nonvoid(vals: &[String]) -> Vec<String> {
    vals.iter()
        .filter(|v| *v != "#void")
        .map(|v| v.replace("#<closure>", "#<procedure>").replace("#<function>", "#<procedure>").replace("#<continuation>", "#<procedure>"))
        .collect()
}

/// Compare one engine step with the model's result for the same piece.
pub fn compare_piece(tag: &str, model: &PieceResult, st: &StepResult, ctxt: &str) -> PropResult {
    match st.outcome {
        Outcome::Panic => {
            return Err(Failure::new(format!("{}:panic", tag), format!("{}\nengine panicked: {}", ctxt, st.err_msg)));
        }
        Outcome::Ok => {
            if let PieceOutcome::Err(k) = &model.outcome {
                return Err(Failure::new(
                    format!("{}:missing-error", tag),
                    format!("{}\nmodel: error ({}) after output {:?}\nengine: Ok values {:?} output {:?}", ctxt, k, model.stdout, st.values, st.stdout),
                ));
            }
            if st.stdout != model.stdout {
                return Err(Failure::new(
                    format!("{}:wrong-output", tag),
                    format!("{}\nmodel output:  {:?}\nengine output: {:?}", ctxt, model.stdout, st.stdout),
                ));
            }
            let got = nonvoid(&st.values);
            let exp = nonvoid(&model.values);
            if got != exp {
                return Err(Failure::new(
                    format!("{}:wrong-value", tag),
                    format!("{}\nmodel values:  {:?}\nengine values: {:?}", ctxt, exp, got),
                ));
            }
            Ok(())
        }
        Outcome::Err => match &model.outcome {
            PieceOutcome::Ok => Err(Failure::new(
                format!("{}:unexpected-error", tag),
                format!("{}\nmodel: Ok values {:?} output {:?}\nengine: error {}: {}", ctxt, model.values, model.stdout, st.err_kind, st.err_msg),
            )),
            PieceOutcome::Err(_) => {
                // an error may be detected statically (before anything ran): the engine's
                // output must be a prefix of the model's output up to the error
                if !model.stdout.starts_with(&st.stdout) {
                    return Err(Failure::new(
                        format!("{}:wrong-output-before-error", tag),
                        format!("{}\nmodel output:  {:?}\nengine output: {:?}", ctxt, model.stdout, st.stdout),
                    ));
                }
                Ok(())
            }
            PieceOutcome::OutOfFuel => Ok(()),
        },
    }
}

pub enum RunVerdict {
    Done(PropResult),
    Inconclusive,
}

/// Run a single-piece program in one configuration and compare with the model.
pub fn check_program(tag: &str, ws: &mut Workers, cfg: &Config, prog: &Program, model: &PieceResult, pre: &[Step]) -> RunVerdict {
    let src = render_program(prog);
    let mut steps: Vec<Step> = pre.to_vec();
    steps.push(Step::Eval { src: src.clone() });
    let r = ws.run(cfg, &Case::new(steps));
    let ctxt = format!("config: {}\nprogram:\n{}", cfg.label(), src);
    match r.end {
        End::Done => {}
        End::Watchdog | End::Oom => return RunVerdict::Inconclusive,
        End::Signal(s) => {
            return RunVerdict::Done(Err(Failure::new(
                format!("{}:signal", tag),
                format!("{}\nengine process died with signal {}\nstderr: {}", ctxt, s, r.stderr_tail),
            )))
        }
        End::Exit(c) => {
            return RunVerdict::Done(Err(Failure::new(format!("{}:exit", tag), format!("{}\nengine process exited with status {}", ctxt, c))))
        }
    }
    let Some(st) = r.steps.last() else {
        return RunVerdict::Done(Err(Failure::new(format!("{}:noresult", tag), ctxt)));
    };
    if r.steps.len() != pre.len() + 1 {
        return RunVerdict::Done(Err(Failure::new(format!("{}:prelude-failed", tag), format!("{}\n{:?}", ctxt, st))));
    }
    let mut res = compare_piece(tag, model, st, &ctxt);
    if res.is_ok() {
        let stale = st.hooks.get("stale_accesses").copied().unwrap_or(0);
        let acct = st.hooks.get("accounting_errors").copied().unwrap_or(0);
        if stale != 0 {
            res = Err(Failure::new(format!("{}:stale-handle", tag), format!("{}\nstale heap handle accesses: {}", ctxt, stale)));
        } else if acct != 0 {
            res = Err(Failure::new(format!("{}:heap-accounting", tag), format!("{}\nfree-list accounting errors: {}", ctxt, acct)));
        }
    }
    RunVerdict::Done(res)
}
