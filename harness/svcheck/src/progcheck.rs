//! Shared by the program-based checks (C01 C02 C04 C08 ...): run a generated program through
//! the reference interpreter and through the engine, compare.

use crate::runner::*;
use crate::worker::{Config, Workers};
use svmodel::ast::*;
use svmodel::interp::{Interp, PieceOutcome, PieceResult};
use svproto::*;

pub struct ModelRun {
    pub result: PieceResult,
    pub trace: std::collections::BTreeMap<&'static str, u64>,
}

/// None = the program is outside the modelled domain (fuel, unmodelled printed form).
pub fn model_run(prog: &Program) -> Option<ModelRun> {
    let mut it = Interp::new();
    let r = it.run_piece(prog);
    if r.outcome == PieceOutcome::OutOfFuel || r.unmodelled_print {
        return None;
    }
    Some(ModelRun { result: r, trace: it.trace.clone() })
}

/// top-level values that are compared: voids dropped (Steel's top-level macros add some), and
/// every procedure rendered alike (which library procedures are native is not observable)
pub fn nonvoid(vals: &[String]) -> Vec<String> {
    vals.iter()
        .filter(|v| *v != "#void")
        .map(|v| v.replace("#<closure>", "#<procedure>").replace("#<function>", "#<procedure>").replace("#<continuation>", "#<procedure>").replace("#S:Continuation(#<procedure>)", "#<procedure>"))
        .collect()
}

/// Compare one engine step with the model's result for the same piece.
/// A mutated variable's storage cell itself (instead of its contents) reached user code:
/// the engine shows a box (`'#&v` printed, `#b(v)` in a value, "found: '#&" in a message)
/// where the model has none.
fn raw_box_leak(model: &PieceResult, st: &StepResult) -> bool {
    let model_has_box = model.values.iter().any(|v| v.contains("#b(")) || model.stdout.contains("#&");
    if model_has_box {
        return false;
    }
    st.stdout.contains("'#&") || st.values.iter().any(|v| v.contains("#b(")) || (st.outcome == Outcome::Err && st.err_msg.contains("'#&"))
}

/// The engine shows a void where the model has a value: a lost result (typically an error that
/// native code stashed and nobody picked up).
fn void_result(model: &PieceResult, st: &StepResult) -> bool {
    let model_void = model.values.iter().any(|v| v.contains("#void") && v != "#void") || model.stdout.contains("#<void>");
    if model_void {
        return false;
    }
    st.stdout.contains("#<void>")
        || (st.outcome == Outcome::Err && st.err_msg.contains("#<void>"))
        || (st.outcome == Outcome::Ok && st.values.iter().any(|v| v.contains("#void") && v != "#void"))
        || (st.outcome == Outcome::Ok && nonvoid(&st.values).len() < nonvoid(&model.values).len())
}

pub fn compare_piece(tag: &str, model: &PieceResult, st: &StepResult, ctxt: &str) -> PropResult {
    let r = compare_piece_inner(tag, model, st, ctxt);
    match r {
        Err(f) if st.outcome != Outcome::Panic && raw_box_leak(model, st) => Err(Failure::new(format!("{}:raw-box-leak", tag), f.detail)),
        Err(f) if st.outcome != Outcome::Panic && void_result(model, st) => Err(Failure::new(format!("{}-void", f.sig), f.detail)),
        r => r,
    }
}

fn compare_piece_inner(tag: &str, model: &PieceResult, st: &StepResult, ctxt: &str) -> PropResult {
    match st.outcome {
        Outcome::Panic => {
            return Err(Failure::new(format!("{}:panic", tag), format!("{}\nengine panicked: {}", ctxt, st.err_msg)));
        }
        Outcome::Ok => {
            if let PieceOutcome::Err(k) = &model.outcome {
                return Err(Failure::new(
                    format!("{}:missing-error", tag),
                    format!("{}\nmodel: error ({}) after output {:?}\nengine: Ok values {:?} output {:?}", ctxt, k, model.stdout, st.values, st.stdout),
                ));
            }
            if st.stdout != model.stdout {
                return Err(Failure::new(
                    format!("{}:wrong-output", tag),
                    format!("{}\nmodel output:  {:?}\nengine output: {:?}", ctxt, model.stdout, st.stdout),
                ));
            }
            let got = nonvoid(&st.values);
            let exp = nonvoid(&model.values);
            if got != exp {
                return Err(Failure::new(
                    format!("{}:wrong-value", tag),
                    format!("{}\nmodel values:  {:?}\nengine values: {:?}", ctxt, exp, got),
                ));
            }
            Ok(())
        }
        Outcome::Err => match &model.outcome {
            PieceOutcome::Ok => Err(Failure::new(
                format!("{}:unexpected-error", tag),
                format!("{}\nmodel: Ok values {:?} output {:?}\nengine: error {}: {}", ctxt, model.values, model.stdout, st.err_kind, st.err_msg),
            )),
            PieceOutcome::Err(_) => {
                // an error may be detected statically (before anything ran): the engine's
                // output must be a prefix of the model's output up to the error
                if !model.stdout.starts_with(&st.stdout) {
                    return Err(Failure::new(
                        format!("{}:wrong-output-before-error", tag),
                        format!("{}\nmodel output:  {:?}\nengine output: {:?}", ctxt, model.stdout, st.stdout),
                    ));
                }
                Ok(())
            }
            PieceOutcome::OutOfFuel => Ok(()),
        },
    }
}

pub enum RunVerdict {
    Done(PropResult),
    Inconclusive,
}

/// How a program enters the engine.  `Repl` = `Engine::run` / `compile_and_run_raw_program`
/// (embedding API, REPL): calls of builtins stay generic global calls because globals may be
/// redefined later.  `Module` = the program is the body of a module that a one-line main
/// program requires — this is how `steel file.scm` runs a file — and there the compiler
/// resolves non-shadowed builtins statically and emits the specialised opcodes (ADD, SUB, CAR,
/// LIST, immediate/register forms ...).
#[derive(Clone, Copy, Debug, PartialEq, Eq)]
pub enum Entry {
    Repl,
    Module,
}

/// (module source, main source): every expression statement `e` becomes `(define res<k> e)`,
/// all `res<k>` are provided, and the main program requires the module and lists them.
pub fn program_to_module(prog: &Program) -> (String, String) {
    let mut body = String::new();
    let mut names = vec![];
    for t in &prog.forms {
        match t {
            Top::Define(..) => body.push_str(&render_top(t)),
            Top::Expr(e) => {
                let n = format!("res{}", names.len());
                body.push_str(&format!("(define {} {})", n, render_expr(e)));
                names.push(n);
            }
        }
        body.push('\n');
    }
    if names.is_empty() {
        // `provide` needs at least one identifier
        body.push_str("(define vdummy 0)\n");
    }
    let module = format!("(provide {})\n{}", if names.is_empty() { "vdummy".to_string() } else { names.join(" ") }, body);
    let main = format!("(require \"vmain\")\n{}", names.join("\n"));
    (module, main)
}

/// Run a single-piece program in one configuration and compare with the model.
pub fn check_program(tag: &str, ws: &mut Workers, cfg: &Config, prog: &Program, model: &PieceResult, pre: &[Step]) -> RunVerdict {
    check_program_entry(tag, ws, cfg, prog, model, pre, Entry::Repl)
}

pub fn check_program_entry(
    tag: &str,
    ws: &mut Workers,
    cfg: &Config,
    prog: &Program,
    model: &PieceResult,
    pre: &[Step],
    entry: Entry,
) -> RunVerdict {
    check_program_hooks(tag, ws, cfg, prog, model, pre, entry).0
}

thread_local! {
    /// while set, explicit collection requests in the rendered program are replaced by `void` (C04 uses this
    /// to tell whether a failure needs a collection at all)
    pub static STRIP_GC_POINTS: std::cell::Cell<bool> = const { std::cell::Cell::new(false) };
}

/// also returns the hook counters read after the last step
pub fn check_program_hooks(
    tag: &str,
    ws: &mut Workers,
    cfg: &Config,
    prog: &Program,
    model: &PieceResult,
    pre: &[Step],
    entry: Entry,
) -> (RunVerdict, std::collections::BTreeMap<String, i64>) {
    let mut hooks = std::collections::BTreeMap::new();
    let v = check_program_inner(tag, ws, cfg, prog, model, pre, entry, &mut hooks);
    (v, hooks)
}

#[allow(clippy::too_many_arguments)]
fn check_program_inner(
    tag: &str,
    ws: &mut Workers,
    cfg: &Config,
    prog: &Program,
    model: &PieceResult,
    pre: &[Step],
    entry: Entry,
    hooks_out: &mut std::collections::BTreeMap<String, i64>,
) -> RunVerdict {
    let mut steps: Vec<Step> = pre.to_vec();
    let src = match entry {
        Entry::Repl => {
            let src = render_program(prog);
            steps.push(Step::Eval { src: src.clone() });
            src
        }
        Entry::Module => {
            let (m, main) = program_to_module(prog);
            steps.push(Step::Module { name: "vmain".into(), src: m.clone() });
            steps.push(Step::Eval { src: main.clone() });
            format!(";; module vmain\n{}\n;; main\n{}", m, main)
        }
    };
    let extra = if entry == Entry::Module { 2 } else { 1 };
    if STRIP_GC_POINTS.with(|c| c.get()) {
        for st in steps.iter_mut() {
            match st {
                Step::Eval { src } | Step::Module { src, .. } => *src = src.replace("(#%gc-collect)", "void"),
                _ => {}
            }
        }
    }
    let mut case = Case::new(steps);
    case.timeout_ms = 6000;
    let r = ws.run(cfg, &case);
    let ctxt = format!("config: {} entry: {:?}\nprogram:\n{}", cfg.label(), entry, src);
    match r.end {
        End::Done => {}
        End::Watchdog | End::Oom => return RunVerdict::Inconclusive,
        End::Signal(s) => {
            return RunVerdict::Done(Err(Failure::new(
                format!("{}:signal", tag),
                format!("{}\nengine process died with signal {}\nstderr: {}", ctxt, s, r.stderr_tail),
            )))
        }
        End::Exit(c) => {
            return RunVerdict::Done(Err(Failure::new(format!("{}:exit", tag), format!("{}\nengine process exited with status {}", ctxt, c))))
        }
    }
    let Some(st) = r.steps.last() else {
        return RunVerdict::Done(Err(Failure::new(format!("{}:noresult", tag), ctxt)));
    };
    if r.steps.len() != pre.len() + extra {
        return RunVerdict::Done(Err(Failure::new(format!("{}:prelude-failed", tag), format!("{}\n{:?}", ctxt, st))));
    }
    *hooks_out = st.hooks.clone();
    let mut res = compare_piece(tag, model, st, &ctxt);
    if res.is_ok() {
        let stale = st.hooks.get("stale_accesses").copied().unwrap_or(0);
        let acct = st.hooks.get("accounting_errors").copied().unwrap_or(0);
        if stale != 0 {
            res = Err(Failure::new(format!("{}:stale-handle", tag), format!("{}\nstale heap handle accesses: {}", ctxt, stale)));
        } else if acct != 0 {
            res = Err(Failure::new(format!("{}:heap-accounting", tag), format!("{}\nfree-list accounting errors: {}", ctxt, acct)));
        }
    }
    RunVerdict::Done(res)
}
