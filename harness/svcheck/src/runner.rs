//! Shared driver machinery: parallel proptest runs, statistics, evidence, known findings,
//! replay files, exit codes.

use crate::worker::Workers;
use proptest::strategy::Strategy;
use proptest::test_runner::{Config as PtConfig, RngAlgorithm, TestCaseError, TestError, TestRng, TestRunner};
use serde::{de::DeserializeOwned, Deserialize, Serialize};
use std::collections::{BTreeMap, HashSet};
use std::sync::atomic::{AtomicBool, AtomicU64, Ordering};
use std::sync::Mutex;

#[derive(Clone, Copy, PartialEq, Eq, Debug)]
pub enum Tier {
    Quick,
    Thorough,
}

#[derive(Clone, Debug, Serialize, Deserialize)]
pub struct Failure {
    /// short classification of *which oracle clause* failed (stable under shrinking)
    pub sig: String,
    /// human readable: expected vs actual
    pub detail: String,
}

impl Failure {
    pub fn new(sig: impl Into<String>, detail: impl Into<String>) -> Self {
        Failure { sig: sig.into(), detail: detail.into() }
    }
    /// the generator's feature tags of the failing program, as a line of `[feature:<name>]` items
    pub fn with_features(mut self, features: &[String]) -> Self {
        if !self.detail.contains("\nprogram-features:") {
            self.detail.push_str("\nprogram-features:");
            for f in features {
                self.detail.push_str(&format!(" [feature:{}]", f));
            }
        }
        self
    }
}

#[derive(Clone, Debug, Serialize, Deserialize)]
pub struct KnownFinding {
    pub id: String,
    pub property: String,
    /// "known" or "fixed"
    pub status: String,
    /// for fixed entries: the commit
    #[serde(default)]
    pub commit: String,
    pub what: String,
    /// replay file (relative to /verif) demonstrating the finding
    #[serde(default)]
    pub replay: String,
    /// a failure matches this finding iff its `sig` equals this string ...
    #[serde(default)]
    pub sig: String,
    /// ... and its detail contains every one of these substrings
    #[serde(default)]
    pub detail_contains: Vec<String>,
    /// ... and, when this list is not empty, at least one of these substrings (program checks append the
    /// generator's feature tags of the failing program to the detail as `[feature:<name>]`, so that a finding
    /// that needs a certain construct does not hide failures of programs without it)
    #[serde(default)]
    pub detail_any: Vec<String>,
    /// short text for the KNOWN-FINDING line (defaults to `what`)
    #[serde(default)]
    pub line: String,
}

#[derive(Default)]
pub struct Stats {
    pub evaluations: AtomicU64,
    pub engine_runs: AtomicU64,
    pub nontrivial: Mutex<HashSet<u64>>,
    pub samples: Mutex<Vec<serde_json::Value>>,
    pub classes: Mutex<BTreeMap<String, u64>>,
    pub excluded: Mutex<BTreeMap<String, u64>>,
    pub known_hits: Mutex<BTreeMap<String, u64>>,
    pub inconclusive: AtomicU64,
    /// survey mode (VERIF_SURVEY=1): sig -> (count, shortest detail)
    pub survey: Mutex<BTreeMap<String, (u64, String)>>,
}

impl Stats {
    pub fn eval(&self) {
        self.evaluations.fetch_add(1, Ordering::Relaxed);
    }
    pub fn class(&self, name: &str) {
        *self.classes.lock().unwrap().entry(name.to_string()).or_insert(0) += 1;
    }
    pub fn class_n(&self, name: &str, n: u64) {
        *self.classes.lock().unwrap().entry(name.to_string()).or_insert(0) += n;
    }
    pub fn excluded(&self, name: &str) {
        *self.excluded.lock().unwrap().entry(name.to_string()).or_insert(0) += 1;
    }
    pub fn nontrivial(&self, key: &str) {
        self.nontrivial.lock().unwrap().insert(hash_str(key));
    }
    pub fn sample(&self, v: serde_json::Value) {
        let mut s = self.samples.lock().unwrap();
        if s.len() < 5 {
            s.push(v);
        }
    }
    pub fn want_sample(&self) -> bool {
        self.samples.lock().unwrap().len() < 5
    }
}

/// `pattern` is a signature with optional `*` wildcards; a pattern starting with ':' matches
/// as a suffix (signatures are prefixed by the tag of the check that found the failure).
pub fn sig_matches(pattern: &str, sig: &str) -> bool {
    fn glob(p: &[u8], s: &[u8]) -> bool {
        match (p.first(), s.first()) {
            (None, None) => true,
            (Some(b'*'), _) => glob(&p[1..], s) || (!s.is_empty() && glob(p, &s[1..])),
            (Some(a), Some(b)) if a == b => glob(&p[1..], &s[1..]),
            _ => false,
        }
    }
    if pattern.starts_with(':') {
        glob(format!("*{}", pattern).as_bytes(), sig.as_bytes())
    } else {
        glob(pattern.as_bytes(), sig.as_bytes())
    }
}

pub fn hash_str(s: &str) -> u64 {
    // FNV-1a
    let mut h: u64 = 0xcbf29ce484222325;
    for b in s.as_bytes() {
        h ^= *b as u64;
        h = h.wrapping_mul(0x100000001b3);
    }
    h
}

pub struct Ctx {
    pub prop: String,
    pub tier: Tier,
    pub seed: u64,
    pub threads: usize,
    pub stats: Stats,
    pub known: Vec<KnownFinding>,
    pub violations: Mutex<Vec<String>>,
    pub known_lines: Mutex<Vec<String>>,
    pub t0: std::time::Instant,
    pub rule: Mutex<String>,
    pub extra: Mutex<BTreeMap<String, serde_json::Value>>,
    pub assumptions: Mutex<Vec<String>>,
    pub verif_dir: std::path::PathBuf,
}

impl Ctx {
    pub fn new(prop: &str, tier: Tier) -> Ctx {
        let seed = std::env::var("VERIF_SEED").ok().and_then(|s| s.parse::<i64>().ok()).unwrap_or(1) as u64;
        // checks whose cases start several OS threads themselves, or whose oracle includes a time
        // limit, run fewer cases in parallel so that the machine is not oversubscribed
        let default_threads = match prop {
            "C15" | "C16" => 4,
            "C17" => 8,
            _ => 16,
        };
        let threads = std::env::var("VERIF_THREADS").ok().and_then(|s| s.parse().ok()).unwrap_or(default_threads);
        let verif_dir: std::path::PathBuf =
            std::env::var("VERIF_DIR").unwrap_or_else(|_| "/verif".to_string()).into();
        let known: Vec<KnownFinding> = std::fs::read_to_string(verif_dir.join("known-findings.json"))
            .ok()
            .and_then(|s| serde_json::from_str(&s).ok())
            .unwrap_or_default();
        Ctx {
            prop: prop.to_string(),
            tier,
            seed,
            threads,
            stats: Stats::default(),
            known,
            violations: Mutex::new(vec![]),
            known_lines: Mutex::new(vec![]),
            t0: std::time::Instant::now(),
            rule: Mutex::new(String::new()),
            extra: Mutex::new(BTreeMap::new()),
            assumptions: Mutex::new(vec![]),
            verif_dir,
        }
    }

    pub fn quick(&self) -> bool {
        self.tier == Tier::Quick
    }

    /// Survey mode (development aid, VERIF_SURVEY=1): failures are tabulated by signature
    /// instead of stopping the search.  Returns true if the failure was swallowed.
    pub fn survey(&self, f: &Failure) -> bool {
        if std::env::var("VERIF_SURVEY").is_err() {
            return false;
        }
        let mut g = self.stats.survey.lock().unwrap();
        let e = g.entry(f.sig.clone()).or_insert((0, f.detail.clone()));
        e.0 += 1;
        if f.detail.len() < e.1.len() {
            e.1 = f.detail.clone();
        }
        true
    }

    /// survey mode with the failing value at hand: additionally keeps the smallest failing case of
    /// every signature as replays/<prop>/new/survey-<sig>.json (development aid)
    pub fn survey_case<V: Serialize>(&self, sub: &str, value: &V, f: &Failure) -> bool {
        if std::env::var("VERIF_SURVEY").is_err() {
            return false;
        }
        let body = serde_json::json!({"property": self.prop, "sub": sub, "sig": f.sig, "detail": f.detail, "seed": self.seed, "case": value});
        let text = serde_json::to_string(&body).unwrap();
        let dir = self.verif_dir.join("replays").join(&self.prop).join("new");
        let _ = std::fs::create_dir_all(&dir);
        let name: String = f.sig.chars().map(|c| if c.is_ascii_alphanumeric() { c } else { '_' }).collect();
        let path = dir.join(format!("{}-survey-{}.json", sub, name));
        let smaller = std::fs::metadata(&path).map(|m| (text.len() as u64) < m.len()).unwrap_or(true);
        if smaller {
            let _ = std::fs::write(&path, text);
        }
        self.survey(f)
    }

    /// pick a size by tier
    pub fn n(&self, quick: u64, thorough: u64) -> u64 {
        let scale = std::env::var("VERIF_SCALE").ok().and_then(|s| s.parse::<f64>().ok()).unwrap_or(1.0);
        let base = if self.quick() { quick } else { thorough };
        ((base as f64) * scale).max(1.0) as u64
    }

    pub fn set_rule(&self, r: &str) {
        *self.rule.lock().unwrap() = r.to_string();
    }
    pub fn assume(&self, a: &str) {
        self.assumptions.lock().unwrap().push(a.to_string());
    }
    pub fn extra(&self, k: &str, v: serde_json::Value) {
        self.extra.lock().unwrap().insert(k.to_string(), v);
    }

    /// Known (unfixed) findings of this property.
    pub fn known_active(&self) -> Vec<&KnownFinding> {
        self.known.iter().filter(|k| k.property == self.prop && k.status == "known").collect()
    }

    pub fn is_known_active(&self, id: &str) -> bool {
        self.known.iter().any(|k| k.id == id && k.status == "known")
    }

    /// Does the failure match a listed known finding (of any property: a failure found by one
    /// check may be attributed to the property whose oracle clause it violates)?
    pub fn match_known(&self, f: &Failure) -> Option<&KnownFinding> {
        // development aid: VERIF_NO_KNOWN=1 (with VERIF_SURVEY=1) tabulates every failure, listed or not
        if std::env::var("VERIF_NO_KNOWN").is_ok() {
            return None;
        }
        self.known.iter().find(|k| {
            k.status == "known"
                && !k.sig.is_empty()
                && sig_matches(&k.sig, &f.sig)
                && k.detail_contains.iter().all(|d| f.detail.contains(d))
                && (k.detail_any.is_empty() || k.detail_any.iter().any(|d| f.detail.contains(d)))
        })
    }

    /// Development aid (VERIF_DUMP_KNOWN=1): save the first case that matched a known finding
    /// which has no replay file yet, so that it can be committed as that finding's replay.
    pub fn dump_known_case<V: Serialize>(&self, k: &KnownFinding, sub: &str, value: &V, f: &Failure) {
        if std::env::var("VERIF_DUMP_KNOWN").is_err() || !k.replay.is_empty() {
            return;
        }
        let dir = self.verif_dir.join("replays").join(&self.prop).join("new");
        let _ = std::fs::create_dir_all(&dir);
        let path = dir.join(format!("{}-known-{}.json", sub, k.id));
        if path.exists() {
            return;
        }
        let body = serde_json::json!({"property": self.prop, "sub": sub, "sig": f.sig, "detail": f.detail, "seed": self.seed, "case": value});
        let _ = std::fs::write(&path, serde_json::to_string_pretty(&body).unwrap());
    }

    pub fn note_known_hit(&self, id: &str) {
        *self.stats.known_hits.lock().unwrap().entry(id.to_string()).or_insert(0) += 1;
    }

    /// Record a violation: write the replay file, remember the VIOLATION line.
    pub fn violation<V: Serialize>(&self, sub: &str, value: &V, f: &Failure) {
        let body = serde_json::json!({
            "property": self.prop,
            "sub": sub,
            "sig": f.sig,
            "detail": f.detail,
            "seed": self.seed,
            "case": value,
        });
        let text = serde_json::to_string_pretty(&body).unwrap();
        let dir = self.verif_dir.join("replays").join(&self.prop).join("new");
        let _ = std::fs::create_dir_all(&dir);
        let path = dir.join(format!("{}-{:016x}.json", sub, hash_str(&text)));
        let _ = std::fs::write(&path, &text);
        let line = format!("VIOLATION property={} replay={}", self.prop, path.display());
        println!("{}", line);
        println!("  sig: {}", f.sig);
        for l in f.detail.lines().take(40) {
            println!("  | {}", l);
        }
        self.violations.lock().unwrap().push(line);
    }

    pub fn known_finding_line(&self, k: &KnownFinding) {
        // a finding attributed to another property is tolerated here and reported by that
        // property's own check
        if k.property != self.prop {
            return;
        }
        let line = format!("KNOWN-FINDING: property={} {} [{}]", k.property, if k.line.is_empty() { &k.what } else { &k.line }, k.id);
        let mut g = self.known_lines.lock().unwrap();
        if !g.contains(&line) {
            println!("{}", line);
            g.push(line);
        }
    }

    /// Write the evidence file and return the process exit code.
    pub fn finish(&self) -> i32 {
        let wall = self.t0.elapsed().as_secs_f64();
        let mut coverage = serde_json::Map::new();
        coverage.insert("evaluations".into(), self.stats.evaluations.load(Ordering::SeqCst).into());
        coverage.insert("engine_runs".into(), self.stats.engine_runs.load(Ordering::SeqCst).into());
        coverage.insert("distinct_nontrivial".into(), (self.stats.nontrivial.lock().unwrap().len() as u64).into());
        coverage.insert("rule".into(), self.rule.lock().unwrap().clone().into());
        coverage.insert("samples".into(), serde_json::Value::Array(self.stats.samples.lock().unwrap().clone()));
        coverage.insert("classes".into(), serde_json::to_value(&*self.stats.classes.lock().unwrap()).unwrap());
        coverage.insert(
            "excluded_by_construction".into(),
            serde_json::to_value(&*self.stats.excluded.lock().unwrap()).unwrap(),
        );
        coverage.insert(
            "known_finding_hits".into(),
            serde_json::to_value(&*self.stats.known_hits.lock().unwrap()).unwrap(),
        );
        coverage.insert("inconclusive_cases".into(), self.stats.inconclusive.load(Ordering::SeqCst).into());
        coverage.insert("exhaustive".into(), false.into());
        for (k, v) in self.extra.lock().unwrap().iter() {
            coverage.insert(k.clone(), v.clone());
        }
        for (sig, (n, d)) in self.stats.survey.lock().unwrap().iter() {
            println!("SURVEY x{} {}", n, sig);
            let lines: Vec<&str> = d.lines().collect();
            if lines.len() <= 34 {
                for l in &lines {
                    println!("    {}", l);
                }
            } else {
                for l in &lines[..4] {
                    println!("    {}", l);
                }
                println!("    ...");
                for l in &lines[lines.len() - 28..] {
                    println!("    {}", l);
                }
            }
        }
        let nviol = self.violations.lock().unwrap().len();
        let ev = serde_json::json!({
            "property_id": self.prop,
            "tier": if self.quick() { "quick" } else { "thorough" },
            "seed": self.seed,
            "level": "exploration",
            "coverage": coverage,
            "assumptions": &*self.assumptions.lock().unwrap(),
            "wall_s": wall,
            "violations": nviol,
            "known_findings_reported": &*self.known_lines.lock().unwrap(),
        });
        let dir = self.verif_dir.join("evidence");
        let _ = std::fs::create_dir_all(&dir);
        let path = dir.join(format!("{}.json", self.prop));
        std::fs::write(&path, serde_json::to_string_pretty(&ev).unwrap()).expect("write evidence");
        println!(
            "{} {}: evaluations={} distinct_nontrivial={} inconclusive={} violations={} wall={:.1}s",
            self.prop,
            if self.quick() { "quick" } else { "thorough" },
            self.stats.evaluations.load(Ordering::SeqCst),
            self.stats.nontrivial.lock().unwrap().len(),
            self.stats.inconclusive.load(Ordering::SeqCst),
            nviol,
            wall
        );
        if nviol > 0 {
            1
        } else {
            0
        }
    }
}

/// Outcome of a property closure for one generated value.
pub type PropResult = Result<(), Failure>;

const SEP: &str = "\u{1}|\u{1}";

/// Runs `test` over `total` generated values, split over `ctx.threads` threads, each with its
/// own TestRunner (seed derived from VERIF_SEED, sub-check name and thread index) and its own
/// workers.  Returns the shrunk failing values (at most one per thread).
///
/// `test(workers, value, counting)`: `counting` is false while proptest is shrinking, so that
/// statistics only describe generated cases.
pub fn run_prop<V, S, M, F>(ctx: &Ctx, sub: &str, make_strategy: M, total: u64, test: F) -> Vec<(V, Failure)>
where
    V: std::fmt::Debug + Clone + Send,
    S: Strategy<Value = V>,
    M: Fn() -> S + Sync,
    F: Fn(&mut Workers, &V, bool) -> PropResult + Sync,
{
    let threads = ctx.threads.max(1).min(total.max(1) as usize);
    let per = (total + threads as u64 - 1) / threads as u64;
    let results: Mutex<Vec<(V, Failure)>> = Mutex::new(vec![]);
    let stop = AtomicBool::new(false);
    std::thread::scope(|scope| {
        for ti in 0..threads {
            let make_strategy = &make_strategy;
            let test = &test;
            let results = &results;
            let stop = &stop;
            // generous stacks: the reference interpreter's values are dropped recursively
            std::thread::Builder::new().stack_size(512 << 20).spawn_scoped(scope, move || {
                let strategy = make_strategy();
                let mut seed_bytes = [0u8; 32];
                let h = hash_str(&format!("{}:{}:{}:{}", ctx.prop, sub, ctx.seed, ti));
                seed_bytes[..8].copy_from_slice(&h.to_le_bytes());
                seed_bytes[8..16].copy_from_slice(&ctx.seed.to_le_bytes());
                seed_bytes[16..24].copy_from_slice(&(ti as u64).to_le_bytes());
                let rng = TestRng::from_seed(RngAlgorithm::ChaCha, &seed_bytes);
                let mut cfg = PtConfig::default();
                cfg.cases = per as u32;
                cfg.failure_persistence = None;
                cfg.max_shrink_iters = if ctx.quick() { 600 } else { 3000 };
                cfg.max_global_rejects = 65536;
                cfg.verbose = 0;
                let mut runner = TestRunner::new_with_rng(cfg, rng);
                let mut workers = Workers::new();
                let first_sig: std::cell::RefCell<Option<String>> = std::cell::RefCell::new(None);
                // Shrinking is bounded by wall-clock time as well (a failing candidate that is a hang costs a full
                // time limit per attempt): past the budget every further candidate counts as passing, which ends the
                // shrink at the smallest failing case found so far.  The verdict does not depend on it.
                let shrink_budget = std::time::Duration::from_secs(
                    std::env::var("VERIF_SHRINK_SECS").ok().and_then(|v| v.parse().ok()).unwrap_or(if ctx.quick() { 150 } else { 900 }),
                );
                let shrink_start: std::cell::Cell<Option<std::time::Instant>> = std::cell::Cell::new(None);
                let workers_cell = std::cell::RefCell::new(&mut workers);
                let r = runner.run(&strategy, |v| {
                    if stop.load(Ordering::Relaxed) && first_sig.borrow().is_none() {
                        return Ok(());
                    }
                    let counting = first_sig.borrow().is_none();
                    if let Some(t0) = shrink_start.get() {
                        if t0.elapsed() > shrink_budget {
                            return Ok(());
                        }
                    }
                    let mut w = workers_cell.borrow_mut();
                    match test(&mut **w, &v, counting) {
                        Ok(()) => Ok(()),
                        Err(f) => {
                            let mut fs = first_sig.borrow_mut();
                            match &*fs {
                                None => {
                                    *fs = Some(f.sig.clone());
                                    shrink_start.set(Some(std::time::Instant::now()));
                                    stop.store(true, Ordering::Relaxed);
                                    Err(TestCaseError::fail(format!("{}{}{}", f.sig, SEP, f.detail)))
                                }
                                Some(s) if *s == f.sig => {
                                    Err(TestCaseError::fail(format!("{}{}{}", f.sig, SEP, f.detail)))
                                }
                                // a different oracle clause: reject this shrink step
                                Some(_) => Ok(()),
                            }
                        }
                    }
                });
                match r {
                    Ok(()) => {}
                    Err(TestError::Fail(reason, value)) => {
                        let msg = reason.message().to_string();
                        let (sig, detail) = match msg.split_once(SEP) {
                            Some((a, b)) => (a.to_string(), b.to_string()),
                            None => ("unknown".to_string(), msg),
                        };
                        results.lock().unwrap().push((value, Failure { sig, detail }));
                    }
                    Err(TestError::Abort(reason)) => {
                        eprintln!("INFRA: proptest aborted in {}: {}", sub, reason.message());
                        std::process::exit(2);
                    }
                }
            }).expect("spawn driver thread");
        }
    });
    results.into_inner().unwrap()
}

/// Standard handling of the failures returned by `run_prop`: one VIOLATION per distinct sig.
pub fn report_failures<V: Serialize>(ctx: &Ctx, sub: &str, fails: Vec<(V, Failure)>) {
    let mut seen = HashSet::new();
    for (v, f) in fails {
        if let Some(k) = ctx.match_known(&f) {
            ctx.note_known_hit(&k.id);
            ctx.known_finding_line(k);
            continue;
        }
        if seen.insert(f.sig.clone()) {
            ctx.violation(sub, &v, &f);
        }
    }
}

#[derive(Deserialize)]
pub struct ReplayFile<V> {
    pub property: String,
    pub sub: String,
    pub sig: String,
    #[serde(default)]
    pub detail: String,
    pub case: V,
}

pub fn load_replay<V: DeserializeOwned>(path: &std::path::Path) -> Option<ReplayFile<V>> {
    let s = std::fs::read_to_string(path).ok()?;
    serde_json::from_str(&s).ok()
}

/// All committed regression replays of this property for sub-check `sub`
/// (`/verif/replays/<prop>/*.json`, not the `new/` directory).
pub fn regression_files(ctx: &Ctx, sub: &str) -> Vec<std::path::PathBuf> {
    let dir = ctx.verif_dir.join("replays").join(&ctx.prop);
    let mut out = vec![];
    if let Ok(rd) = std::fs::read_dir(dir) {
        for e in rd.flatten() {
            let p = e.path();
            if p.extension().map(|x| x == "json").unwrap_or(false)
                && p.file_name().unwrap().to_string_lossy().starts_with(&format!("{}-", sub))
            {
                out.push(p);
            }
        }
    }
    out.sort();
    out
}

/// Regression tier + known findings for one sub-check whose cases are of type V.
/// `rerun` re-executes a stored case and returns the failure, if it still fails.
pub fn replay_tier<V: DeserializeOwned + Serialize>(
    ctx: &Ctx,
    sub: &str,
    rerun: &mut dyn FnMut(&V) -> PropResult,
) {
    for path in regression_files(ctx, sub) {
        let Some(rf) = load_replay::<V>(&path) else {
            eprintln!("INFRA: unreadable replay file {}", path.display());
            continue;
        };
        ctx.stats.class("regression_replays");
        let rel = path.strip_prefix(&ctx.verif_dir).unwrap_or(&path).to_string_lossy().to_string();
        let by_path = ctx.known.iter().find(|k| k.replay == rel);
        let outcome = rerun(&rf.case);
        // further replays of a known finding are recognised by its signature
        let known = match (&by_path, &outcome) {
            (None, Err(f)) => ctx.match_known(f),
            _ => by_path,
        };
        match outcome {
            Ok(()) => {
                if let Some(k) = known {
                    if k.status == "known" {
                        println!("NOTE: known finding {} no longer reproduces from {}", k.id, rel);
                    }
                }
            }
            Err(f) => match known {
                Some(k) if k.status == "known" => {
                    ctx.note_known_hit(&k.id);
                    ctx.known_finding_line(k);
                }
                _ => {
                    // a fixed finding that returned, or a plain regression
                    let line = format!("VIOLATION property={} replay={}", ctx.prop, path.display());
                    println!("{}", line);
                    println!("  sig: {}", f.sig);
                    for l in f.detail.lines().take(40) {
                        println!("  | {}", l);
                    }
                    ctx.violations.lock().unwrap().push(line);
                }
            },
        }
    }
}
