//! Client side of the fork-server worker.

use std::collections::BTreeMap;
use std::io::{BufReader, BufWriter};
use std::process::{Child, ChildStdin, ChildStdout, Command, Stdio};
use svproto::*;

/// A runtime configuration = the set of STEEL_* environment variables of a worker process.
#[derive(Clone, Debug, PartialEq, Eq, Hash, PartialOrd, Ord, serde::Serialize, serde::Deserialize)]
pub struct Config(pub Vec<(String, String)>);

impl Config {
    pub fn default_cfg() -> Self {
        Config(vec![])
    }
    pub fn jit_off() -> Self {
        Config(vec![("STEEL_JIT".into(), "false".into())])
    }
    pub fn with(mut self, k: &str, v: &str) -> Self {
        self.0.push((k.into(), v.into()));
        self
    }
    pub fn label(&self) -> String {
        if self.0.is_empty() {
            "default".into()
        } else {
            self.0.iter().map(|(k, v)| format!("{}={}", k.trim_start_matches("STEEL_"), v)).collect::<Vec<_>>().join(",")
        }
    }
}

pub struct Worker {
    child: Child,
    stdin: BufWriter<ChildStdin>,
    stdout: BufReader<ChildStdout>,
    pub config: Config,
    pub boot_ms: i64,
    pub cases: u64,
}

pub fn worker_exe() -> std::path::PathBuf {
    if let Ok(p) = std::env::var("SVWORKER") {
        return p.into();
    }
    let mut p = std::env::current_exe().unwrap();
    p.pop();
    p.push("svworker");
    p
}

const STEEL_VARS: &[&str] = &[
    "STEEL_JIT",
    "STEEL_INLINE",
    "STEEL_INLINE_RECURSIVE",
    "STEEL_CLOSURE_LIFTING",
    "STEEL_MODULE_INLINE",
];

impl Worker {
    pub fn spawn(config: &Config) -> std::io::Result<Worker> {
        let mut cmd = Command::new(worker_exe());
        for v in STEEL_VARS {
            cmd.env_remove(v);
        }
        for (k, v) in &config.0 {
            cmd.env(k, v);
        }
        // an isolated, empty STEEL_HOME so that nothing on disk influences the engine
        cmd.env("STEEL_HOME", "/nonexistent-steel-home");
        cmd.stdin(Stdio::piped()).stdout(Stdio::piped()).stderr(Stdio::null());
        let mut child = cmd.spawn()?;
        let stdin = BufWriter::new(child.stdin.take().unwrap());
        let mut stdout = BufReader::new(child.stdout.take().unwrap());
        let hello: Option<BTreeMap<String, i64>> = read_msg(&mut stdout)?;
        let hello = hello.ok_or_else(|| std::io::Error::new(std::io::ErrorKind::Other, "worker died at boot"))?;
        if hello.get("threads").copied().unwrap_or(0) != 1 {
            return Err(std::io::Error::new(
                std::io::ErrorKind::Other,
                format!("worker is not single-threaded after boot: {:?}", hello),
            ));
        }
        Ok(Worker { child, stdin, stdout, config: config.clone(), boot_ms: hello["boot_ms"], cases: 0 })
    }

    pub fn run(&mut self, case: &Case) -> std::io::Result<CaseResult> {
        write_msg(&mut self.stdin, case)?;
        let r: Option<CaseResult> = read_msg(&mut self.stdout)?;
        self.cases += 1;
        r.ok_or_else(|| std::io::Error::new(std::io::ErrorKind::Other, "worker closed the pipe"))
    }
}

impl Drop for Worker {
    fn drop(&mut self) {
        let _ = self.child.kill();
        let _ = self.child.wait();
    }
}

/// Lazily spawned workers, one per configuration, owned by one driver thread.
pub struct Workers {
    map: BTreeMap<Config, Worker>,
    pub infra_errors: u64,
}

impl Workers {
    pub fn new() -> Self {
        Workers { map: BTreeMap::new(), infra_errors: 0 }
    }

    /// Runs the case; an infrastructure failure (worker died) is retried once on a fresh worker.
    pub fn run(&mut self, config: &Config, case: &Case) -> CaseResult {
        for attempt in 0..3 {
            if !self.map.contains_key(config) {
                match Worker::spawn(config) {
                    Ok(w) => {
                        self.map.insert(config.clone(), w);
                    }
                    Err(e) => {
                        self.infra_errors += 1;
                        if attempt == 2 {
                            eprintln!("INFRA: cannot spawn worker: {}", e);
                            std::process::exit(2);
                        }
                        continue;
                    }
                }
            }
            let w = self.map.get_mut(config).unwrap();
            match w.run(case) {
                Ok(r) => return r,
                Err(e) => {
                    self.infra_errors += 1;
                    self.map.remove(config);
                    if attempt == 2 {
                        eprintln!("INFRA: worker failed: {}", e);
                        std::process::exit(2);
                    }
                }
            }
        }
        unreachable!()
    }
}
