mod checks;
mod progcheck;
mod runner;
mod worker;

use runner::{Ctx, Tier};
use svproto::*;

fn probe(args: &[String]) {
    // svcheck probe <file> [KEY=VAL ...]   pieces separated by a line ";;;;"
    let src = std::fs::read_to_string(&args[0]).expect("read file");
    let mut cfg = worker::Config::default_cfg();
    let mut timeout = 20_000u64;
    let mut stress = 0u64;
    for a in &args[1..] {
        if let Some((k, v)) = a.split_once('=') {
            if k == "TIMEOUT" {
                timeout = v.parse().unwrap();
            } else if k == "GCSTRESS" {
                stress = v.parse().unwrap();
            } else {
                cfg = cfg.with(k, v);
            }
        }
    }
    let mut steps = vec![];
    if stress > 0 {
        steps.push(Step::GcStress { n: stress });
    }
    for piece in src.split("\n;;;;\n") {
        if let Some(rest) = piece.strip_prefix(";;module ") {
            let (name, text) = rest.split_once('\n').unwrap();
            steps.push(Step::Module { name: name.trim().to_string(), src: text.to_string() });
        } else if let Some(rest) = piece.strip_prefix(";;path\n") {
            steps.push(Step::EvalPath { src: rest.to_string(), path: "/dev/null".to_string() });
        } else if let Some(rest) = piece.strip_prefix(";;interrupt ") {
            let (n, text) = rest.split_once('\n').unwrap();
            steps.push(Step::EvalInterrupt { src: text.to_string(), after_steps: n.trim().parse().unwrap() });
        } else if let Some(rest) = piece.strip_prefix(";;special ") {
            let mut it = rest.lines().next().unwrap().split_whitespace();
            let name = it.next().unwrap().to_string();
            steps.push(Step::Special { name, args: it.map(|s| s.to_string()).collect() });
        } else {
            steps.push(Step::Eval { src: piece.to_string() });
        }
    }
    let mut case = Case::new(steps);
    case.timeout_ms = timeout;
    let mut ws = worker::Workers::new();
    let r = ws.run(&cfg, &case);
    for (i, s) in r.steps.iter().enumerate() {
        println!("--- step {} {:?} ({} us)", i, s.outcome, s.elapsed_us);
        if !s.stdout.is_empty() {
            println!("stdout: {:?}", s.stdout);
        }
        for v in &s.values {
            println!("=> {}", v);
        }
        if s.outcome != Outcome::Ok {
            println!("{}: {}", s.err_kind, s.err_msg);
        }
        if std::env::var("PROBE_HOOKS").is_ok() {
            println!("hooks: {:?}", s.hooks);
        }
    }
    println!("=== end {:?} wall {} us threads {}", r.end, r.wall_us, r.server_threads);
    if r.end != End::Done || std::env::var("PROBE_STDERR").is_ok() {
        println!("stderr tail: {}", r.stderr_tail);
    }
}

fn main() {
    let args: Vec<String> = std::env::args().skip(1).collect();
    if args.is_empty() {
        eprintln!("usage: svcheck <Cxx> <quick|thorough> | svcheck <Cxx> --replay <file> | svcheck probe <file>");
        std::process::exit(2);
    }
    if args[0] == "probe" {
        probe(&args[1..]);
        return;
    }
    if args[0] == "gen" {
        // svcheck gen <seed> <count>: print generated programs with the model's verdict
        let seed: u64 = args.get(1).and_then(|s| s.parse().ok()).unwrap_or(1);
        let count: usize = args.get(2).and_then(|s| s.parse().ok()).unwrap_or(5);
        let mut x = seed.wrapping_mul(0x9E3779B97F4A7C15) | 1;
        for i in 0..count {
            let data: Vec<u16> = (0..300).map(|_| { x ^= x << 13; x ^= x >> 7; x ^= x << 17; (x >> 20) as u16 }).collect();
            let c = checks::c01::case_from_choices(&data, if std::env::var("GEN_C04").is_ok() { checks::c04::opts(vec![]) } else { checks::c01::opts(vec![]) });
            println!(";;; ---- program {} features {:?}", i, c.features);
            println!("{}", c.text);
            match progcheck::model_run(&c.program) {
                Some(m) => println!(";;; model: {:?} values {:?} stdout {:?} steps {}", m.result.outcome, m.result.values, m.result.stdout, m.result.steps),
                None => println!(";;; model: outside domain"),
            }
        }
        return;
    }
    let prop = args[0].clone();
    let mut tier = match std::env::var("VERIF_TIER").as_deref() {
        Ok("thorough") => Tier::Thorough,
        _ => Tier::Quick,
    };
    let mut replay: Option<String> = None;
    let mut i = 1;
    while i < args.len() {
        match args[i].as_str() {
            "quick" => tier = Tier::Quick,
            "thorough" => tier = Tier::Thorough,
            "--replay" => {
                replay = Some(args[i + 1].clone());
                i += 1;
            }
            other => {
                eprintln!("unknown argument {}", other);
                std::process::exit(2);
            }
        }
        i += 1;
    }
    // the check runs on a thread with a large stack: the AST reducer and the renderers recurse on program depth
    let code = std::thread::Builder::new()
        .stack_size(1 << 30)
        .spawn(move || {
            let ctx = Ctx::new(&prop, tier);
            checks::dispatch(&ctx, replay.as_deref())
        })
        .expect("spawn")
        .join()
        .unwrap_or(2);
    std::process::exit(code);
}
