#!/usr/bin/env python3
"""Writes the hand-minimised regression replays for the C10 findings that were fixed."""
import json, struct, os
def flo(x): return {"Flo": struct.unpack('<Q', struct.pack('<d', x))[0]}
def i(x): return {"Int": str(x)}
def r(n,d): return {"Rat": [str(n), str(d)]}
cases = {
 "mul-arm": [("Div",[r(1,2), i(2147483648)],"AllLiteral")],
 "expt": [("Expt",[i(-4), i(-1)],"ViaParams"), ("Expt",[i(-1), i(-1)],"AllLiteral"), ("Expt",[r(1,2), i(35)],"AllLiteral"), ("Expt",[r(1,3), i(20)],"ViaParams")],
 "abs-min": [("Abs",[i(-9223372036854775808)],"AllLiteral"), ("Abs",[i(-9223372036854775808)],"ViaParams")],
 "div-ieee": [("Div",[i(5), flo(11.0)],"AllLiteral"), ("Div",[i(4503599627370498), flo(96.0), flo(1e308)],"ViaParams")],
 "sub-assoc": [("Sub",[i(-9007199254740990), flo(-9007199254740992.0), i(2464849819), r(-5,2)],"AllLiteral"), ("Sub",[flo(-0.0), i(0)],"AllLiteral")],
 "recip-min": [("Div",[r(-14,15), i(-2147483648), flo(49.375)],"FirstClass")],
 "cmp-exact": [("NumEq",[r(17,29), flo(0.5862068965517241)],"AllLiteral"), ("Lt",[i(-4611686018427387905), flo(-4.611686018427388e18)],"ViaParams"),
               ("NumEq",[i(9223372036854775807), flo(9.223372036854776e18)],"BranchCond"), ("Le",[r(2,3), flo(0.6666666666666666)],"Locals"), ("Gt",[r(20,27), flo(0.7407407407407407)],"LiteralRight")],
 "abs-ratio-min": [("Abs",[r(-2147483648,9)],"AllLiteral")],
}
os.makedirs('/verif/replays/C10', exist_ok=True)
for name, items in cases.items():
    body = {"property":"C10","sub":"arith","sig":"regression:"+name,"detail":"hand-minimised from generated failures","seed":0,
            "case":{"items":[{"op":op,"args":args,"shape":shape,"radix":10} for op,args,shape in items]}}
    json.dump(body, open('/verif/replays/C10/arith-%s.json'%name,'w'), indent=1)
print("ok")
