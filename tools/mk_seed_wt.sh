#!/bin/sh
# usage: tools/mk_seed_wt.sh <name>...   scratch worktrees of /repo HEAD under /tmp/seedwt/<name> for the
# seeding sub-agents, each with a private copy of /repo/target (so that registry dependencies are not
# rebuilt) and an output directory /tmp/seeded/<name>.  Remove with: git -C /repo worktree remove --force
set -u
mkdir -p /tmp/seedwt /tmp/seeded
for n in "$@"; do
  [ -d /tmp/seedwt/$n ] && continue
  git -C /repo worktree add --detach /tmp/seedwt/$n HEAD -q
  cp -a /repo/target /tmp/seedwt/$n/target
  mkdir -p /tmp/seeded/$n
done
