#!/bin/sh
# usage: tools/sweep.sh <seed> [checks...]   runs the quick tier of every (or the given) check with VERIF_SEED=<seed>
# and prints one line per check: exit code, wall time, summary line.  Output of each run: /tmp/sweep/<seed>/<id>.log
S="$1"; shift
LIST="${*:-C01 C02 C03 C04 C05 C06 C07 C08 C09 C10 C11 C12 C13 C14 C15 C16 C17 C18 C19 C20}"
mkdir -p /tmp/sweep/$S
for c in $LIST; do
  t0=$(date +%s)
  VERIF_SEED=$S VERIF_TIER=quick /verif/bin/check $c quick > /tmp/sweep/$S/$c.log 2>&1
  rc=$?
  t1=$(date +%s)
  echo "seed=$S $c exit=$rc $((t1-t0))s | $(grep -c '^KNOWN-FINDING' /tmp/sweep/$S/$c.log) known | $(grep '^VIOLATION' /tmp/sweep/$S/$c.log | head -2 | tr '\n' ' ') $(tail -1 /tmp/sweep/$S/$c.log | cut -c1-160)"
done
