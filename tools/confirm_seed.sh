#!/bin/sh
# usage: tools/confirm_seed.sh <seed-dir-under-/tmp/seeded> — applies the patch to /repo (must be clean),
# runs the repository suite with the patch (hooks off), runs the demo through the harness worker with and
# without the patch, reverts.  Writes /tmp/seeded/<name>/confirm.txt
set -u
D="/tmp/seeded/$1"
[ -n "$(git -C /repo status --porcelain)" ] && { echo "repo not clean"; exit 3; }
OUT="$D/confirm.txt"; : > "$OUT"
DEMO=$(ls "$D"/demo.scm 2>/dev/null | head -1)
run_demo() {
  ( cd /verif/harness && cargo build --offline -q -p svworker 2>/dev/null )
  if [ -n "$DEMO" ]; then timeout 120 /verif/target/debug/svcheck probe "$DEMO" | grep "stdout\|rror\|anic\|=== end" | cut -c1-1500; fi
}
echo "== demo WITHOUT patch" >> "$OUT"; run_demo >> "$OUT" 2>&1
git -C /repo apply "$D/patch.diff" || { echo "patch does not apply" >> "$OUT"; exit 3; }
echo "== demo WITH patch" >> "$OUT"; run_demo >> "$OUT" 2>&1
echo "== repository suite WITH patch" >> "$OUT"; /verif/tools/repo_suite.sh >> "$OUT" 2>&1
git -C /repo checkout -- .
( cd /verif/harness && cargo build --offline -q -p svworker 2>/dev/null )
cat "$OUT"
