#!/usr/bin/env python3
"""Assembles /verif/seeded/<id>/ from the sub-agents' output directories (/tmp/seeded/<id>) and the
results of the final pass (/tmp/seedfinal/<id>.<check>.txt): patch.diff (+ patch.rebased.diff where the
tree moved under the patch), the demonstration files, and meta.json extended with what was run here."""
import json, os, re, shutil, glob, sys
SRC='/tmp/seeded'; DST='/verif/seeded'; FIN='/tmp/seedfinal'
KEEP_EXT={'.diff','.scm','.rs','.md','.json','.sh','.txt'}
os.makedirs(DST,exist_ok=True)
for d in sorted(os.listdir(SRC)):
    m=re.fullmatch(r'(C\d\d)-(\d)',d)
    if not m or not os.path.isfile(os.path.join(SRC,d,'patch.diff')): continue
    out=os.path.join(DST,d); os.makedirs(out,exist_ok=True)
    for f in os.listdir(os.path.join(SRC,d)):
        p=os.path.join(SRC,d,f)
        if os.path.isfile(p) and os.path.splitext(f)[1] in KEEP_EXT and os.path.getsize(p)<120_000 and not f.startswith('confirm'):
            shutil.copy(p,os.path.join(out,f))
    meta={}
    mp=os.path.join(SRC,d,'meta.json')
    if os.path.exists(mp):
        try: meta=json.load(open(mp))
        except Exception: meta={'note':'meta.json of the sub-agent was not valid JSON'}
    meta.setdefault('property',m.group(1))
    runs=[]
    for r in sorted(glob.glob(os.path.join(FIN,d+'.*.txt'))):
        if os.path.basename(r).endswith('.lab.txt'): continue
        check=os.path.basename(r).split('.')[1]
        t=open(r).read()
        viol=re.findall(r'^VIOLATION property=\S+ replay=\S+',t,re.M)
        sigs=re.findall(r'^\s+sig: (\S+)',t,re.M)
        last=[l for l in t.splitlines() if re.match(r'^C\d\d (quick|thorough):',l)]
        patch='patch.rebased.diff' if os.path.exists(os.path.join(SRC,d,'patch.rebased.diff')) else 'patch.diff'
        runs.append({'command':'tools/seedlab.sh try seeded/%s/%s %s   (applies the patch to a scratch worktree of /repo at HEAD, builds the harness against it, runs `svcheck %s quick`, restores the tree)'%(d,patch,check,check),
                     'check':check,'caught':bool(viol),'signatures':sorted(set(sigs))[:4],'summary_line':last[-1] if last else ''})
    meta['verification_here']={'runs':runs,'caught_by':[r['check'] for r in runs if r['caught']],
        'note':'patch.rebased.diff = the same change re-applied by hand after a fix: commit of this task moved the surrounding code' if os.path.exists(os.path.join(SRC,d,'patch.rebased.diff')) else ''}
    json.dump(meta,open(os.path.join(out,'meta.json'),'w'),indent=1)
    print(d,meta['verification_here']['caught_by'])
