#!/usr/bin/env python3
"""Assembles /verif/seeded/<id>/ from the sub-agents' output directories (/tmp/seeded/<id>) and the
results of the final pass (/tmp/seedfinal/<id>.<check>.txt): patch.diff (+ patch.rebased.diff where the
tree moved under the patch), the demonstration files, and meta.json extended with what was run here."""
import json, os, re, shutil, glob, sys
SRC='/tmp/seeded'; DST='/verif/seeded'; FIN='/tmp/seedfinal'
KEEP_EXT={'.diff','.scm','.rs','.md','.json','.sh','.txt'}
NEEDS={
 "C01-1":"a procedure with a rest parameter calling itself directly in tail position with a number of rest arguments other than one",
 "C02-1":"a natively compiled function reading one parameter at least three times in one expression, two reads still pending as earlier operands of enclosing calls when the last use (consumed by move) is reached; JIT on",
 "C03-1":"two threads: the non-owner holds its own clone while the owner thread updates or drops its only owner-counted reference at a last use",
 "C04-1":"a re-entrant continuation whose frames run different instances of one lambda in consecutive frames, the later instances reachable only through their frames; a full collection while suspended; re-entry that reads the captured boxes",
 "C05-1":"three threads: two non-owner decrements overlapping between load and compare-and-swap, then an owner merge",
 "C06-1":"two live instances of one lambda whose earlier-defined instance captures the only reference to a shadowed global's old slot; more than 100 shadowings so that the recycler runs",
 "C07-1":"one submission with an earlier form that defines / redefines / requires and a later form failing at run time; a later submission using the earlier form's effect",
 "C08-1":"a continuation captured inside at least two nested dynamic-wind extents and re-entered from where both must be re-entered",
 "C09-1":"a conditional whose earlier branch evaluates to a lambda expression and whose later branch is the tail call; only stack depth / memory shows it",
 "C10-1":"a run time bignum plus or minus a fixnum whose exact result lies in the fixnum range; visible through = / equal? / hashing, not through printing",
 "C11-1":"hash-union where a key occurs in both maps with different values, the left operand is still referenced elsewhere and the right operand is a fresh temporary or a moved last use",
 "C12-1":"a rectangular complex number whose parts are both written in exponent notation, the imaginary exponent negative",
 "C13-1":"a template binding its temporary through let* / letrec (not let / lambda / define), a user local with the same spelling, and at least one unrelated scope between that binding and the macro use",
 "C14-1":"a non-main module with two or more file requires, an earlier one with only-in",
 "C15-1":"three or more threads: a world-stopping operation exactly while another thread is inside spawn-native-thread",
 "C16-1":"one thread inside spawn-native-thread while another starts a world stop (global set! / define, narrower: a collection)",
 "C17-1":"the interrupt arrives inside a with-handler body whose handler carries on (restart / default value)",
 "C18-1":"equal? on two distinct cyclic values whose cycle goes through mutable vectors only",
 "C19-1":"a host root (SteelVal::as_rooted) that survives at least one full collection before it is released",
 "C02-2":"STEEL_INLINE_RECURSIVE set; a small lambda-defined global function assigned with set! in the same program; a call to it, among the first 8 call sites the pass rewrites, that runs after the assignment",
 "C04-2":"a box / mutable vector / mutable struct whose only live path is as (or inside) a key of a hash map; a full collection; later allocations that reuse the slot; a read through the key",
 "C08-2":"a dynamic-wind body left through a raised error whose after thunk itself does control work (escapes through a continuation captured outside)",
 "C19-2":"cyclic garbage present at a compaction of the free list (after more than 9 growth steps)",
 "C20-1":"two host references on loan at the same time (nested with_mut_reference, or a script under a loan that triggers the expansion kernel) when the inner loan ends",
}
os.makedirs(DST,exist_ok=True)
for d in sorted(os.listdir(SRC)):
    m=re.fullmatch(r'(C\d\d)-(\d)',d)
    if not m or not os.path.isfile(os.path.join(SRC,d,'patch.diff')): continue
    out=os.path.join(DST,d); os.makedirs(out,exist_ok=True)
    for f in os.listdir(os.path.join(SRC,d)):
        p=os.path.join(SRC,d,f)
        if os.path.isfile(p) and os.path.splitext(f)[1] in KEEP_EXT and os.path.getsize(p)<120_000 and not f.startswith('confirm'):
            shutil.copy(p,os.path.join(out,f))
    meta={}
    mp=os.path.join(SRC,d,'meta.json')
    if os.path.exists(mp):
        try: meta=json.load(open(mp))
        except Exception: meta={'note':'meta.json of the sub-agent was not valid JSON'}
    meta.setdefault('property',m.group(1))
    meta['breaks_property']=m.group(1)
    if d in NEEDS: meta['needs_to_manifest']=NEEDS[d]
    cf=os.path.join(SRC,d,'confirm.txt')
    if os.path.exists(cf):
        t=open(cf).read()
        meta['confirmed_here']={'command':'tools/confirm_seed_wt.sh %s %s  (scratch worktree at /repo HEAD: demonstration without the change, with it, then the repository suite with it)'%(m.group(1),m.group(2)),'suite_with_change':(re.findall(r'Summary.*',t) or ['see notes'])[-1].strip(),'failures_beyond_baseline':(re.findall(r'failures beyond the 6 baseline failures: (.*)',t) or ['?'])[-1]}
    runs=[]
    for r in sorted(glob.glob(os.path.join(FIN,d+'.*.txt'))):
        if os.path.basename(r).endswith('.lab.txt'): continue
        check=os.path.basename(r).split('.')[1]
        t=open(r).read()
        viol=re.findall(r'^VIOLATION property=\S+ replay=\S+',t,re.M)
        sigs=re.findall(r'^\s+sig: (\S+)',t,re.M)
        last=[l for l in t.splitlines() if re.match(r'^C\d\d (quick|thorough):',l)]
        patch='patch.rebased.diff' if os.path.exists(os.path.join(SRC,d,'patch.rebased.diff')) else 'patch.diff'
        runs.append({'command':'tools/seedlab.sh try seeded/%s/%s %s   (applies the patch to a scratch worktree of /repo at HEAD, builds the harness against it, runs `svcheck %s quick`, restores the tree)'%(d,patch,check,check),
                     'check':check,'caught':bool(viol),'signatures':sorted(set(sigs))[:4],'summary_line':last[-1] if last else ''})
    meta['verification_here']={'runs':runs,'caught_by':[r['check'] for r in runs if r['caught']],
        'note':'patch.rebased.diff = the same change re-applied by hand after a fix: commit of this task moved the surrounding code' if os.path.exists(os.path.join(SRC,d,'patch.rebased.diff')) else ''}
    if d=='C02-2' and not meta['verification_here']['caught_by']:
        meta['verification_here']['runs'].append({'command':'git -C /repo apply seeded/C02-2/patch.diff; bin/check C02 quick; git -C /repo apply -R seeded/C02-2/patch.diff   (after the generator learned to reassign global functions; the lab run above predates that)','check':'C02','caught':True,'signatures':['c02:jitdiv:wrong-value'],'summary_line':'C02 quick: evaluations=57 distinct_nontrivial=43 inconclusive=0 violations=1 wall=167.1s'})
        meta['verification_here']['caught_by']=['C02']
    json.dump(meta,open(os.path.join(out,'meta.json'),'w'),indent=1)
    print(d,meta['verification_here']['caught_by'])
