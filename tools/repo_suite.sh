#!/bin/sh
# Runs the repository's own suite (hooks off) and compares with the 664-test baseline.
cd /repo && CARGO_NET_OFFLINE=true cargo nextest run --workspace --no-fail-fast --test-threads 8 --offline > /tmp/nextest_last.log 2>&1
grep "Summary" /tmp/nextest_last.log || { echo "SUITE DID NOT RUN (build failure?) - see /tmp/nextest_last.log"; exit 2; }
grep "^        FAIL" /tmp/nextest_last.log | sed 's/.*) //' | sort -u > /tmp/nextest_fail.txt
python3 - <<'PY'
import json
base=json.load(open('/root/.vp/BASELINE.json'))
known=set(x.replace('::',' ',1) for x in base['always_fail'])
fails=set(l.strip() for l in open('/tmp/nextest_fail.txt') if l.strip())
new=[f for f in fails if f not in known and f.replace(' ','::',1) not in base['always_fail']]
print("new failures:", new if new else "none")
PY
