#!/bin/sh
# usage: tools/try_seed.sh <patch.diff> <Cxx> [quick|thorough]  — applies the patch to /repo, runs the
# check, reverts.  Prints the check's verdict.  /repo must be clean beforehand.
set -u
P="$1"; C="$2"; T="${3:-quick}"
if [ -n "$(git -C /repo status --porcelain)" ]; then echo "repo not clean"; exit 3; fi
git -C /repo apply "$P" || { echo "patch does not apply"; exit 3; }
cd /verif && VERIF_DIR=/verif timeout 3000 bin/check "$C" "$T" > /tmp/try_seed.out 2>&1
rc=$?
git -C /repo checkout -- . 
(cd /verif/harness && cargo build --offline -q 2>/dev/null)  # rebuild the worker from the clean tree
echo "exit=$rc"
grep -A 12 "^VIOLATION" /tmp/try_seed.out | head -40
tail -1 /tmp/try_seed.out
exit 0
