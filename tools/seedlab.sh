#!/bin/sh
# Parallel seed laboratory (development aid, not used by registered checks): a scratch worktree of
# /repo plus a copy of the harness under /tmp/sr, so that seeded defects can be tried while /repo and
# /verif/target stay untouched.
#   tools/seedlab.sh setup                 create / refresh /tmp/sr (worktree at /repo HEAD, harness copy)
#   tools/seedlab.sh try <patch> <Cxx> [tier]   apply patch in the lab, build, run the check there, revert
#   tools/seedlab.sh remove                delete the lab
set -u
LAB=/tmp/sr
case "$1" in
setup)
  if [ ! -d $LAB/repo ]; then mkdir -p $LAB; git -C /repo worktree add --detach $LAB/repo HEAD -q; fi
  git -C $LAB/repo checkout -q --detach "$(git -C /repo rev-parse HEAD)"
  ;;
sync)
  ;;
try)
  P="$2"; C="$3"; T="${4:-quick}"
  git -C $LAB/repo checkout -q -- . ; git -C $LAB/repo checkout -q --detach "$(git -C /repo rev-parse HEAD)"
  mkdir -p $LAB/verif
  rsync -a --delete --exclude target --exclude 'replays/*/new' --exclude evidence /verif/ $LAB/verif/
  mkdir -p $LAB/verif/evidence
  sed -i "s|/repo/|$LAB/repo/|g" $LAB/verif/harness/svrc/Cargo.toml $LAB/verif/harness/svworker/Cargo.toml
  sed -i "s|/verif/target|$LAB/target|" $LAB/verif/harness/.cargo/config.toml
  git -C $LAB/repo apply "$P" || { echo "patch does not apply"; exit 3; }
  (cd $LAB/verif/harness && cargo build --offline -q 2>&1 | grep -E "^error" -A8)
  cd $LAB/verif && VERIF_DIR=$LAB/verif timeout 3000 $LAB/target/debug/svcheck "$C" "$T" > $LAB/out.$C.txt 2>&1
  rc=$?
  git -C $LAB/repo checkout -q -- .
  echo "seed=$P check=$C exit=$rc"
  grep -A 14 "^VIOLATION" $LAB/out.$C.txt | cut -c1-400 | head -40
  tail -1 $LAB/out.$C.txt
  ;;
remove)
  git -C /repo worktree remove --force $LAB/repo; rm -rf $LAB
  ;;
esac
