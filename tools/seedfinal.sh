#!/bin/sh
# usage: tools/seedfinal.sh <seed>:<check> ...   e.g. C02-1:C02 C16-1:C15
# Runs the quick tier of <check> against the seeded defect /tmp/seeded/<seed>/patch.diff in the seed
# laboratory (tools/seedlab.sh: scratch worktree + harness copy under /tmp/sr) and keeps the output as
# /tmp/seedfinal/<seed>.<check>.txt, which tools/mk_seeded.py folds into /verif/seeded/<seed>/meta.json.
mkdir -p /tmp/seedfinal
[ -d /tmp/sr/repo ] || /verif/tools/seedlab.sh setup
for a in "$@"; do
  s=${a%%:*}; c=${a##*:}
  P=/tmp/seeded/$s/patch.diff; [ -f /tmp/seeded/$s/patch.rebased.diff ] && P=/tmp/seeded/$s/patch.rebased.diff
  /verif/tools/seedlab.sh try $P $c quick > /tmp/seedfinal/$s.$c.lab.txt 2>&1
  cp /tmp/sr/out.$c.txt /tmp/seedfinal/$s.$c.txt
  echo "$s $c: $(grep -c '^VIOLATION' /tmp/seedfinal/$s.$c.txt) violation lines; $(tail -1 /tmp/seedfinal/$s.$c.txt | cut -c1-150)"
done
