#!/usr/bin/env python3
"""Generates /verif/MANIFEST.json from the table below (kept in one place so that the manifest
is always valid and the not_applicable list is always the complement of the claimed checks)."""
import json, subprocess
CLAIMED = {
 "C01": dict(
   technique="property-based testing (proptest choice sequences -> programs built by construction) against a reference interpreter (CEK machine, svmodel) plus metamorphic rewrites; entry as REPL text and as a required module; JIT on/off; AST-level reduction of failures",
   text="Generated-input search: ~15k generated programs per quick run (600k thorough), each executed by the real engine in forked workers in 4 ways (entered as top-level text and as the body of a required module, JIT on and off) and by an independent reference interpreter; stdout, canonical top-level values and the error/success outcome must agree, and one semantics-preserving rewrite of the program must agree too (model independent). Failures are shrunk on the choice sequence and then reduced on the AST inside the static domain rules. Bounded by the generator's grammar (DESIGN.md C01) and program size; no proof.",
   note="Trusted: the reference interpreter svmodel::interp (R7RS + Steel's documented deviations, DESIGN.md 2.3), the canonical value walker. Evaluation order of operands is left open: programs keep at most one effectful operand per application/let group. Listed known findings are excluded by construction or matched by signature (known-findings.json); JIT-only divergences are attributed to C02.",
   design="DESIGN.md section 4, C01"),
 "C10": dict(
   technique="property-based testing (proptest) against a reference model: BigRational + IEEE f64 oracle over generated (operator, operands, syntactic shape); JIT on/off",
   text="Generated-input search: ~400k (operator, operand tuple, code-path shape, configuration) evaluations per quick run on the real engine in forked workers, each compared with an independent exact-rational / IEEE-double model on the canonical value (read from the SteelVal, not the printer). Finds wrong values, wrap-around (overflow checks are on), non-canonical representations, panics. Not a proof: magnitudes beyond 2^192 and operators outside the listed set are not explored.",
   note="Trusted: num-bigint/num-rational/Rust f64 as reference arithmetic; the canonical value walker (steel::verif::canon, feature verif). `=` is exercised with two operands only (Steel's `=` is binary; a third operand is a clean arity error). For mixed exact/inexact operands both the correctly rounded and the numerator/denominator-wise conversion are accepted.",
   design="DESIGN.md section 4, C10"),
}
NOT_YET = "check not built yet in this revision of /verif (work in progress; see DESIGN.md for the planned generated-input check)"
props = [json.loads(l) for l in open('/verif/properties.jsonl')]
hooks_commits = subprocess.run(['git','-C','/repo','log','--format=%h %s'],capture_output=True,text=True).stdout.splitlines()
hook_commits = [l.split()[0] for l in hooks_commits if l.split(' ',1)[1].startswith('verif hooks')]
m = {
 "version": 1,
 "setup_cmd": "cd /verif/harness && CARGO_NET_OFFLINE=true cargo build --offline",
 "hooks": {
   "guard": "cargo feature `verif` of steel-core (enables `steel-rc/verif`); off by default",
   "enable": "the harness worker depends on /repo/crates/steel-core by path with features [verif, dylibs, markdown, stacker, sync, rooted-instructions, imbl, jit2, biased]; `bin/check` runs `cargo build` in /verif/harness first, which recompiles /repo's working tree",
   "baseline_off_cmd": "cd /repo && cargo nextest run --workspace --no-fail-fast --test-threads 8 --offline || cargo test --workspace --no-fail-fast --offline",
   "source_commits": hook_commits,
   "add_only": True,
 },
 "engines": [
   {"name":"svcheck","path":"/verif/harness/svcheck","serves_properties":sorted(CLAIMED),"kind_free_text":"proptest driver: generators, shrinking, oracles, evidence, known findings, replay"},
   {"name":"svworker","path":"/verif/harness/svworker","serves_properties":sorted(CLAIMED),"kind_free_text":"fork-server: one booted Steel engine per configuration, one forked child per case (crash isolation, pristine state)"},
   {"name":"svmodel","path":"/verif/harness/svmodel","serves_properties":sorted(CLAIMED),"kind_free_text":"reference models (numeric tower, reference Scheme interpreter, collection models) — no Steel code"},
 ],
 "checks": [],
 "not_applicable": [],
 "notes": "exit 0 = held on everything explored (KNOWN-FINDING lines possible), exit 1 = VIOLATION line printed, exit 2 = inconclusive/infrastructure (build failure, watchdog). VERIF_SEED selects the PRNG seed; every run is a pure function of (/repo tree, VERIF_SEED, tier) except where DESIGN.md says otherwise.",
}
for p in props:
    pid = p['id']
    if pid in CLAIMED:
        c = CLAIMED[pid]
        m["checks"].append({
          "property_id": pid,
          "quick_cmd": "bin/check %s quick" % pid,
          "thorough_cmd": "bin/check %s thorough" % pid,
          "evidence_file": "/verif/evidence/%s.json" % pid,
          "replay_cmd_template": "bin/check %s --replay {path}" % pid,
          "engine": "svcheck",
          "level_claimed": {"category":"exploration","text":c["text"],"design_ref":c["design"]},
          "level_note": c["note"],
          "technique": c["technique"],
        })
    else:
        m["not_applicable"].append({"property_id": pid, "reason": NOT_YET})
json.dump(m, open('/verif/MANIFEST.json','w'), indent=1)
print("claimed:", sorted(CLAIMED))
