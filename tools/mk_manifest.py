#!/usr/bin/env python3
"""Generates /verif/MANIFEST.json from the table below (kept in one place so that the manifest
is always valid and the not_applicable list is always the complement of the claimed checks)."""
import json, subprocess
CLAIMED = {
 "C01": dict(
   technique="property-based testing (proptest choice sequences -> programs built by construction) against a reference interpreter (CEK machine, svmodel) plus metamorphic rewrites; entry as REPL text and as a required module; JIT on/off; AST-level reduction of failures",
   text="Generated-input search: ~15k generated programs per quick run (600k thorough), each executed by the real engine in forked workers in 4 ways (entered as top-level text and as the body of a required module, JIT on and off) and by an independent reference interpreter; stdout, canonical top-level values and the error/success outcome must agree, and one semantics-preserving rewrite of the program must agree too (model independent). Failures are shrunk on the choice sequence and then reduced on the AST inside the static domain rules. Bounded by the generator's grammar (DESIGN.md C01) and program size; no proof.",
   note="Trusted: the reference interpreter svmodel::interp (R7RS + Steel's documented deviations, DESIGN.md 2.3), the canonical value walker. Evaluation order of operands is left open: programs keep at most one effectful operand per application/let group. Listed known findings are excluded by construction or matched by signature (known-findings.json); JIT-only divergences are attributed to C02.",
   design="DESIGN.md section 4, C01"),
 "C10": dict(
   technique="property-based testing (proptest) against a reference model: BigRational + IEEE f64 oracle over generated (operator, operands, syntactic shape); JIT on/off",
   text="Generated-input search: ~400k (operator, operand tuple, code-path shape, configuration) evaluations per quick run on the real engine in forked workers, each compared with an independent exact-rational / IEEE-double model on the canonical value (read from the SteelVal, not the printer). Finds wrong values, wrap-around (overflow checks are on), non-canonical representations, panics. Not a proof: magnitudes beyond 2^192 and operators outside the listed set are not explored.",
   note="Trusted: num-bigint/num-rational/Rust f64 as reference arithmetic; the canonical value walker (steel::verif::canon, feature verif). `=` is exercised with two operands only (Steel's `=` is binary; a third operand is a clean arity error). For mixed exact/inexact operands both the correctly rounded and the numerator/denominator-wise conversion are accepted.",
   design="DESIGN.md section 4, C10"),
 "C03": dict(
   technique="property-based testing with a metamorphic oracle (update on a shared value == update on a fresh copy; earlier values keep their canonical form) over generated collection scripts under nine holder patterns incl. native threads",
   text="Generated-input search: 12000 (quick) collection scripts; every functional update on lists, immutable vectors, hash maps, hash sets, strings and byte vectors is applied under a holder pattern (direct, let-bound last use, chained on an unshared intermediate, function parameter 1st..7th called by name / apply / first-class, closure capture invoked twice, old and new kept together, held in a container, computed in another native thread, another native thread holding its own clone while this thread updates at its last use); all live values are re-observed after the updates. Violation = an earlier value's canonical form changed (also as a component of a result), or a piece gives the model's result in a fresh engine with variables rebuilt from literals but not in the sharing context. JIT on and off. Bounded by script length and the operation set.",
   note="Trusted: canonical value walker; the functional model only to name the expected value (the persistence oracle itself is model independent). Sharing through continuations is exercised by C08. Disagreements with the model that do not depend on sharing are counted and left to C11.",
   design="DESIGN.md section 4, C03"),
 "C11": dict(
   technique="model-based property-based testing: generated collection scripts against a purely functional Rust model (maps and sets keyed by canonical form), with equal?/hash agreement checks on differently built and perturbed copies",
   text="Generated-input search: 20000 (quick) scripts over lists, immutable and (unmutated) mutable vectors, hash maps, hash sets, strings, byte vectors and scalars nested to depth 3, with internal sharing and collections as keys; ~60 operations incl. boundary and out-of-range indices (an error is expected); per equality step: reflexivity, symmetry, a copy built with different sharing is equal?, a copy differing in one leaf and a copy with the same leaves under a different nesting are not, and hash-ref / hash-contains? / hashset-contains? / member / hash-length agree with that. Every result is compared with the model's canonical value. JIT on and off.",
   note="Trusted: the model's operation semantics, taken from the doc comments of steel-core's primitives (e.g. hashset-difference is documented and implemented as the symmetric difference; hash-union is left biased). Floats are left to C10; mutation of vectors to C01/C04.",
   design="DESIGN.md section 4, C11"),
 "C12": dict(
   technique="property-based testing / fuzzing of the reader and writer: (a) constructor-built data written and read back against a model's canonical form, (b) generated and mutated texts through Parser::parse (lowered and raw) and the run time read with a span-inside-text oracle, (c) print/parse fixpoint on generated programs",
   text="Generated-input search per quick run: 4000 batches of 8 data (all number kinds incl. -0.0 / subnormal / inf / nan / bignums / ratios, 28 characters incl. controls and astral, strings over them, plain symbols, proper and improper lists, vectors, byte vectors, quotation forms, depth <=3) built from constructors, written with write and read back with read: the datum read back must have the model's canonical form and the written text must parse as exactly one form; 12000 texts (token soup over 80 lexical fragments, well formed data with 1-4 character-level mutations, arbitrary unicode): no panic / abort in Parser::parse, Parser::parse_without_lowering and read, error spans inside the text; 4000 programs / quoted data: print(parse(t)) is a fixpoint of print . parse. Bounded by the alphabets and sizes; no proof.",
   note="Trusted: the worker's `parse` / `parse-raw` specials (thin wrappers over Parser::parse / parse_without_lowering), the canonical value walker. Clause (c) uses the un-lowered reader output (lowering introduces generated names that are not meant to be readable). Symbols needing |...| and unquote forms are listed known findings, excluded by construction.",
   design="DESIGN.md section 4, C12"),
 "C13": dict(
   technique="property-based testing with (a) a metamorphic / differential oracle for hygiene (a program with clashing names and its alpha-renamed variant must give the same values, as top-level text and as a module) and (b) a reference matcher for syntax-rules pattern matching over generated patterns and uses",
   text="Generated-input search per quick run: 1500 hygiene scenarios from 11 families (template binders vs user variables in swap! / or / lambda / named-let templates, use-site bindings via let, lambda parameter or internal define of the template's free identifiers - program globals and builtins, directly or inside a form handed to when / or / let* / a user macro -, special forms, a macro using a macro with the same spelling, a macro-defining macro, recursive and let*-style macros, a macro imported from a module whose private helper is redefined by the requiring program) x 6 binder names, each run with clashing and with alpha-renamed names, as REPL text and as a module, JIT on/off; 6000 generated syntax-rules definitions (1-3 clauses, literals, nested ellipses, items after an ellipsis, dotted tails) with 2-5 generated uses each, compared with a reference matcher; a use no clause matches must raise. No proof: scenario families and pattern grammar are finite.",
   note="Trusted: alpha-renaming of use-site variables to names that occur nowhere else preserves meaning (the hygiene oracle needs no model of the expander); the reference matcher (svmodel::macros) for clause selection and bindings. Four hygiene defects are listed as known findings and matched by signature.",
   design="DESIGN.md section 4, C13"),
 "C14": dict(
   technique="stateful property-based testing against a substitution model: generated acyclic module graphs with overlapping names and require modifiers, and histories of evaluations on one engine (requires, rejection probes, clashing definitions, contract violations, typos, re-requires)",
   text="Generated-input search: 3000 (quick) graphs of 2-5 in-memory modules x histories of 3-14 evaluations; every definition evaluates to (list 'module 'name refs...), so values reveal which binding each reference resolved to; expected values are computed by substitution; private names and provided-but-unselected names must be rejected; an instantiation marker printed by every module body must appear exactly once over the whole history for every transitively required module and never otherwise; contract/out provides must reject a violating argument at the boundary and accept it inside the module. JIT on and off.",
   note="Trusted: the worker's in-memory module registration (Step::Module) stands for module files; the substitution model. for-syntax provides and cyclic graphs are not generated.",
   design="DESIGN.md section 4, C14"),
 "C17": dict(
   technique="property-based testing with fault injection at a generated point: non-terminating program shapes x interrupt request at a generated script step (deterministic step hook, timer fallback) x JIT on/off; invariant oracle (stops with the interrupt error within a bounded number of steps, engine usable afterwards)",
   text="Generated-input search: 400 (quick) (shape, size, request point) triples over 19 non-terminating shapes (tail loops, recursion in loops, map/foldl/for-each/transduce callbacks, handler loops that swallow errors, retry loops, generators via continuations, wind thunks, closure / allocation / port heavy loops), request point 1..3*10^6 script steps; the evaluation must end with the interrupt error at most 50000 script steps after the request (measured by the step hook) and the engine must then evaluate a probe program correctly; an evaluation still running 10 s (22 s on the retry) after the request is reported as not interruptible.",
   note="Trusted: hooks STEPS / arm_interrupt (steel-core feature verif): the request is made through ThreadStateController::interrupt exactly when the step counter reaches the generated value; a 1.5 s timer makes it for code that does not pass the counted dispatch point. This is the one check where a watchdog timeout is a violation, because not stopping is what the property forbids; it is retried once with a doubled budget first.",
   design="DESIGN.md section 4, C17"),
 "C20": dict(
   technique="property-based testing of the embedding API through host functions registered in the worker: generated (function, argument) pairs with a range/kind oracle, arity sweeps, and stateful lend-and-stash scenarios for host references",
   text="Generated-input search per quick run: 6000 conversion / arity cases (identity functions at 18 parameter types, 28 integer magnitudes around every width's bounds, floats, 10 wrong kinds, compound ill-typed values, host-made extremes, a registered struct, 10 functions with 0-5 arguments) and 2000 lend scenarios (a host object lent by reference with Engine::with_mut_reference while a script stashes it in a global, box, vector, list, hash map, struct field, closure or across a continuation; then 1-3 uses after the call and optionally one during a second lend of another object). Oracle: well typed in-range arguments come back unchanged, everything else raises, nothing comes back as a different value, every use of a stale reference raises and never reaches another object; no panics. JIT on/off.",
   note="Trusted: the registrations in svworker/src/host.rs (Engine::register_fn / register_type / with_mut_reference). A symbol passed where a String is expected may be converted (same text); an integral float passed to an integer parameter may be accepted if it arrives as the same integer.",
   design="DESIGN.md section 4, C20"),
 "C18": dict(
   technique="property-based testing with a survival / termination oracle: generated (value shape, size, operation) triples incl. cyclic structures, executed in forked children with bounded address space and the default native stack",
   text="Generated-input search: 300 (quick) triples over 14 deep / wide shapes at sizes 10..10^5 (thorough 10^6) and 5 cyclic shapes with cycle lengths 1-64, under 8 operations (build and discard with a collection, equal? with an equal and with a different copy, use as hash key, write to a string port, hand to a native thread, collect while alive, store in containers), JIT on/off. The engine process must survive (a native stack overflow is a crash), give the expected small result or an error value, and operations on cycles of <=64 cells must finish within 15 s. Out of memory and timeouts on large sizes are inconclusive.",
   note="Trusted: fork isolation and resource limits of the worker (6 GB address space, 8 MB main-thread stack). Streams are not generated. Recursive hashing and the cycle printer's box path are listed known findings matched by signature.",
   design="DESIGN.md section 4, C18"),
 "C19": dict(
   technique="property-based testing with an invariant over heap statistics (hook): generated allocation patterns with a bounded live set x iteration counts x collection regime (natural, or forced every P allocations by the gc-stress hook); metamorphic relation: 5x the iterations must not change the live slot counts",
   text="Generated-input search: 250 (quick) cases over 14 allocation patterns (acyclic and cyclic garbage of cycle length 1-9 through boxes, vectors, make-vector, struct fields and mixes, self-capturing closures, garbage held by dropped continuations and by joined threads, hash maps of boxes, grown-and-dropped lists) with a live set of 0-40 boxes, n then 4n more iterations (n up to 40000; thorough 3*10^6), natural or forced collections; after a requested full collection the live slot counts of both free lists must not depend on the iteration count, and under forced collections the free lists' sizes must stay bounded; one weak-box scenario. JIT on/off.",
   note="Trusted: hooks #%verif-heap-stats and gc-stress (steel-core feature verif). Unbounded growth of the free lists under *natural* collections needs >5*10^7 allocations to tell from the normal double-until-compaction sawtooth (peak 2.6*10^7 slots) and is only checked through the live counts in the quick tier; process-level memory is not measured.",
   design="DESIGN.md section 4, C19"),
 "C15": dict(
   technique="property-based testing of generated multi-threaded programs under fault injection (gc-stress: a world-stopping full collection forced every 40-1000 allocations on whichever thread allocates), with per-thread invariants (private graph checksum, accumulator), visibility of global assignments after a channel handshake, and the heap hooks; the OS owns the schedule",
   text="Generated-input search: 48 (quick) programs with 1-8 native worker threads x 50-2000 iterations under forced world-stopping collections and global definitions / assignments by the main thread; checked: every worker's final accumulator and private-graph checksum, the global a worker reads after receiving the main thread's i-th value (>= i), stale-handle hook, crashes, completion. Weak: the schedule is not controlled, so a violation that needs a particular interleaving is found only by chance, and the 'being scanned' flag hook the property names is not implemented - only consequences are observed.",
   note="Trusted: hooks gc-stress / stale-handle (feature verif). Several genuine, schedule dependent defects are listed as known findings (a worker's live data swept by another thread's collection; deadlock of forced collections; slot dropped by another thread's compaction) and matched by signature, which also means that a new defect with one of these symptoms is not distinguished from them.",
   design="DESIGN.md section 4, C15"),
 "C16": dict(
   technique="property-based testing of generated multi-threaded programs (spawn, channels, blocking receives, joins in generated orders, global updates) with delivery and completion oracles; the OS owns the schedule",
   text="Generated-input search: 240 (quick) programs with 1-8 native worker threads, a shared tick channel, one blocking channel per worker, 0-5 feed rounds, joins in spawn / reverse / looped / interleaved order, natural collections; checked: the program finishes (30 s, retried with 60 s; it needs well under a second), join results arrive exactly once with the worker's value, every sender's messages arrive exactly once and in order, workers' final state. JIT on/off.",
   note="Trusted: the time limits as a deadlock detector (one retry). Weak for the same reason as C15: interleavings are sampled by the OS, not enumerated. Locks and higher-order blocking helpers beyond map / for-each are not generated. The worker-state and stale-handle symptoms of KF-C15-thread-roots-missed are tolerated here and reported by C15.",
   design="DESIGN.md section 4, C16"),
 "C02": dict(
   technique="differential property-based testing: generated programs and evaluation histories run under 7 (quick) / 24 (thorough) combinations of the optimisation switches (JIT, inlining, recursive inlining, closure lifting, module inlining), all compared with each other and with the reference interpreter",
   text="Generated-input search: each generated program / history (same generators as C01 and C06) is executed in forked workers under every selected combination of STEEL_JIT, STEEL_INLINE, STEEL_INLINE_RECURSIVE, STEEL_CLOSURE_LIFTING and STEEL_MODULE_INLINE, as top-level text and as a module; values, output and outcome must be identical across configurations (and equal to the reference interpreter). A failure is classed jitdiv (only the JIT differs) or cfgdiv. Bounded by the generators; no proof.",
   note="Trusted: reference interpreter, canonical value walker. The combination INLINE+INLINE_RECURSIVE is left out for self-recursive defines (compile time explodes, DESIGN.md). Known JIT divergence classes are listed in known-findings.json and matched by signature.",
   design="DESIGN.md section 4, C02"),
 "C04": dict(
   technique="property-based testing with fault injection (gc-stress hook: forced full collection every N-th allocation) over (a) generated programs and (b) generated object-graph histories, against a collector-free reference model plus heap invariants (stale-handle and free-list accounting hooks)",
   text="Generated-input search: (a) ~3000 generated programs rich in boxes / mutable vectors / assigned captured variables, run with a forced full collection at every N-th allocation (N in 1,2,3,5,17), JIT on/off, text and module entry, compared with the reference interpreter; (b) ~1500 object-graph histories: trees and DAGs over all 10 container kinds (box, mutable/immutable vector, list, dotted pair, hash, mutable/immutable struct, closures over assigned/unassigned variables) rooted in globals, locals, arguments, operand-stack temporaries and saved continuations, mutated through access paths, with root drops, aliasing, garbage churn (incl. cyclic garbage), requested, natural and forced collections; a Scheme walker's dump of every root must equal the model's after each check step, and the stale-handle / accounting hooks must read zero. Bounded by generator sizes; no proof.",
   note="Trusted: the hooks in steel-core (feature verif): gc-stress only adds collections at allocation points where the collector may run anyway; under gc-stress a forced collection of a <50% full heap does not double the heap (hook commit), otherwise policy is unchanged. Values held only by the host (results of earlier top-level forms) are not roots in Steel and are outside the property as read here.",
   design="DESIGN.md section 4, C04"),
 "C05": dict(
   technique="stateful property-based testing with a harness-owned schedule: generated (operation history, schedule) pairs over steel_rc::BiasedRc executed on real threads serialised by a token-passing scheduler that yields before every access of a count word (steel-rc feature verif); bounded-exhaustive schedule enumeration in the thorough tier; oracle = handle-count model + destruction invariants on quarantined boxes",
   text="Generated-input search: 300k (quick) generated histories of clone / drop / move-to-thread / get_mut / make_mut / try_unwrap / strong_count / read / merge / thread exit by 2-3 threads on 1-2 objects, each with a generated interleaving of the atomic steps; invariants: destroyed at most once, never while a handle exists, never touched after destruction (boxes are quarantined, not freed), exclusive access only for a sole holder. Thorough adds all schedules of histories with 2 threads x <=3 operations. Sequentially consistent interleavings only.",
   note="Trusted: the yield-point placement (before each load/CAS/fetch of the shared word and each owner-counter access), the scheduler. Weak-memory reorderings are not explored. A leak (never destroyed) is reported only in operation-atomic mode where the model is exact.",
   design="DESIGN.md section 4, C05"),
 "C06": dict(
   technique="stateful (model-based) property-based testing: generated evaluation histories on one engine compared step by step with a reference binding model",
   text="Generated-input search: 3000 (quick) histories of 3-40 evaluations on one engine: define / redefine / set! of functions, variables and closures (incl. composed closures capturing other globals), failing steps (syntax error, free identifier, run time error after a completed definition), bulk shadowing of 40-205 bindings and 50-420 fresh definitions (crossing the global-slot recycling thresholds), probes that call every live function; every step's values, output and outcome must equal the reference interpreter's binding model; JIT on and off.",
   note="Trusted: reference interpreter's binding model (definitions create locations; compiled code keeps the locations it resolved). Same-piece constant folding of later-assigned globals is a listed known finding excluded by construction.",
   design="DESIGN.md section 4, C06"),
 "C07": dict(
   technique="fuzzing / property-based testing of the whole evaluation entry point: (a) generated program text (token soup, mutated valid programs, unicode) with a deterministic step-count interrupt, (b) every exported builtin called with generated argument tuples from a value pool, (c) failing histories; oracle = no panic / abort / hang and a usability probe (known functions, counters, stack depths) after every input",
   text="Generated-input search: ~6000 texts, ~60000 builtin calls over all ~1300 exported builtins (deny list for blocking / process / filesystem functions), and failing histories per quick run, in forked workers; any panic (caught or aborting), fatal signal or non-zero exit is a violation, as is an engine that no longer evaluates the probe program correctly afterwards. Panics are keyed by source location so that each root cause is one finding. Watchdog / out-of-memory / capacity-overflow requests are inconclusive, not violations.",
   note="Trusted: the worker's catch_unwind + fork isolation; the probe program. Resource exhaustion by request ((range 4611686018427387904)) is judged like OOM. Builtins that block, spawn processes, touch the filesystem or exit are not called.",
   design="DESIGN.md section 4, C07"),
 "C08": dict(
   technique="property-based testing against a reference interpreter with first-class heap continuations and R7RS common-ancestor winding: generated programs built around control templates (re-entry, escapes, winds, handlers)",
   text="Generated-input search: 6000 (quick) programs embedding control templates (continuation stored and re-entered 1-3 times from a let binding / argument position / map callback / 1-3 nested dynamic-wind extents / a sibling wind, escapes through winds and from deep recursion, errors crossing winds to handlers, nested handlers) in generated expressions; trace of before/after thunks, output, values and outcome must equal the reference interpreter's; JIT on/off, text and module entry.",
   note="Trusted: the reference interpreter's control model. A continuation captured in one top-level form extends to the end of that form. State that must survive re-entry lives in boxes (un-captured set! locals are restored on re-entry in Steel, which the property's wording allows).",
   design="DESIGN.md section 4, C08"),
 "C09": dict(
   technique="property-based testing with an invariant oracle: generated loop shapes x iteration counts x JIT on/off x entry mode; frame / operand stack depth probes (hook #%verif-depths) at three iterations plus the closed-form result",
   text="Generated-input search: 600 (quick) loops from 22 shape families (self, mutual among 2-4, through a parameter, through apply, rest arguments with surplus, let temporaries, captured variables, tail position in cond/case/when/and/or/begin, out of an inner named let, from a handler body, k-accumulator argument shuffles with 0-3 nested lets of 1-3 temporaries, self or mutual) at 10^3..10^6 (thorough 10^7) iterations; the stack depths at iterations 24, n/2 and n-16 must not grow and the result must equal the closed form; non-tail recursion of depth 10^4..2*10^7 must end in a value or an error value.",
   note="Trusted: hook #%verif-depths (lengths of the frame stack and operand stack). Depth growth is judged up to a small constant (8 between middle and end) because the JIT tier changes frame layout once early in a loop.",
   design="DESIGN.md section 4, C09"),
}
NOT_YET = "check not built yet in this revision of /verif (work in progress; see DESIGN.md for the planned generated-input check)"
props = [json.loads(l) for l in open('/verif/properties.jsonl')]
hooks_commits = subprocess.run(['git','-C','/repo','log','--format=%h %s'],capture_output=True,text=True).stdout.splitlines()
hook_commits = [l.split()[0] for l in hooks_commits if l.split(' ',1)[1].startswith('verif hooks')]
m = {
 "version": 1,
 "setup_cmd": "cd /verif/harness && CARGO_NET_OFFLINE=true cargo build --offline",
 "hooks": {
   "guard": "cargo feature `verif` of steel-core (enables `steel-rc/verif`); off by default",
   "enable": "the harness worker depends on /repo/crates/steel-core by path with features [verif, dylibs, markdown, stacker, sync, rooted-instructions, imbl, jit2, biased]; `bin/check` runs `cargo build` in /verif/harness first, which recompiles /repo's working tree",
   "baseline_off_cmd": "cd /repo && cargo nextest run --workspace --no-fail-fast --test-threads 8 --offline || cargo test --workspace --no-fail-fast --offline",
   "source_commits": hook_commits,
   "add_only": True,
 },
 "engines": [
   {"name":"svcheck","path":"/verif/harness/svcheck","serves_properties":sorted(CLAIMED),"kind_free_text":"proptest driver: generators, shrinking, oracles, evidence, known findings, replay"},
   {"name":"svworker","path":"/verif/harness/svworker","serves_properties":sorted(CLAIMED),"kind_free_text":"fork-server: one booted Steel engine per configuration, one forked child per case (crash isolation, pristine state)"},
   {"name":"svrc","path":"/verif/harness/svrc","serves_properties":["C05"],"kind_free_text":"steel-rc scheduler harness: real threads serialised by a token-passing scheduler at the verif yield points, quarantine of destroyed boxes"},
   {"name":"svmodel","path":"/verif/harness/svmodel","serves_properties":sorted(CLAIMED),"kind_free_text":"reference models (numeric tower, reference Scheme interpreter, collection models) — no Steel code"},
 ],
 "checks": [],
 "not_applicable": [],
 "notes": "exit 0 = held on everything explored (KNOWN-FINDING lines possible), exit 1 = VIOLATION line printed, exit 2 = inconclusive/infrastructure (build failure, watchdog). VERIF_SEED selects the PRNG seed; every run is a pure function of (/repo tree, VERIF_SEED, tier) except where DESIGN.md says otherwise.",
}
for p in props:
    pid = p['id']
    if pid in CLAIMED:
        c = CLAIMED[pid]
        m["checks"].append({
          "property_id": pid,
          "quick_cmd": "/verif/bin/check %s quick" % pid,
          "thorough_cmd": "/verif/bin/check %s thorough" % pid,
          "evidence_file": "/verif/evidence/%s.json" % pid,
          "replay_cmd_template": "/verif/bin/check %s --replay {path}" % pid,
          "engine": "svcheck",
          "level_claimed": {"category":"exploration","text":c["text"],"design_ref":c["design"]},
          "level_note": c["note"],
          "technique": c["technique"],
        })
    else:
        m["not_applicable"].append({"property_id": pid, "reason": NOT_YET})
json.dump(m, open('/verif/MANIFEST.json','w'), indent=1)
print("claimed:", sorted(CLAIMED))
