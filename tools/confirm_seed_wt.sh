#!/bin/bash
# usage: tools/confirm_seed_wt.sh <Cxx> <n>
# Confirms a seeded defect produced by a sub-agent, in the scratch worktree /tmp/seedwt/<Cxx> (moved to
# /repo's HEAD first): the demonstration passes without the change, fails with it, and the repository's
# suite still passes with it.  Writes /tmp/seeded/<Cxx>-<n>/confirm.txt; leaves the worktree clean.
set -u
ID="$1"; N="$2"; WT=${CONFIRM_WT:-/tmp/seedwt/$ID}; D=/tmp/seeded/$ID-$N; OUT=$D/confirm.txt
export CARGO_NET_OFFLINE=true
cd $WT || exit 3
git checkout -q -- . ; git checkout -q --detach "$(git -C /repo rev-parse HEAD)" || exit 3
: > $OUT
echo "worktree $WT at $(git rev-parse --short HEAD)" >> $OUT
P=$D/patch.diff; [ -f $D/patch.rebased.diff ] && P=$D/patch.rebased.diff
run_demo() {
  if [ -f $D/run_demo.sh ]; then
    cargo build --offline -q -j 8 2>&1 | grep -E "^error" -A5
    bash $D/run_demo.sh $WT 2>&1 | tail -25 | cut -c1-400
    echo "[run_demo.sh exit status: ${PIPESTATUS[0]:-?}]"
  elif [ -f $D/demo.scm ]; then
    cargo build --offline -q -j 8 2>&1 | grep -E "^error" -A5
    ( cd $D && timeout 300 $WT/target/debug/steel demo.scm 2>&1 | tail -15 | cut -c1-400 )
    echo "[exit status of the last pipeline stage is not the demo's]"
  elif [ -f $D/run_demo.sh ]; then
    bash $D/run_demo.sh $WT 2>&1 | tail -25 | cut -c1-400
  else
    echo "no demo.scm / run_demo.sh"
  fi
}
echo "== demo WITHOUT the change" >> $OUT; run_demo >> $OUT 2>&1
if ! git apply --check $P 2>>$OUT; then echo "PATCH DOES NOT APPLY at this HEAD" >> $OUT; cat $OUT; exit 4; fi
git apply $P
echo "== demo WITH the change" >> $OUT; run_demo >> $OUT 2>&1
if [ "${SKIP_SUITE:-0}" = "0" ]; then
echo "== repository suite WITH the change" >> $OUT
cargo nextest run --workspace --no-fail-fast --test-threads 6 --offline > $D/suite.confirm.log 2>&1
grep "Summary" $D/suite.confirm.log >> $OUT || echo "SUITE DID NOT RUN (see suite.confirm.log)" >> $OUT
grep "^        FAIL" $D/suite.confirm.log | sed 's/.*) //' | sort -u > $D/suite.fails.txt
python3 - $D/suite.fails.txt >> $OUT <<'PY'
import json,sys
base=json.load(open('/root/.vp/BASELINE.json'))
known=set(base['always_fail'])|set(x.replace('::',' ',1) for x in base['always_fail'])
fails=set(l.strip() for l in open(sys.argv[1]) if l.strip())
new=[f for f in fails if f not in known and f.replace(' ','::',1) not in known]
print("failures beyond the 6 baseline failures:", new if new else "none")
PY
fi
git checkout -q -- .
cat $OUT
