#![no_main]
//! C12 (thorough tier): coverage-guided fuzzing of the reader.
//! Oracle inside the target: no panic other than the listed debug assertions on the quote
//! context stack (KF-C12-parser-context-assert), error spans inside the text, and for accepted
//! text the print / parse fixpoint of the un-lowered tree.
use libfuzzer_sys::fuzz_target;
use steel_parser::parser::Parser;

thread_local! { static LAST: std::cell::RefCell<String> = std::cell::RefCell::new(String::new()); }

/// KF-C12-plus-prefixed-identifier: `+x` / `++` are read as `+` followed by another token
fn plus_prefixed(t: &str) -> bool {
    t.split(|c: char| c.is_whitespace() || "()[]{}'`,\"".contains(c)).any(|tok| tok.len() > 1 && tok.starts_with('+') && tok.parse::<f64>().is_err())
}

fn known_panic(msg: &str) -> bool {
    msg.contains("ParsingContext::")
}

fuzz_target!(|data: &[u8]| {
    let Ok(text) = std::str::from_utf8(data) else { return };
    let prev = std::panic::take_hook();
    std::panic::set_hook(Box::new(|info| {
        // keep the location: the payload alone does not say where an index panic happened
        LAST.with(|l| *l.borrow_mut() = format!("{}", info));
    }));
    let r = std::panic::catch_unwind(|| {
        let lowered = Parser::parse(text);
        if let Err(e) = &lowered {
            let sp = e.span();
            assert!(sp.start <= sp.end && sp.end as usize <= text.len(), "C12: span {}..{} outside a text of {} bytes", sp.start, sp.end, text.len());
        }
        match Parser::parse_without_lowering(text) {
            Err(e) => {
                let sp = e.span();
                assert!(sp.start <= sp.end && sp.end as usize <= text.len(), "C12: span {}..{} outside a text of {} bytes", sp.start, sp.end, text.len());
            }
            Ok(forms) => {
                let p1: Vec<String> = forms.iter().map(|f| f.to_string()).collect();
                // The first print may normalise the spelling ((2 . (quote x)) is the list (2 quote x),
                // `0.` is printed `0.0`); from then on print . parse must be the identity.  Symbols that
                // need |..| are a listed finding (KF-C12-symbol-bars): the requirement only applies when
                // the print parses back into the same number of forms.
                // print . parse must reach a fixpoint within four rounds (the first rounds may normalise
                // spelling: dotted tails, `0.`, tokens that print as nothing)
                let mut cur = p1;
                let mut stable = false;
                for _ in 0..4 {
                    let Ok(forms_n) = Parser::parse_without_lowering(&cur.join("\n")) else { stable = true; break };
                    let next: Vec<String> = forms_n.iter().map(|f| f.to_string()).collect();
                    // KF-C12-unquote-rename / KF-C12-symbol-bars: renaming and re-tokenisation are listed findings
                    // (identifiers containing control characters re-tokenise differently: the same listed finding)
                    if next.len() != cur.len() || next.iter().any(|t| t.contains("unquote") || t.contains("unsyntax") || t.chars().any(|c| c.is_control()) || plus_prefixed(t)) {
                        stable = true;
                        break;
                    }
                    if next == cur {
                        stable = true;
                        break;
                    }
                    cur = next;
                }
                assert!(stable, "C12: print . parse does not reach a fixpoint within four rounds: {:?}", cur);
            }
        }
    });
    std::panic::set_hook(prev);
    if let Err(e) = r {
        let _ = e;
        let msg = LAST.with(|l| l.borrow().clone());
        if !known_panic(&msg) {
            eprintln!("C12 VIOLATION (reader): {}", msg);
            std::process::abort();
        }
    }
});
